"""Program generators for the abstract-interpreter based checks (C02..C05, C08,
C09, C15, C16, C29, C31, C32 ...).  They only build syntax and data; all
semantics come from spec/Jinja.tla."""
from __future__ import annotations

import itertools
import random

from . import jast as J

N, C = J.Name, J.Const
META = "<&'\">"

VALUE_POOL = [
    J.vint(0), J.vint(5), J.vint(2), J.vstr(META), J.vstr(""), J.vstr("t<x>"), J.vlist([J.vint(1), J.vint(2)]),
    J.vlist([]), J.vbool(True), J.VNONE, J.vlist([J.vstr("p&q"), J.vint(3)]),
]


def _tree(rnd, depth=0):
    kids = [] if depth >= 2 else [_tree(rnd, depth + 1) for _ in range(rnd.choice([0, 1, 2]))]
    return J.vdict([(J.vstr("n"), rnd.choice([J.vstr(META), J.vstr("p"), J.vint(depth)])), (J.vstr("k"), J.vlist(kids))])


def datas_for(rnd, names, n, pool=None, always_empty=True):
    pool = pool or VALUE_POOL
    out = [{}] if always_empty else []
    while len(out) < n:
        d = {}
        for nm in names:
            if rnd.random() < 0.8:
                d[nm] = rnd.choice(pool)
        d["tr"] = J.vlist([_tree(rnd) for _ in range(rnd.choice([1, 2]))])
        out.append(d)
    return out


class StmtGen:
    """Random statement trees over a small pool of variable names, so that shadowing,
    conditional assignment, read-before-write and closure capture are frequent."""

    def __init__(self, rnd, names=("a", "b", "c"), features=None, auto=False):
        self.rnd = rnd
        self.names = list(names)
        self.f = features or set()
        self.auto = auto
        self.macros = []        # (name, nparams) defined so far (generator-level knowledge)
        self.frags = []         # names bound to rendered fragments (set blocks)
        self.nmac = 0
        self.budget = 0

    # -- expressions -------------------------------------------------------------------
    def name(self):
        return self.rnd.choice(self.names)

    def atom(self, inloop=False):
        r = self.rnd.random()
        if r < 0.5:
            return N(self.name())
        if r < 0.7:
            return C(self.rnd.choice([0, 1, 2, 3]))
        if r < 0.8:
            return C(self.rnd.choice(["s", META, ""]))
        if r < 0.85 and inloop:
            return J.Getattr(N("loop"), self.rnd.choice(["index", "index0", "first", "last", "length", "revindex",
                                                          "previtem", "nextitem", "depth"]))
        if r < 0.9:
            return J.List([self.atom() for _ in range(self.rnd.randint(0, 2))])
        if r < 0.95:
            return C(self.rnd.choice([True, False, None]))
        return N(self.name())

    def expr(self, depth=2, inloop=False):
        if depth <= 0 or self.rnd.random() < 0.35:
            return self.atom(inloop)
        r = self.rnd.random()
        sub = lambda: self.expr(depth - 1, inloop)
        if r < 0.15:
            return J.Bin(self.rnd.choice(["+", "-", "*", "//", "%"]), sub(), sub())
        if r < 0.27:
            return J.Cmp(sub(), (self.rnd.choice(["eq", "ne", "lt", "gt", "lteq", "gteq", "in", "notin"]), sub()))
        if r < 0.35:
            return J.Not(sub())
        if r < 0.43:
            return (J.And if self.rnd.random() < 0.5 else J.Or)(sub(), sub())
        if r < 0.5:
            return J.Cond(sub(), sub(), sub() if self.rnd.random() < 0.7 else None)
        if r < 0.58:
            return J.Concat(sub(), sub())
        if r < 0.68:
            return J.Test(sub(), self.rnd.choice(["defined", "undefined", "none", "odd", "even", "string", "number",
                                                  "sequence", "iterable", "mapping", "boolean"]),
                          neg=self.rnd.random() < 0.3)
        if r < 0.8:
            f = self.rnd.choice((["default", "first", "last", "join", "list", "sum", "abs", "int"] if "neutral" in self.f else
                                 ["default", "length", "first", "last", "join", "list", "string", "sum", "abs", "int", "e"])
                                + (["safe"] if "safe" in self.f else []))
            args = []
            if f == "default":
                args = [sub()] + ([C(True)] if self.rnd.random() < 0.3 else [])
            elif f == "join" and self.rnd.random() < 0.7:
                args = [sub()]
            return J.Filter(sub(), f, args)
        if r < 0.86 and self.macros:
            m, np_ = self.rnd.choice(self.macros)
            nargs = self.rnd.choice([np_, np_, max(0, np_ - 1), np_ + 1])
            args = [self.atom(inloop) for _ in range(nargs)]
            kw = []
            if self.rnd.random() < 0.2:
                kw = [(self.rnd.choice(["p0", "p1", "zz"]), self.atom(inloop))]
            return J.Call(N(m), args, kw)
        if r < 0.92:
            return J.Getitem(sub(), C(self.rnd.choice([0, 1, -1])))
        if r < 0.96:
            return J.Getattr(sub(), self.rnd.choice(["x", "y"]))
        return J.Neg(sub())

    # -- statements ----------------------------------------------------------------------
    def body(self, depth, inloop=False, inmacro=False, n=None):
        n = n if n is not None else self.rnd.randint(1, 3)
        out = []
        for _ in range(n):
            if self.budget <= 0:
                break
            out.append(self.stmt(depth, inloop, inmacro))
        return out or [J.Text("-")]

    def stmt(self, depth, inloop=False, inmacro=False):
        self.budget -= 1
        rnd = self.rnd
        r = rnd.random()
        if depth <= 0:
            r = r * 0.42
        if "regions" in self.f and depth > 0 and rnd.random() < 0.1:
            # an autoescape block: constant (lexical switch) or decided at run time (volatile); a scope of its own
            return J.Autoescape(rnd.choice([C(True), C(False), N(self.name()), C(True), C(False)]), self.body(depth - 1, inloop, inmacro))
        if r < 0.05 and (self.macros or self.frags):
            # a rendered fragment as an operand of ~ (it must keep its safe flag: C15 / C16)
            if self.macros and (not self.frags or rnd.random() < 0.6):
                m, np_ = rnd.choice(self.macros)
                frag = J.Call(N(m), [self.atom(inloop) for _ in range(np_)])
            else:
                frag = N(rnd.choice(self.frags))
            other = rnd.choice([N(self.name()), C(META), C("s")])
            return J.Out(J.Concat(*([frag, other] if rnd.random() < 0.5 else [other, frag])))
        if r < 0.09 and "recursive" in self.f:
            v = rnd.choice(["t", "u"])
            return J.For(J.TName(v), N("tr"), [J.Out(J.Getattr(N(v), "n")), J.Text("("), J.Out(J.Call(N("loop"), [J.Getattr(N(v), "k")])),
                                                  J.Text(")")] + ([J.Out(J.Getattr(N("loop"), "depth"))] if rnd.random() < 0.4 else []),
                         recursive=True)
        if r < 0.12 and "stateful" in self.f:
            k = rnd.random()
            if k < 0.4 and inloop:
                return J.Out(J.Call(J.Getattr(N("loop"), "changed"), [self.atom(True) for _ in range(rnd.choice([1, 1, 2]))]))
            if k < 0.52:
                # dict methods (items/keys/values/get) and the do statement
                dd = J.Dict([(C("a"), self.atom(inloop)), (C("b<"), self.atom(inloop)), (self.atom(inloop), C(1))][: rnd.choice([2, 3])])
                v1, v2 = rnd.sample(self.names, 2)
                which = rnd.random()
                if which < 0.4:
                    loop = J.For(J.TTuple([J.TName(v1), J.TName(v2)]), J.Call(J.Getattr(N("dd"), "items")),
                                 [J.Out(N(v1)), J.Text("="), J.Out(N(v2)), J.Text(";")])
                elif which < 0.6:
                    loop = J.Out(J.Filter(J.Call(J.Getattr(N("dd"), rnd.choice(["keys", "values"]))), rnd.choice(["list", "first", "length"])))
                elif which < 0.8:
                    loop = J.Out(J.Call(J.Getattr(N("dd"), "get"), [rnd.choice([C("a"), C("zz"), self.atom(inloop)])] +
                                        ([self.atom(inloop)] if rnd.random() < 0.5 else [])))
                else:
                    loop = J.If([C(True)], [[J.Set("cy", J.Call(N("cycler"), [C("p"), C("q<")])),
                                             J.Do(J.Call(J.Getattr(N("cy"), "next"))), J.Out(J.Getattr(N("cy"), "current"))]])
                return J.If([C(True)], [[J.Set("dd", dd), loop]])
            if k < 0.75:
                return J.If([C(True)], [[J.Set("cy", J.Call(N("cycler"), [C(1), C("o<"), N(self.name())][: rnd.choice([2, 3])])),
                                         J.For(J.TName(self.name()), J.List([C(1), C(2), C(3)]),
                                               [J.Out(J.Getattr(N("cy"), "current")), J.Out(J.Call(J.Getattr(N("cy"), "next"))), J.Text(",")]),
                                         J.Out(J.Call(J.Getattr(N("cy"), "reset"))), J.Out(J.Getattr(N("cy"), "current"))]])
            return J.If([C(True)], [[J.Set("jn", J.Call(N("joiner"), [C(rnd.choice(["|", "<", ", "]))] if rnd.random() < 0.8 else [])),
                                     J.For(J.TName(self.name()), rnd.choice([N(self.name()), J.List([C(1), C(2)])]),
                                           [J.Out(J.Call(N("jn"))), J.Out(self.atom(True))])]])
        if r < 0.22:
            return J.Out(self.expr(2, inloop))
        if r < 0.27:
            return J.Text(rnd.choice(["x", ".", "T"]))
        if r < 0.42:
            if rnd.random() < 0.2:
                # several names at once (inside loops and blocks they are locals like any other, never exported;
                # tp / tq are names nothing else assigns)
                a, b = rnd.sample(self.names, 2) if not (inloop and rnd.random() < 0.6) else ("tp", "tq")
                return J.Set(J.TTuple([J.TName(a), J.TName(b)]), J.List([self.expr(1, inloop), self.expr(1, inloop)], tup=True))
            return J.Set(self.name(), self.expr(2, inloop))
        if r < 0.54:
            ntest = rnd.choice([1, 1, 2])
            return J.If([self.expr(1, inloop) for _ in range(ntest)], [self.body(depth - 1, inloop, inmacro) for _ in range(ntest)],
                        self.body(depth - 1, inloop, inmacro) if rnd.random() < 0.5 else None)
        if r < 0.68:
            tgt = J.TName(self.name())
            it = rnd.choice([N(self.name()), J.List([C(1), C(2)]), J.Call(N("range"), [C(rnd.choice([0, 2, 3]))]),
                             J.List([C(1), C(2), C(3)]), N(self.name())])
            flt = self.expr(1, False) if rnd.random() < 0.25 else None
            if flt is not None and rnd.random() < 0.7:
                flt = J.Cmp(N(tgt["n"]), (rnd.choice(["gt", "ne", "lt"]), C(rnd.choice([1, 2]))))
            body = self.body(depth - 1, True, inmacro)
            if "loopcontrols" in self.f and rnd.random() < 0.25:
                body.insert(rnd.randint(0, len(body)), J.If([self.expr(1, True)], [[rnd.choice([J.BREAK, J.CONTINUE])]]))
            return J.For(tgt, it, body, self.body(depth - 1, inloop, inmacro) if rnd.random() < 0.35 else None, flt)
        if r < 0.75:
            k = rnd.choice([1, 1, 2])
            nm = rnd.sample(self.names, k)
            return J.With([(x, self.expr(1, inloop)) for x in nm], self.body(depth - 1, inloop, inmacro))
        if r < 0.84:
            self.nmac += 1
            name = f"m{self.nmac}"
            np_ = rnd.choice([0, 1, 2])
            params = ["p0", "p1"][:np_]
            nd = rnd.randint(0, np_)
            saved = self.names
            self.names = self.names + params
            defaults = []
            for i in range(nd):
                own = params[np_ - nd + i]
                defaults.append(rnd.choice([C(7), N(self.name()), N("p0") if (np_ - nd + i) >= 1 else C(8), N(own)]))
            body = self.body(depth - 1, False, True)
            if rnd.random() < 0.5:
                # make the rendered fragment carry text that needs escaping
                body.append(J.Out(rnd.choice([C(META), N(self.name()), N("p0") if np_ else C(META)])))
            if rnd.random() < 0.25:
                body.append(J.Out(N(rnd.choice(["varargs", "kwargs"]))) if False else J.Out(J.Filter(N("varargs"), "length")))
            self.names = saved
            m = J.Macro(name, params, defaults, body)
            self.macros.append((name, np_))
            return m
        if r < 0.89:
            tgt = self.name()
            if tgt not in self.frags:
                self.frags.append(tgt)
            return J.SetBlock(tgt, self.body(depth - 1, inloop, inmacro) + ([J.Out(C(META))] if rnd.random() < 0.4 else []),
                              None if "neutral" in self.f else rnd.choice([None, None, "string", "e"]))
        if r < 0.93:
            return J.FilterBlock("default" if "neutral" in self.f else rnd.choice(["string", "e", "default"]),
                                 self.body(depth - 1, inloop, inmacro))
        if r < 0.97 and self.macros:
            m, np_ = rnd.choice(self.macros)
            cp = rnd.choice([[], ["v"]])
            saved = self.names
            self.names = self.names + cp
            body = self.body(depth - 1, inloop, inmacro)
            self.names = saved
            return J.CallBlock(N(m), [self.atom(inloop) for _ in range(np_)], [], body, params=cp)
        # namespace counter idiom
        ns = "ns"
        return J.If([C(True)], [[J.Set(ns, J.Call(N("namespace"), [], [("c", C(0))])),
                                 J.For(J.TName(self.name()), J.List([C(1), C(2)]),
                                       [J.Set(J.TNs(ns, "c"), J.Bin("+", J.Getattr(N(ns), "c"), C(1)))] + self.body(depth - 1, True, inmacro, 1)),
                                 J.Out(J.Getattr(N(ns), "c"))]])

    def program(self, size=8, depth=3):
        self.budget = size
        self.macros = []
        self.frags = []
        body = []
        while self.budget > 0:
            body.append(self.stmt(depth))
        # macros that exist but were never called: call one at the end so closures are exercised
        if self.macros and self.rnd.random() < 0.8:
            m, np_ = self.rnd.choice(self.macros)
            body.append(J.Out(J.Call(N(m), [self.atom() for _ in range(np_)])))
        return body


def random_cases(seed, n, start_id=1, auto_mode="mixed", undefined="default", features=("loopcontrols",), ndata=5, size=8,
                 neutral=False):
    rnd = random.Random(seed)
    cases = []
    for i in range(n):
        auto = {"mixed": rnd.random() < 0.5, "on": True, "off": False}[auto_mode]
        g = StmtGen(rnd, features=set(features), auto=auto)
        body = g.program(size=rnd.randint(3, size))
        tpls = {"main": J.template(body, auto)}
        cases.append(J.make_case(start_id + i, tpls, "main", datas_for(rnd, ["a", "b", "c"], ndata), undefined=undefined,
                                 neutral=neutral))
    return cases


# ---------------------------------------------------------------------------
# exhaustive small statement trees (two variable names)
# ---------------------------------------------------------------------------

def small_programs(max_nodes):
    """All statement sequences with at most max_nodes statement nodes over a compact grammar."""
    a, b = "a", "b"
    leaves = [J.Out(N(a)), J.Out(N(b)), J.Set(a, C(1)), J.Set(b, N(a)), J.Set(a, J.Bin("+", N(a), C(1)))]

    def bodies(n):
        # sequences of statements with exactly n nodes in total
        if n == 0:
            yield []
            return
        for k in range(1, n + 1):
            for first in stmts(k):
                for rest in bodies(n - k):
                    yield [first] + rest

    def stmts(n):
        if n == 1:
            yield from leaves
            return
        for body in bodies(n - 1):
            yield J.If([N(b)], [body])
            yield J.For(J.TName(a), J.List([C(1), C(2)]), body)
            yield J.With([(a, C(3))], body)
            yield J.SetBlock(b, body)
            if n >= 3:
                yield J.If([C(True)], [[J.Macro("m", [b], [N(a)], body), J.Out(J.Call(N("m")))]])
        if n >= 3:
            for k in range(1, n - 1):
                for b1 in bodies(k):
                    for b2 in bodies(n - 1 - k):
                        yield J.If([N(a)], [b1], b2)
                        yield J.For(J.TName(b), N(a), b1, b2)

    for n in range(1, max_nodes + 1):
        yield from bodies(n)


SMALL_DATA = [{}, {"a": J.vint(0)}, {"a": J.vint(5), "b": J.vint(0)}, {"a": J.vlist([J.vint(1), J.vint(2)]), "b": J.vint(7)},
              {"b": J.vlist([J.vint(4)])}, {"a": J.vlist([]), "b": J.vint(1)}]


def small_cases(max_nodes, start_id=1, limit=None, rnd=None):
    progs = list(small_programs(max_nodes))
    if limit and len(progs) > limit:
        progs = rnd.sample(progs, limit)
    return [J.make_case(start_id + i, {"main": J.template(p, False)}, "main", SMALL_DATA) for i, p in enumerate(progs)]


NAME_SCHEMES = {
    "ascii": {},
    "unicode": {"a": "été", "b": "naïve", "c": "λ", "p0": "ü0", "p1": "ü1", "v": "в", "ns": "ñs",
                "m1": "μ1", "m2": "μ2", "m3": "μ3", "m4": "μ4", "m": "μ"},
    "keywords": {"a": "class", "b": "def", "c": "lambda", "p0": "yield", "p1": "async", "v": "await", "ns": "global",
                 "m1": "return", "m2": "raise", "m3": "try", "m4": "del", "m": "pass"},
    "underscore": {"a": "_a", "b": "__b", "c": "_c_", "p0": "_p0", "p1": "_", "v": "_v", "ns": "_ns"},
    "internals": {"a": "t_1", "b": "l_1_a", "c": "context", "p0": "missing", "p1": "resolve", "v": "environment", "ns": "undefined",
                  "m1": "concat", "m2": "str_join", "m3": "l_0_b", "m4": "t_2", "m": "macro"},
    "nfkc": {"a": "ﬁ", "b": "fi", "c": "ſ", "p0": "s", "p1": "Ⅰ", "v": "ⅱ"},
}


# ---------------------------------------------------------------------------
# inheritance hierarchies (C04)
# ---------------------------------------------------------------------------

BLOCKS = ["a", "b", "c", "d"]
_NEUTRAL = [False]     # set by neutral_corpus: only escaping-neutral filters


def _block_body(rnd, lvl, name, others, depth, in_root, used, allow_nested=True):
    body = [J.Text(f"{name}{lvl}")]
    for _ in range(rnd.randint(0, 3)):
        r = rnd.random()
        if r < 0.3:
            body.append(J.Text("(")); body.append(J.Out(J.Call(N("super")))); body.append(J.Text(")"))
        elif r < 0.4:
            body.append(J.Text("<")); body.append(J.Out(J.Call(J.Getattr(N("super"), "super")))); body.append(J.Text(">"))
        elif r < 0.55 and others:
            body.append(J.Out(J.Call(J.Getattr(N("self"), rnd.choice(others)))))
        elif r < 0.7:
            body.append(J.Out(N(rnd.choice(["x", "y", "i"]))))
        elif r < 0.8:
            body.append(J.Set(rnd.choice(["x", "y"]), C(lvl * 10 + rnd.randint(1, 3))))
        elif r < 0.92 and allow_nested and depth > 0:
            free = [b for b in BLOCKS if b not in used]
            if free:
                nb = rnd.choice(free)
                used.add(nb)
                body.append(J.Block(nb, _block_body(rnd, lvl, nb, others, depth - 1, in_root, used)))
        else:
            body.append(J.Out(J.Filter(N("s"), "default" if _NEUTRAL[0] else rnd.choice(["e", "string", "default"]))))
    return body


def _child_toplevel_extras(rnd):
    """Statements that write output, placed outside of blocks in a child template: none of it may be rendered
    (and `{{ 1 // 0 }}` is not even evaluated)."""
    out = []
    for _ in range(rnd.randint(0, 3)):
        k = rnd.random()
        if k < 0.3:
            out.append(J.Include(C("inc"), with_context=rnd.random() < 0.6))
        elif k < 0.5:
            out.append(J.FilterBlock(rnd.choice(["string", "default"]), [J.Text("FB"), J.Out(N("s"))]))
        elif k < 0.7:
            out += [J.Macro("mm", [], [], [J.Text("M"), J.Out(J.Call(N("caller")))]), J.CallBlock(N("mm"), [], [], [J.Text("CB")])]
        elif k < 0.8:
            out.append(J.Out(J.Bin("//", C(1), C(0))))
        else:
            out.append(J.SetBlock("sb", [J.Text("S"), J.Include(C("inc"))]))
    return out


def inherit_case(rnd, cid, auto=None, rich=False):
    depth = rnd.randint(1, 4)
    names = [f"t{i}" for i in range(depth)]
    tpls = {}
    auto = rnd.random() < 0.5 if auto is None else auto
    known = []          # block names defined so far along the chain
    for lvl, tn in enumerate(names):
        used = set()
        body = []
        is_root = lvl == 0
        if not is_root:
            parent = names[lvl - 1]
            r = rnd.random()
            if r < 0.7:
                body.append(J.Extends(C(parent)))
            elif r < 0.8:
                body.append(J.Extends(N("parent_" + str(lvl))))          # dynamic extends
            elif r < 0.9:
                body.append(J.If([N("c")], [[J.Extends(C(parent))]]))    # conditional extends
            else:
                body.append(J.Extends(C(parent))); body.append(J.Extends(C(parent)))  # extended twice
            if rnd.random() < 0.5:
                body.append(J.Text("OUTSIDE"))
            if rnd.random() < 0.5:
                body.append(J.Set(rnd.choice(["x", "y"]), C(lvl)))
            if rich:
                body += _child_toplevel_extras(rnd)
        else:
            body.append(J.Text("R["))
            if rnd.random() < 0.4:
                body.append(J.Set("x", C(0)))
        nblocks = rnd.randint(1, 3)
        cand = BLOCKS[:] if is_root else (known + [b for b in BLOCKS if b not in known][:1])
        rnd.shuffle(cand)
        for bn in cand[:nblocks]:
            if bn in used:
                continue
            used.add(bn)
            others = [b for b in set(known) | used if b != bn]
            req = is_root and rnd.random() < 0.12
            if req:
                blk = J.Block(bn, [], required=True)
            else:
                blk = J.Block(bn, _block_body(rnd, lvl, bn, others, 1, is_root, used), scoped=False)
            if rich and not req and rnd.random() < 0.4:
                blk["body"].append(rnd.choice([J.Out(N("s")), J.Include(C("inc")), J.FilterBlock("string", [J.Out(N("s"))])]))
            if is_root and rnd.random() < 0.25:
                scoped = rnd.random() < 0.6
                blk = dict(blk, scoped=scoped)
                loop = J.For(J.TName("i"), J.List([C(1), C(2)]), [blk, J.Text(",")])
                # inside a buffered frame (filter block) the block is called through the buffer, not `yield from`
                body.append(J.FilterBlock("string", [loop]) if rich and rnd.random() < 0.4 else loop)
            elif rich and rnd.random() < 0.45:
                # a block nested in a statement: inside an autoescape block it takes that block's mode; at the
                # top level of a child template it is a definition only, whatever it is nested in
                k = rnd.random()
                if rnd.random() < 0.5:
                    # a scoped block is rendered with a derived context, which shares the run-time autoescape mode
                    blk = dict(blk, scoped=True)
                if k < 0.5:
                    body.append(J.Autoescape(rnd.choice([C(True), C(False), N("c"), N("c")]), [blk] + ([J.Out(N("s"))] if rnd.random() < 0.5 else [])))
                elif k < 0.75:
                    body.append(J.With([("w", C(1))], [blk, J.Text("W")]))
                else:
                    body.append(J.For(J.TName("i"), J.List([C(1)]), [blk, J.Text("F")]))
            else:
                body.append(blk)
            if is_root:
                body.append(J.Text("|"))
        if is_root:
            body.append(J.Text("]"))
        elif rnd.random() < 0.3:
            body.append(J.Text("TAIL"))
        for bn in used:
            if bn not in known:
                known.append(bn)
        tpls[tn] = J.template(body, auto)
    if rich:
        tpls["inc"] = J.template([J.Text("INC"), J.Out(N("s"))], auto)
    datas = []
    for _ in range(3):
        d = {"s": rnd.choice([J.vstr(META), J.vstr("pl")]), "c": J.vbool(rnd.random() < 0.7)}
        if rnd.random() < 0.5:
            d["x"] = J.vint(7)
        for lvl in range(1, depth):
            d["parent_" + str(lvl)] = J.vtplobj(names[lvl - 1]) if (rich and rnd.random() < 0.5) else J.vstr(names[lvl - 1])
        datas.append(d)
    return J.make_case(cid, tpls, names[-1], datas)


def inherit_cases(seed, n, start_id=1, auto=None, rich=False):
    rnd = random.Random(seed)
    return [inherit_case(rnd, start_id + i, auto, rich) for i in range(n)]


# ---------------------------------------------------------------------------
# include / import (C05)
# ---------------------------------------------------------------------------

def _target_template(rnd, name, others, depth=0):
    """A template meant to be included / imported: macros, assignments (public and private),
    reads of outer variables, maybe a nested import."""
    body = [J.Text(f"[{name}:")]
    vars_ = ["x", "i", "g", "loc", "w", "tg"]
    for _ in range(rnd.randint(1, 4)):
        r = rnd.random()
        if r < 0.3:
            body.append(J.Out(N(rnd.choice(vars_))))
        elif r < 0.45:
            nm = rnd.choice(["v", "_p", "x", "w2"])
            body.append(J.Set(nm, rnd.choice([C(rnd.randint(1, 3)), N(rnd.choice(vars_))])))
        elif r < 0.64:
            nm = rnd.choice(["m", "_hid", "m2"])
            mb = [J.Text(f"<{nm}>"), J.Out(N(rnd.choice(vars_ + ["p0"])))]
            if rnd.random() < 0.3:
                mb.append(J.Out(N("v")))
            body.append(J.Macro(nm, ["p0"] if rnd.random() < 0.5 else [], [C(9)] if rnd.random() < 0.3 else [], mb)
                        if True else None)
            if body[-1]["defaults"] and not body[-1]["params"]:
                body[-1]["defaults"] = []
        elif r < 0.74 and others and depth < 2:
            o = rnd.choice(others)
            if rnd.random() < 0.5:
                body.append(J.Import(C(o), "sub", with_context=rnd.random() < 0.4))
                body.append(J.Out(J.Getattr(N("sub"), rnd.choice(["v", "m", "_p"]))))
            else:
                body.append(J.Include(C(o), with_context=rnd.random() < 0.6))
        elif r < 0.86 and others and depth < 2:
            # a top-level import binds a name the template has exported before (no longer exported), or imports a name
            # under an alias while the template exports its own variable of the original name (still exported)
            o = rnd.choice(others)
            k = rnd.random()
            if k < 0.4:
                body.append(J.Set("v", C(rnd.randint(4, 6))))
                body.append(J.FromImport(C(o), [(rnd.choice(["m", "v", "w2"]), "v")], with_context=rnd.random() < 0.3))
            elif k < 0.8:
                nm = rnd.choice(["v", "w2", "m"])
                body.append(J.Set(nm, C(rnd.randint(4, 6))))
                body.append(J.FromImport(C(o), [(nm, "al_" + nm)] + ([("m2", "w2")] if rnd.random() < 0.3 else []), with_context=rnd.random() < 0.3))
            else:
                body.append(J.Set("sub", C(7)))
                body.append(J.Import(C(o), "sub", with_context=rnd.random() < 0.3))
            body.append(J.Out(N(rnd.choice(["v", "w2", "al_v"]))))
        elif r < 0.9:
            body.append(J.Out(J.Test(N(rnd.choice(vars_)), "defined")))
        elif r < 0.94:
            # a missing template inside an existing target: never excused by the outer `ignore missing`
            body.append(J.Include(C("nope_inner"), with_context=rnd.random() < 0.5, ignore_missing=rnd.random() < 0.3))
        else:
            body.append(J.Text("t"))
    body.append(J.Text("]"))
    return body


def _use_site(rnd, tnames, tplobjs=False):
    """One include/import statement (plus uses of what it binds)."""
    t = rnd.choice(tnames)
    r = rnd.random()
    if tplobjs and rnd.random() < 0.3:
        # a loaded Template object passed in as data: used as it is, also inside a list of candidates
        e = rnd.choice([N("tobj"), J.List([C("nope"), N("tobj")]), J.List([N("tobj"), C(t)]), J.Cond(N("c"), N("tobj"), C(t))])
        k = rnd.random()
        if k < 0.5:
            return [J.Include(e, with_context=rnd.random() < 0.6, ignore_missing=rnd.random() < 0.3)]
        if k < 0.8:
            return [J.Import(N("tobj"), "mod", with_context=rnd.random() < 0.4), J.Out(J.Getattr(N("mod"), rnd.choice(["v", "x", "zz"]))),
                    J.Out(J.Call(J.Getattr(N("mod"), rnd.choice(["m", "m2"]))))]
        return [J.FromImport(N("tobj"), [("m", "m"), ("v", "al_v")], with_context=rnd.random() < 0.4), J.Out(N("al_v")), J.Out(J.Call(N("m")))]
    if r < 0.35:
        e = rnd.choice([C(t), C(t), J.List([C("nope"), C(t)]), N("tplname"), J.List([C("nope1"), C("nope2")]),
                        C("nope"), J.Cond(N("c"), C(t), N("tplname")), J.Cond(N("c"), N("tplname"), C(t))])
        return [J.Include(e, with_context=rnd.random() < 0.6, ignore_missing=rnd.random() < 0.4)]
    if r < 0.7:
        alias = rnd.choice(["mod", "mod", "_m"])
        st = [J.Import(rnd.choice([C(t), C(t), N("tplname"), C("nope")]), alias, with_context=rnd.random() < 0.4)]
        for _ in range(rnd.randint(1, 3)):
            a = rnd.choice(["m", "m2", "v", "_p", "_hid", "x", "sub", "zz", "v", "w2", "al_v"])
            if a in ("m", "m2", "_hid") and rnd.random() < 0.8:
                st.append(J.Out(J.Call(J.Getattr(N(alias), a), [C(4)] if rnd.random() < 0.4 else [])))
            else:
                st.append(J.Out(J.Getattr(N(alias), a)))
        if rnd.random() < 0.2:
            st.append(J.Out(N(alias)))
        return st
    names = rnd.sample(["m", "m2", "v", "w2", "x", "zz"], rnd.randint(1, 2))
    pairs = [(n, rnd.choice([n, "al_" + n.strip("_")])) for n in names]
    st = [J.FromImport(rnd.choice([C(t), C(t), N("tplname")]), pairs, with_context=rnd.random() < 0.4)]
    for n, a in pairs:
        if n in ("m", "m2") and rnd.random() < 0.8:
            st.append(J.Out(J.Call(N(a), [C(5)] if rnd.random() < 0.4 else [])))
        else:
            st.append(J.Out(N(a)))
    return st


def module_case(rnd, cid, auto=None, tplobjs=False):
    auto = rnd.random() < 0.4 if auto is None else auto
    tnames = ["inc", "lib", "aux"][: rnd.randint(1, 3)]
    tpls = {}
    for i, tn in enumerate(tnames):
        tpls[tn] = J.template(_target_template(rnd, tn, tnames[i + 1:], 0), auto)
    body = [J.Text("M:")]
    if rnd.random() < 0.35:
        body.append(J.Set("loc", C(1)))
    for _ in range(rnd.randint(1, 3)):
        site = _use_site(rnd, tnames, tplobjs)
        r = rnd.random()
        if r < 0.3:
            body.append(J.For(J.TName("i"), J.List([C(1), C(2)]), site + [J.Text(";")]))
        elif r < 0.45:
            body.append(J.With([("w", C(8))], site))
        elif r < 0.6:
            body.append(J.Macro("outer", ["loc"], [], site))
            body.append(J.Out(J.Call(N("outer"), [C(6)])))
        elif r < 0.7:
            # every statement container: if body, elif branch, else branch, for-else
            k = rnd.random()
            if k < 0.35: body.append(J.If([N("c")], [site]))
            elif k < 0.6: body.append(J.If([N("c"), J.Not(N("c"))], [[J.Text("-")], site]))
            elif k < 0.8: body.append(J.If([N("c")], [[J.Text("-")]], site))
            else: body.append(J.For(J.TName("i"), J.List([]), [J.Text("-")], site))
        else:
            body.extend(site)
    if rnd.random() < 0.3:
        body.append(J.Out(N(rnd.choice(["v", "x", "m", "mod"]))))
    if rnd.random() < 0.45:
        # look the scope-local names up again through the context after their scopes have ended
        tpls["show"] = J.template([J.Text("{show:"), J.Out(N("i")), J.Text("|"), J.Out(N("w")), J.Text("|"), J.Out(N("loc")),
                                   J.Text("|"), J.Out(J.Test(N("i"), "defined")), J.Text("}")], auto)
        body.append(rnd.choice([J.Include(C("show")), J.Include(C("show")),
                                J.Import(C("show"), "shw", with_context=True)]))
        if body[-1]["k"] == "import":
            body.append(J.Out(N("shw")))
    tpls["main"] = J.template(body, auto)
    datas = []
    for _ in range(3):
        d = {"c": J.vbool(rnd.random() < 0.7), "tplname": J.vstr(rnd.choice(tnames + ["nope"]))}
        if tplobjs:
            d["tobj"] = J.vtplobj(rnd.choice(tnames))
        if rnd.random() < 0.7:
            d["x"] = rnd.choice([J.vint(7), J.vstr(META)])
        datas.append(d)
    tg = {"tg": J.vstr("TG<")} if rnd.random() < 0.35 else None
    if tg:
        # a macro of an imported template reads the importer's template-level global
        t0 = tnames[0]
        b0 = list(tpls[t0]["body"]) + [J.Macro("mt", [], [], [J.Text("<mt:"), J.Out(N("tg")), J.Out(N("g")), J.Text(">")])]
        tpls[t0] = J.template(b0, auto)
        body = list(tpls["main"]["body"])
        if rnd.random() < 0.5:
            body += [J.Import(C(t0), "mtg", with_context=False), J.Out(J.Call(J.Getattr(N("mtg"), "mt")))]
        else:
            body += [J.FromImport(C(t0), [("mt", "mt")], with_context=False), J.Out(J.Call(N("mt")))]
        tpls["main"] = J.template(body, auto)
    return J.make_case(cid, tpls, "main", datas, globals_={"g": J.vstr("G&")}, tglobals=tg)


def module_cases(seed, n, start_id=1, auto=None, tplobjs=False):
    rnd = random.Random(seed)
    return [module_case(rnd, start_id + i, auto, tplobjs) for i in range(n)]


# ---------------------------------------------------------------------------
# expressions (C02): type-directed random trees over a fixed data vocabulary
# ---------------------------------------------------------------------------

EXPR_OBJS = {"o1": {"attrs": {"a": J.vint(1), "fx": J.vfn("fx", "nargs")},
                    "items": {"a": J.vint(2), "b": J.vint(3)}},
             "o2": {"attrs": {"a": J.vstr("A<")}, "items": {"c": J.vlist([J.vint(9)])}}}


def expr_datas():
    base = {"i1": J.vint(3), "i2": J.vint(-2), "z": J.vint(0), "s1": J.vstr("<a&b>"), "s2": J.vstr("x"),
            "m1": J.vstr("<b>", "data", True), "l1": J.vlist([J.vint(1), J.vint(2), J.vint(3)]), "l2": J.vlist([]),
            "l3": J.vlist([J.vstr("p<"), J.vint(4)]), "d1": J.vdict([(J.vstr("a"), J.vint(1)), (J.vstr("b"), J.vlist([J.vint(5)]))]),
            "o1": J.vobj("o1"), "f1": J.vfn("f1", "nargs"), "f2": J.vfn("f2", "arg0", J.vint(7)),
            "f3": J.vfn("f3", "const", J.vstr("r&")), "n0": J.VNONE, "t1": J.vbool(True), "e2": J.vint(2),
            "fl1": J.vfloat(2.5), "fl2": J.vfloat(-0.75),
            "dk": J.vdict([(J.vstr("items"), J.vint(7)), (J.vstr("get"), J.vstr("G<")), (J.vstr("a"), J.VNONE)])}
    d2 = dict(base, i1=J.vint(0), i2=J.vint(5), s1=J.vstr(""), l1=J.vlist([J.vint(2)]), o1=J.vobj("o2"), t1=J.vbool(False),
              fl1=J.vfloat(0.5), fl2=J.vfloat(4.0),
              d1=J.vdict([(J.vstr("c"), J.vint(0))]), m1=J.vstr("", "data", True))
    d3 = {k: v for k, v in base.items() if k not in ("i2", "s2", "l3", "d1", "f2", "fl2")}
    d3["l1"] = J.vlist([J.vint(4), J.vint(0)], tup=True)
    return [base, d2, d3]


class ExprGen:
    def __init__(self, rnd, rich=False):
        self.rnd = rnd
        self.rich = rich        # markup-rich mode: mostly string expressions with safe / escaped parts

    def pick(self, *xs):
        return self.rnd.choice(xs)

    def gint(self, d):
        r = self.rnd.random()
        if d <= 0 or r < 0.25:
            return self.pick(C(0), C(1), C(2), C(3), N("i1"), N("i2"), N("z"), N("i1"))
        if r < 0.5:
            op = self.pick("+", "-", "*", "//", "%", "+", "-", "*", "**")
            if op == "**":
                return J.Bin(op, self.gint(d - 1), self.pick(C(0), C(1), C(2), C(3), N("e2"), N("e2"), N("z")))
            return J.Bin(op, self.gint(d - 1), self.gint(d - 1))
        if r < 0.56: return J.Neg(self.gint(d - 1))
        if r < 0.62: return J.Filter(self.glist(d - 1), self.pick("length", "sum", "first", "last", "max", "min"))
        if r < 0.68: return J.Call(N("f1"), [self.gany(d - 1) for _ in range(self.rnd.randint(0, 2))],
                                   [("k", self.gany(d - 1))] if self.rnd.random() < 0.3 else [])
        if r < 0.74: return J.Getitem(self.glist(d - 1), self.pick(C(0), C(1), J.Neg(C(1)), self.gint(0)))
        if r < 0.8: return J.Cond(self.gbool(d - 1), self.gint(d - 1), self.gint(d - 1))
        if r < 0.85: return J.Filter(self.gany(d - 1) if self.rnd.random() < 0.6 else self.gflt(d - 1), "int")
        if r < 0.9: return J.Filter(self.gint(d - 1), "abs")
        if r < 0.95: return self.pick(J.Getattr(N("o1"), "a"), J.Getitem(N("o1"), C("a")), J.Getattr(N("o1"), "b"),
                                      J.Getitem(N("o1"), C("b")), J.Getattr(N("d1"), "a"), J.Getitem(N("d1"), C("a")))
        return J.Pos(self.gint(d - 1))

    def gnum(self, d):
        return self.gflt(d) if self.rnd.random() < 0.5 else self.gint(d)

    def gflt(self, d):
        """Float-valued expressions over exactly representable values (true division, float literals and data,
        negative powers, |float, |round, sum)."""
        r = self.rnd.random()
        if d <= 0 or r < 0.25:
            return self.pick(C(0.5), C(2.5), C(1.5), C(0.25), N("fl1"), N("fl2"), C(2.0), N("fl1"))
        if r < 0.62:
            op = self.pick("+", "-", "*", "/", "//", "%", "**", "/", "*")
            if op == "**":
                return J.Bin(op, self.gnum(d - 1), self.pick(C(2), C(3), N("e2"), C(0), J.Neg(C(1)), J.Neg(C(2)), N("z"), C(2.0)))
            return J.Bin(op, self.gnum(d - 1), self.gnum(d - 1))
        if r < 0.69: return J.Neg(self.gflt(d - 1))
        if r < 0.76: return J.Filter(self.gnum(d - 1), "float")
        if r < 0.86:
            return J.Filter(self.gnum(d - 1), "round", self.pick([], [], [C(0)], [C(0), C("ceil")], [C(0), C("floor")], [C(0), C("common")]))
        if r < 0.91: return J.Filter(self.gflt(d - 1), "abs")
        if r < 0.94: return J.Filter(J.List([self.gnum(d - 1), self.gnum(d - 1)]), "sum")
        if r < 0.98:
            # equal values of different kinds (1, 1.0, true) keep their order when sorted; min / max take the first
            items = [self.pick(C(1), C(1.0), C(True), C(2), C(2.0), C(0.5), N("fl1"), N("i1"), self.gnum(d - 1)) for _ in range(self.rnd.randint(2, 4))]
            return J.Filter(J.List(items, tup=self.rnd.random() < 0.3), self.pick("sort", "min", "max"))
        return J.Cond(self.gbool(d - 1), self.gflt(d - 1), self.gint(d - 1))

    def gbool(self, d):
        r = self.rnd.random()
        if d <= 0 or r < 0.15:
            return self.pick(C(True), C(False), N("t1"))
        if r < 0.4:
            g = self.gnum if self.rnd.random() < 0.3 else self.gint
            ops = [(self.pick("eq", "ne", "lt", "lteq", "gt", "gteq"), g(d - 1))]
            if self.rnd.random() < 0.3:
                ops.append((self.pick("lt", "lteq", "gt", "eq"), g(d - 1)))
            return J.Cmp(g(d - 1), *ops)
        if r < 0.5: return J.Not(self.gany(d - 1))
        if r < 0.65:
            return J.Test(self.gany(d - 1), self.pick("defined", "undefined", "none", "string", "number", "sequence", "mapping",
                                                      "iterable", "boolean", "integer", "callable", "true", "false", "float"),
                          neg=self.rnd.random() < 0.3)
        if r < 0.75: return J.Test(self.gint(d - 1), self.pick("odd", "even"))
        if r < 0.82: return J.Test(self.gint(d - 1), "divisibleby", [self.pick(C(2), C(3), N("z"))])
        if r < 0.92: return J.Cmp(self.gany(d - 1), (self.pick("in", "notin"), self.pick(self.glist(d - 1), N("d1"), N("u1"))))
        return J.Cmp(self.gany(d - 1), (self.pick("eq", "ne"), self.gany(d - 1)))

    def gstr(self, d):
        r = self.rnd.random()
        if self.rich and r < 0.25:
            return self.pick(N("m1"), J.Filter(N("s1"), "safe"), J.Filter(C("<i>"), "safe"), J.Filter(N("s1"), "e"), N("m1"))
        if d <= 0 or r < 0.3:
            return self.pick(C("lit<"), C(""), N("s1"), N("s2"), N("m1"), C("q"))
        if r < 0.5: return J.Concat(*[self.gany(d - 1) for _ in range(self.rnd.randint(2, 3))])
        if r < 0.6: return J.Bin("+", self.gstr(d - 1), self.gstr(d - 1))
        if r < 0.7:
            lst = self.pick(N("l1"), N("l3"), self.glist(d - 1), self.glist(d - 1))
            sep = [self.pick(C("|"), C(", "), self.gstr(d - 1))] if self.rnd.random() < 0.7 else []
            if self.rich and sep and self.rnd.random() < 0.35:
                return J.Filter(lst, "join", [], [("d", sep[0])])          # keyword form
            return J.Filter(lst, "join", sep)
        if r < 0.78: return J.Filter(self.gany(d - 1), "string")
        if r < 0.86: return J.Filter(self.gany(d - 1), self.pick("e", "safe"))
        if r < 0.92:
            subj = self.pick(N("u1"), N("s1"), self.gany(d - 1))
            dv = self.gstr(d - 1)
            bo = self.rnd.random() < 0.4
            if self.rich and self.rnd.random() < 0.35:
                return J.Filter(subj, "default", [], [("default_value", dv)] + ([("boolean", C(True))] if bo else []))   # keyword form
            return J.Filter(subj, "default", [dv] + ([C(True)] if bo else []))
        if r < 0.96: return J.Call(N("f3"))
        return J.Bin("*", self.gstr(d - 1), self.pick(C(0), C(2)))

    def glist(self, d):
        r = self.rnd.random()
        if d <= 0 or r < 0.35:
            return self.pick(N("l1"), N("l2"), N("l3"), J.List([C(1), C(2)]), J.List([]), N("l1"))
        if r < 0.55: return J.List([self.gany(d - 1) for _ in range(self.rnd.randint(0, 3))], tup=self.rnd.random() < 0.2)
        if r < 0.65: return J.Bin("+", self.glist(d - 1), self.glist(d - 1))
        if r < 0.75: return J.Call(N("range"), [self.pick(C(0), C(2), C(3))])
        if r < 0.85: return J.Filter(self.glist(d - 1), self.pick("list", "sort"))
        if r < 0.9: return self.pick(J.Getattr(N("d1"), "b"), J.Getitem(N("d1"), C("b")), J.Getitem(N("o1"), C("c")))
        if r < 0.96:
            b = lambda: self.pick(None, C(0), C(1), C(2), J.Neg(C(1)), N("i1"), N("z"), C(7))
            return J.Slice(self.glist(d - 1), b(), b())
        return J.Bin("*", self.glist(d - 1), self.pick(C(0), C(2)))

    def gany(self, d):
        r = self.rnd.random()
        if self.rich and r < 0.7: return self.gstr(d)
        if r < 0.07: return self.gflt(d)
        if r < 0.25: return self.gint(d)
        if r < 0.4: return self.gbool(d)
        if r < 0.55: return self.gstr(d)
        if r < 0.68: return self.glist(d)
        if r < 0.74: return self.pick(N("u1"), N("u2"), N("n0"), C(None))
        if r < 0.8: return (J.And if self.rnd.random() < 0.5 else J.Or)(self.gany(d - 1), self.gany(d - 1))
        if r < 0.85 and d > 0: return J.Cond(self.gany(d - 1), self.gany(d - 1), self.gany(d - 1) if self.rnd.random() < 0.6 else None)
        if r < 0.9: return self.pick(J.Getattr(N("o1"), "zz"), J.Getattr(N("u1"), "a"), J.Getitem(N("l1"), C(7)), J.Getitem(N("d1"), C("zz")),
                                     J.Getattr(J.Getattr(N("o1"), "zz"), "y"), J.Getitem(N("n0"), C(0)), J.Getattr(N("i1"), "zz"))
        if r < 0.94 and d > 0: return J.Call(N("f2"), [self.gany(d - 1)])
        if r < 0.97: return J.Call(J.Getattr(N("o1"), "fx"), [self.gint(0)])
        # deliberately ill-typed
        return self.pick(J.Bin("+", self.gint(d - 1), self.gstr(d - 1)), J.Bin("-", self.glist(d - 1), self.gint(d - 1)),
                         J.Neg(self.gstr(d - 1)), J.Call(self.gint(d - 1)), J.Cmp(self.gint(d - 1), ("lt", self.gstr(d - 1))),
                         J.Bin("//", self.gint(d - 1), C(0)))


def expr_cases(seed, n, start_id=1, depth=3, auto=None, rich=False, numeric=False, collide=False):
    rnd = random.Random(seed)
    g = ExprGen(rnd, rich)
    cases = []
    datas = expr_datas()
    for i in range(n):
        a = rnd.random() < 0.5 if auto is None else auto
        e = g.gany(rnd.randint(1, depth))
        if collide:
            # dict keys that collide with dict attributes: dot syntax takes the attribute, subscript the key
            dd = rnd.choice([J.Dict([(C("items"), C(1)), (C("a"), C(2))]), J.Dict([(C("get"), C("g<")), (C("keys"), J.List([C(1)]))]),
                             N("dk"), J.Dict([(C("values"), N("i1")), (C("items"), N("s1"))])])
            nm = rnd.choice(["items", "keys", "values", "get", "a"])
            e = rnd.choice([lambda: J.Test(J.Getattr(dd, nm), "callable"), lambda: J.Getitem(dd, C(nm)),
                            lambda: J.Filter(J.Call(J.Getattr(dd, rnd.choice(["items", "keys", "values"]))), "list"),
                            lambda: J.Call(J.Getattr(dd, "get"), [C(nm)]), lambda: J.Test(J.Getitem(dd, C(nm)), "callable"),
                            lambda: J.Cond(J.Test(J.Getattr(dd, nm), "callable"), C("method"), J.Getattr(dd, nm)),
                            lambda: J.Filter(J.Getattr(dd, nm), "default", [C("d")])])()
        elif numeric:
            # float-centred: arithmetic, comparison, printing inside a container, concatenation
            dd = rnd.randint(1, depth)
            e = rnd.choice([lambda: g.gflt(dd), lambda: g.gflt(dd), lambda: J.List([g.gflt(dd - 1), g.gnum(dd - 1)]),
                            lambda: J.Concat(g.gflt(dd - 1), C("|"), g.gnum(dd - 1)),
                            lambda: J.Cmp(g.gnum(dd - 1), (rnd.choice(["eq", "ne", "lt", "lteq", "gt", "gteq"]), g.gnum(dd - 1))),
                            lambda: J.Getitem(J.Dict([(C(1), C("one")), (C(2.5), C("x"))]), g.gnum(dd - 1)),
                            lambda: J.Cmp(g.gnum(dd - 1), ("in", J.List([C(1), C(0.5), g.gnum(dd - 1)])))])()
        elif rnd.random() < 0.06:
            # a filter and a test of the same name in one expression (distinct registries)
            e = J.Concat(J.Filter(g.gany(1), "string"), J.Cond(J.Test(g.gany(1), "string"), g.gstr(1), g.gint(1)))
        c = J.make_case(start_id + i, {"main": J.template([J.Out(e)], a)}, "main", datas, objs=EXPR_OBJS,
                        undefined=rnd.choice(["default", "default", "default", "strict", "chainable"]))
        c["emit_values"] = True
        cases.append(c)
    return cases


# ---------------------------------------------------------------------------
# lazy filters (map / select / reject / selectattr / rejectattr): always written together with a consumer that
# async mode documents for async iterators (list, join, sum, first, a for loop, another lazy filter)
# ---------------------------------------------------------------------------

def lazy_datas():
    row = lambda a, k=None: J.vdict([(J.vstr("a"), a)] + ([(J.vstr("k"), k)] if k is not None else []))
    ds = []
    for d in expr_datas():
        d = dict(d)
        d["rows"] = J.vlist([row(J.vint(1), J.vstr("a<")), row(J.vint(4)), row(J.vint(3), J.vstr(""))])
        d["mixed"] = J.vlist([J.vint(2), J.vstr("s&"), J.VNONE, J.vint(0), J.vint(5), J.vlist([J.vint(1)])])
        d["ag1"] = J.vlist([J.vint(1), J.vint(2), J.vint(3)])
        d["ag2"] = J.vlist([])
        ds.append(d)
    ds[1]["rows"] = J.vlist([J.vobj("o1"), row(J.vstr("x<"), J.vint(2)), J.vobj("o2")])
    ds[1]["mixed"] = J.vlist([], tup=True)
    ds[1]["ag1"] = J.vlist([J.vint(4), J.vint(0), J.vint(7), J.vint(2)])
    ds[2]["rows"] = J.vlist([])
    ds[2]["mixed"] = J.vlist([J.vint(3), J.vint(-1), J.vbool(True), J.vfloat(2.5)])
    ds[2]["ag2"] = J.vlist([J.vint(6)])
    return ds


class LazyGen:
    def __init__(self, rnd, aiter=False):
        self.rnd, self.aiter = rnd, aiter

    def source(self):
        r = self.rnd
        if self.aiter and r.random() < 0.6:
            return N(r.choice(["ag1", "ag2"])), "num"
        return r.choice([(N("l1"), "num"), (N("l1"), "num"), (N("l3"), "any"), (N("mixed"), "any"), (N("mixed"), "any"), (N("rows"), "rows"),
                         (N("rows"), "rows"), (N("l2"), "num"), (N("d1"), "any"), (N("u1"), "any"), (N("z"), "any"), (N("i1"), "any"),
                         (J.List([C(1), C(2), C(5)]), "num"), (J.Call(N("range"), [C(4)]), "num"), (N("n0"), "any"),
                         # iterators of other kinds: reversed(...), the generators of unique / batch
                         (J.Filter(N("l1"), "reverse"), "num"), (J.Filter(N("mixed"), "reverse"), "any"),
                         (J.Filter(J.Call(N("range"), [C(3)]), "reverse"), "num"),
                         (J.Filter(J.List([C(1), C(1.0), C(True), C(2), C(0.5), C(2)]), "unique"), "num"),
                         (J.Filter(N("l1"), "unique"), "num")])

    def test_args(self, kind):
        r = self.rnd
        opts = [[], [C("odd")], [C("even")], [C("string")], [C("number")], [C("defined")], [C("none")], [C("divisibleby"), C(2)],
                [C("gt"), C(1)], [C("eq"), C(2)], [C("in"), J.List([C(1), C(2), C("")])], [C("ne"), N("i1")], [C("sequence")],
                [C(">="), C(2)], [C("divisibleby"), N("z")], [C("lt"), C("q")]]
        if kind == "num":
            opts = [o for o in opts for _ in (0, 1)] + [[C("odd")], [C("gt"), C(2)], [C("divisibleby"), C(3)]]
        return r.choice(opts)

    def step(self, e, kind):
        """One lazy filter applied to e: returns (expression, kind of the items)."""
        r = self.rnd
        k = r.random()
        if kind == "rows":
            if k < 0.45:
                kw = [("attribute", r.choice([C("a"), C("k"), C("a"), C("b"), C(0)]))]
                if r.random() < 0.5:
                    kw.append(("default", r.choice([C("-"), C(0), C(None), N("s1")])))
                return J.Filter(e, "map", [], kw), "any"
            if k < 0.9:
                a = [C(r.choice(["a", "k", "k", "b"]))]
                if r.random() < 0.6:
                    a += self.test_args("any")
                return J.Filter(e, r.choice(["selectattr", "rejectattr"]), a), "rows"
            return J.Filter(e, r.choice(["select", "reject"]), r.choice([[], [C("mapping")], [C("defined")]])), "rows"
        if k < 0.45:
            f = r.choice([[C("string")], [C("int")], [C("abs")], [C("e")], [C("default"), C("D<"), C(True)], [C("length")], [C("float")],
                          [C("string")], [C("int"), C(9)], [C("first")], [C("join"), C("+")], [C("round")], [C("safe")]])
            return J.Filter(e, "map", f), ("num" if f[0]["v"] in ("int", "abs", "length") else "any")
        return J.Filter(e, r.choice(["select", "reject"]), self.test_args(kind)), kind

    def lazy(self):
        e, kind = self.source()
        for _ in range(self.rnd.choice([1, 1, 1, 2, 2, 3])):
            e, kind = self.step(e, kind)
        return e, kind

    def consumed(self):
        r = self.rnd
        e, kind = self.lazy()
        k = r.random()
        if k < 0.35: return J.Filter(e, "list")
        if k < 0.65: return J.Filter(e, "join", r.choice([[], [C("|")], [N("s1")], [N("m1")]]))
        if k < 0.8: return J.Filter(e, "first")
        if k < 0.9: return J.Filter(e, "sum")
        if k < 0.93: return J.Filter(J.Filter(e, "list"), r.choice(["length", "last", "sort", "max"]))
        if k < 0.97:
            return J.Filter(J.Filter(J.Filter(e, "list"), "batch", r.choice([[C(2)], [C(2), C("f<")], [C(1)], [C(3), C(0)]])), r.choice(["list", "first", "list"]))
        return J.Cond(e, C("T"), C("F"))            # an iterator object is true, whatever it would yield

    def loop(self):
        r = self.rnd
        e, kind = self.lazy()
        inner = [J.Out(N("x") if kind != "rows" else J.Getattr(N("x"), "a"))]
        for _ in range(r.choice([0, 1, 2, 2])):
            inner.append(J.Out(J.Getattr(N("loop"), r.choice(["index", "first", "last", "length", "revindex", "revindex0", "nextitem", "previtem"]))))
            inner.append(J.Text("/"))
        if r.random() < 0.25:
            inner.append(J.If([J.Cmp(J.Getattr(N("loop"), "index"), ("eq", C(2)))], [[r.choice([J.BREAK, J.CONTINUE])]]))
        inner.append(J.Text(","))
        flt = J.Test(N("x"), "defined") if r.random() < 0.2 else None
        return J.For(J.TName("x"), e, inner, [J.Text("EMPTY")] if r.random() < 0.5 else None, flt)


def lazy_cases(seed, n, start_id=1, auto=None, aiter=False):
    rnd = random.Random(seed)
    g = LazyGen(rnd, aiter)
    datas = lazy_datas()
    cases = []
    for i in range(n):
        a = rnd.random() < 0.5 if auto is None else auto
        if rnd.random() < 0.65:
            body, ev = [J.Out(g.consumed())], not aiter
        else:
            body, ev = [g.loop()] + ([J.Text(" "), J.Out(g.consumed())] if rnd.random() < 0.3 else []), False
        c = J.make_case(start_id + i, {"main": J.template(body, a)}, "main", datas, objs=EXPR_OBJS,
                        undefined=rnd.choice(["default", "default", "strict", "chainable"]))
        if ev:
            c["emit_values"] = True
        cases.append(c)
    return cases


# ---------------------------------------------------------------------------
# shared corpus: "every program generated for C02-C07" (used by C08-C10, C16, C29, C31, C32, C38)
# ---------------------------------------------------------------------------

def corpus(seed, n_stmt, n_inh, n_mod, n_expr, auto="mixed", start_id=1):
    cases = []
    a = {"mixed": None, "on": True, "off": False}[auto]
    cases += random_cases(seed * 31 + 1, n_stmt, start_id=start_id, auto_mode=auto, size=8)
    cases += inherit_cases(seed * 31 + 2, n_inh, start_id=start_id + len(cases), auto=a)
    cases += module_cases(seed * 31 + 3, n_mod, start_id=start_id + len(cases), auto=a)
    cases += expr_cases(seed * 31 + 4, n_expr, start_id=start_id + len(cases), depth=3, auto=a)
    for c in cases:
        c.pop("emit_values", None)
    return cases


# ---------------------------------------------------------------------------
# async iterables (C09): names ag1/ag2 are only used where async mode accepts async iterables
# ---------------------------------------------------------------------------

def aiter_case(rnd, cid):
    def it():
        return N(rnd.choice(["ag1", "ag2"]))
    body = []
    for _ in range(rnd.randint(1, 3)):
        r = rnd.random()
        if r < 0.45:
            inner = [J.Out(N("x"))]
            for _ in range(rnd.choice([0, 1, 2, 2, 3])):
                inner.append(J.Out(J.Getattr(N("loop"), rnd.choice(["index", "first", "last", "length", "revindex", "revindex0",
                                                                     "nextitem", "previtem"]))))
                inner.append(J.Text("/"))
            if rnd.random() < 0.3:
                inner.append(J.If([J.Cmp(N("x"), ("eq", C(2)))], [[rnd.choice([J.BREAK, J.CONTINUE])]]))
            inner.append(J.Text(","))
            flt = J.Cmp(N("x"), (rnd.choice(["gt", "ne"]), C(rnd.choice([1, 2])))) if rnd.random() < 0.4 else None
            body.append(J.For(J.TName("x"), it(), inner, [J.Text("EMPTY")] if rnd.random() < 0.5 else None, flt))
        elif r < 0.6:
            body.append(J.Out(J.Filter(it(), "join", [C("|")])))
        elif r < 0.7:
            body.append(J.Out(J.Filter(it(), "list")))
        elif r < 0.8:
            body.append(J.Out(J.Filter(it(), rnd.choice(["first", "sum"]))))
        elif r < 0.9:
            body.append(J.Set("acc", J.Filter(it(), "list")))
            body.append(J.Out(J.Filter(N("acc"), "length")))
        else:
            body.append(J.For(J.TTuple([J.TName("x"), J.TName("y")]), N("agp"), [J.Out(N("x")), J.Text(":"), J.Out(N("y")), J.Text(";")]))
        body.append(J.Text(" "))
    datas = [{"ag1": J.vlist([J.vint(1), J.vint(2), J.vint(3)]), "ag2": J.vlist([]),
              "agp": J.vlist([J.vlist([J.vint(1), J.vint(2)], True), J.vlist([J.vint(3), J.vint(4)], True)])},
             {"ag1": J.vlist([J.vint(2)]), "ag2": J.vlist([J.vint(5), J.vint(2), J.vint(2), J.vint(0)]), "agp": J.vlist([])}]
    return J.make_case(cid, {"main": J.template(body, False)}, "main", datas)


def aiter_cases(seed, n, start_id=1):
    rnd = random.Random(seed)
    return [aiter_case(rnd, start_id + i) for i in range(n)]


def neutral_corpus(seed, n_stmt, n_inh, n_mod, auto, start_id=1):
    """Escaping-neutral programs (no safe / escape / string / length on rendered fragments); the
    same seed with auto=True and auto=False yields the same programs."""
    _NEUTRAL[0] = True
    try:
        cases = random_cases(seed * 31 + 1, n_stmt, start_id=start_id, auto_mode="on" if auto else "off", size=8,
                             features=("loopcontrols", "neutral", "recursive"), neutral=True)
        cases += inherit_cases(seed * 31 + 2, n_inh, start_id=start_id + len(cases), auto=auto)
        cases += module_cases(seed * 31 + 3, n_mod, start_id=start_id + len(cases), auto=auto)
    finally:
        _NEUTRAL[0] = False
    for c in cases:
        c["neutral"] = True
    return cases


# ---------------------------------------------------------------------------
# data faults (C38)
# ---------------------------------------------------------------------------

FAULT_OBJS = {"o1": {"attrs": {"a": J.vint(1), "ra": {"t": "raiser", "exc": "AttributeError", "id": "ra"},
                               "rk": J.vint(8), "rp": {"t": "raiser", "exc": "Private", "id": "rp"}},
                     "items": {"a": J.vint(2), "ra": J.vint(7), "rk": {"t": "raiser", "exc": "KeyError", "id": "rk"},
                               "ri": {"t": "raiser", "exc": "Private", "id": "ri"}},
                     "str": J.vstr("O<1>")},
              "o2": {"attrs": {}, "items": {}, "str": {"t": "raiser", "exc": "Private", "id": "strfault"}},
              # an object that defines its own truth value (falsy)
              "o3": {"attrs": {"a": J.vint(3)}, "items": {}, "str": J.vstr("O3"), "bool": J.vbool(False)},
              # an object with a length and no truth value of its own (empty: falsy)
              "o4": {"attrs": {"a": J.vint(4)}, "items": {}, "str": J.vstr("O4"), "len": J.vint(0)}}


def fault_base_case(rnd, cid):
    """A clean program that talks to its data a lot: calls, iteration, attribute and item
    access, printing objects - inside macros, loops, conditionals, includes and blocks."""
    def call(f=None, arg=None):
        f = f or rnd.choice(["f1", "f2", "f3"])
        return J.Call(N(f), [arg] if arg is not None else ([C(rnd.randint(1, 3))] if f == "f1" else []))

    def unit():
        r = rnd.random()
        if r < 0.25: return [J.Out(call())]
        if r < 0.4:
            body = [J.Out(N("x")), J.Out(call("f1", N("x"))), J.Text(",")]
            k = rnd.random()
            if k < 0.25:
                body.insert(rnd.choice([0, 2]), J.If([J.Cmp(N("x"), ("eq", C(rnd.choice([4, 5, 6]))))], [[J.BREAK]]))      # the loop is left early
            elif k < 0.5:
                body.append(J.Out(J.Getattr(N("loop"), rnd.choice(["last", "length", "index", "nextitem", "revindex", "first"]))))
            flt = J.Cmp(N("x"), ("ne", C(rnd.choice([4, 5, 6])))) if rnd.random() < 0.2 else None
            return [J.For(J.TName("x"), rnd.choice([call("f3"), N("it"), N("it"), N("l1")]), body, None, flt)]
        if r < 0.44:
            return [J.Out(J.Filter(N("it"), rnd.choice(["list", "join", "sum"])))]
        if r < 0.55: return [J.Out(rnd.choice([J.Getattr(N("o1"), "a"), J.Getitem(N("o1"), C("a")), J.Getattr(N("o1"), "ra"),
                                                J.Getitem(N("o1"), C("rk")), J.Getattr(N("o1"), "zz"), N("o1")]))]
        if r < 0.6: return [J.If([call("f2")], [[J.Text("T"), J.Out(call())]], [J.Text("F")])]
        if r < 0.65:
            # the truth value of a data object (its __bool__) in every place that asks for it
            o = N(rnd.choice(["o1", "o3", "o3", "o4", "o4"]))
            if rnd.random() < 0.2:
                return [J.Out(J.Filter(N("o4"), "length")), J.Out(J.Filter(o, "default", [C("d"), C(True)]))]
            return [rnd.choice([J.If([o], [[J.Text("T")]], [J.Text("F")]), J.Out(J.Or(o, C("or"))), J.Out(J.And(o, C("and"))), J.Out(J.Not(o)),
                                J.Out(J.Cond(o, C("y"), C("n"))), J.Out(J.Filter(o, "default", [C("d"), C(True)])),
                                J.For(J.TName("x"), N("l1"), [J.Out(N("x"))], None, o)])]
        if r < 0.75: return [J.Set("v", call()), J.Out(N("v"))]
        if r < 0.85: return [J.Out(J.Filter(call("f4"), "default", [C("dflt")]))]
        return [J.Out(J.Test(call("f4"), "defined")), J.Out(J.Filter(J.List([call("f1", C(2)), call("f2")]), "join", [C("+")]))]

    body = [J.Text("[")]
    tpls = {}
    for _ in range(rnd.randint(2, 4)):
        u = unit()
        r = rnd.random()
        if r < 0.2:
            body.append(J.Macro("m", [], [], u)); body.append(J.Out(J.Call(N("m"))))
        elif r < 0.35:
            body.append(J.For(J.TName("j"), J.List([C(1), C(2)]), u))
        elif r < 0.5:
            tpls["inc"] = J.template(u, False)
            body.append(J.Include(C("inc")))
        elif r < 0.6:
            body.append(J.Block("b", u))
        elif r < 0.7:
            body.append(J.SetBlock("sb", u)); body.append(J.Out(N("sb")))
        else:
            body.extend(u)
        body.append(J.Text("|"))
    auto = rnd.random() < 0.3
    if rnd.random() < 0.3:
        # macros of an imported template (its module and eval context are cached by the engine): data is called inside
        # an autoescape block of the other mode, then other macros of the module are used - also in later renders
        opp = C(not auto)
        tpls["lib"] = J.template([
            J.Macro("inner", ["a"], [], [J.Text("<i>"), J.Out(N("a"))]),
            J.Macro("wrap", ["a"], [], [J.Out(J.Call(N("inner"), [N("a")]))]),
            J.Macro("run", ["f"], [], [J.Autoescape(opp, [J.Out(J.Call(N("f"), [C(1)])), J.Out(J.Call(N("inner"), [J.Call(N("f"), [C(2)])]))]),
                                       J.Out(J.Call(N("wrap"), [C("<w>")]))])], auto)
        body += [J.Import(C("lib"), "L"), J.Out(J.Call(J.Getattr(N("L"), "run"), [N("f1")])), J.Text("~"),
                 J.Out(J.Call(J.Getattr(N("L"), "wrap"), [C("<m>")])), J.Text("|")]
    if rnd.random() < 0.25:
        body.append(J.Autoescape(C(not auto), unit() + [J.Macro("am", [], [], [J.Text("<am>")]), J.Out(J.Call(N("am")))]))
        body.append(J.Text("|"))
    body.append(J.Text("]"))
    # de-duplicate block / macro names
    seen = 0
    for n in J.walk(body):
        if n.get("k") == "block":
            seen += 1; n["name"] = f"b{seen}"
    for tn in list(tpls):
        if tn != "lib":
            tpls[tn] = J.template(tpls[tn]["body"], auto)
    tpls["main"] = J.template(body, auto)
    data = {"f1": J.vfn("f1", "arg0", J.vint(0)), "f2": J.vfn("f2", "const", J.vint(5)),
            "f3": J.vfn("f3", "const", J.vlist([J.vint(1), J.vint(2)])), "f4": J.vfn("f4", "stopiter"),
            "it": J.vlist([J.vint(4), J.vint(5), J.vint(6)]), "l1": J.vlist([J.vint(7)]), "o1": J.vobj("o1"), "o3": J.vobj("o3"), "o4": J.vobj("o4")}
    return J.make_case(cid, tpls, "main", [data], objs=FAULT_OBJS)


def fault_variants(base, obs, start_id):
    """For every callable and every k up to the number of calls the clean run made: the k-th call raises.
    Plus: the iterable raises at every step, attribute / item / str faults."""
    import copy
    out = []
    calls = {}
    for ev in obs["log"]:
        if ev[0] == "call":
            calls[ev[1]] = calls.get(ev[1], 0) + 1
    d0 = base["datas"][0]
    def variant(newdata, objs=None, body=None):
        c = copy.deepcopy(base)
        c["id"] = start_id + len(out)
        c["datas"] = [newdata]
        if objs: c["objs"] = objs
        out.append(c)
    for fid, n in calls.items():
        if fid not in ("f1", "f2", "f3"):
            continue
        for k in range(1, n + 1):
            f = dict(d0[fid], mode="raise_at", k=k, then=d0[fid]["mode"])
            variant(dict(d0, **{fid: f}))
    uses_it = any(n.get("k") == "name" and n.get("n") == "it" for t in base["tpls"].values() for n in J.walk(t["body"]))
    if uses_it:
        for k in range(1, 5):
            variant(dict(d0, it={"t": "iterfault", "v": d0["it"]["v"], "k": k, "id": f"it{k}"}))
    src = json_dumps(base["tpls"])
    if '"o1"' in src:
        o = copy.deepcopy(FAULT_OBJS)
        o["o1"]["attrs"]["a"] = {"t": "raiser", "exc": "Private", "id": "attr_a"}
        variant(d0, objs=o)
        o = copy.deepcopy(FAULT_OBJS)
        o["o1"]["items"]["a"] = {"t": "raiser", "exc": "Private", "id": "item_a"}
        variant(d0, objs=o)
        o = copy.deepcopy(FAULT_OBJS)
        o["o1"]["str"] = {"t": "raiser", "exc": "Private", "id": "str_o1"}
        variant(d0, objs=o)
        o = copy.deepcopy(FAULT_OBJS)
        del o["o1"]["items"]["a"]                      # o1['a'] falls back to the attribute, which raises
        o["o1"]["attrs"]["a"] = {"t": "raiser", "exc": "Private", "id": "attr_a_via_item"}
        variant(d0, objs=o)
        o = copy.deepcopy(FAULT_OBJS)
        o["o1"]["attrs"]["zz"] = {"t": "raiser", "exc": "AttributeError", "id": "zz"}
        o["o1"]["items"]["zz"] = {"t": "raiser", "exc": "KeyError", "id": "zzk"}
        variant(d0, objs=o)
    for oid in ("o1", "o3"):
        if f'"{oid}"' in src:
            # the object's __bool__ raises: wherever its truth is asked for, the render ends with that exception
            o = copy.deepcopy(FAULT_OBJS)
            o[oid]["bool"] = {"t": "raiser", "exc": "Private", "id": "bool_" + oid}
            variant(d0, objs=o)
    if '"o4"' in src:
        # __len__ raises: asked for by |length and by every truth test of an object without __bool__
        o = copy.deepcopy(FAULT_OBJS)
        o["o4"]["len"] = {"t": "raiser", "exc": "Private", "id": "len_o4"}
        variant(d0, objs=o)
    return out


def json_dumps(x):
    import json
    return json.dumps(x)


# ---------------------------------------------------------------------------
# nested scope patterns (C03): a name bound by an outer frame, assigned conditionally or
# unconditionally two to four frames further in, and read at every level afterwards
# ---------------------------------------------------------------------------

def scope_pattern(rnd):
    x = "a"
    kinds = [rnd.choice(["for", "with", "macro", "setblock", "filterblock", "for"]) for _ in range(rnd.randint(2, 4))]
    inner = []
    r = rnd.random()
    cond = rnd.choice([N("c"), J.Cmp(N("j"), ("eq", C(2))), C(True), C(False), J.Test(N("b"), "defined")])
    setter = J.Set(x, rnd.choice([C(9), J.Bin("+", J.Filter(N(x), "default", [C(0)]), C(1)), N("b")]))
    if r < 0.6:
        inner.append(J.If([cond], [[setter]], [J.Set(x, C(8))] if rnd.random() < 0.2 else None))
    elif r < 0.8:
        inner.append(setter)
    else:
        inner.append(J.If([cond], [[J.Text("t")]], [setter]))
    inner.append(J.Out(N(x)))
    body = inner
    for depth, k in enumerate(reversed(kinds)):
        outermost = depth == len(kinds) - 1
        tail = [J.Text("|"), J.Out(N(x))]
        if k == "for":
            var = x if outermost else rnd.choice(["j", "i", x])
            body = [J.For(J.TName(var), J.List([C(1), C(2)]), body + tail)]
        elif k == "with":
            var = x if outermost else rnd.choice(["w", x])
            body = [J.With([(var, C(5))], body + tail)]
        elif k == "macro":
            name = f"m{depth}"
            params = [x] if outermost else rnd.choice([[], ["q"], [x]])
            dflt = rnd.choice([[], [C(3)] * len(params), [N(p_) for p_ in params], [J.Filter(N(p_), "default", [C(2)]) for p_ in params]])
            body = [J.Macro(name, params, dflt, [J.Out(N(p_)) for p_ in params] + [J.Out(J.Test(N(p_), "defined")) for p_ in params] + body + tail),
                    J.Out(J.Call(N(name), [C(4)] if params and rnd.random() < 0.5 else []))]
        elif k == "setblock":
            body = [J.SetBlock("sb", body + tail), J.Out(N("sb"))]
        else:
            body = [J.FilterBlock("default", body + tail)]
    return [J.Text("[")] + body + [J.Text("]"), J.Out(N(x))]


def scope_cases(seed, n, start_id=1):
    rnd = random.Random(seed)
    datas = [{}, {"a": J.vint(7), "b": J.vint(6), "c": J.vbool(True)}, {"a": J.vstr("A"), "c": J.vbool(False)},
             {"b": J.vint(0), "c": J.vbool(True)}]
    return [J.make_case(start_id + i, {"main": J.template(scope_pattern(rnd), False)}, "main", datas) for i in range(n)]


# ---------------------------------------------------------------------------
# fragment algebra (C15 / C16): every way of obtaining an already-rendered fragment, combined
# with data through every string-combining operation
# ---------------------------------------------------------------------------

def fragment_cases(auto, start_id=1, neutral=True):
    S = N("s")
    frags = {
        "macro": ([J.Macro("m", ["a"], [], [J.Text("<m>"), J.Out(N("a")), J.Out(C(META))])], J.Call(N("m"), [S])),
        "setblock": ([J.SetBlock("fr", [J.Text("t"), J.Out(S)])], N("fr")),
        "caller": None,
        "self": ([], J.Call(J.Getattr(N("self"), "blk"))),
        "importmacro": ([J.Import(C("lib"), "lib")], J.Call(J.Getattr(N("lib"), "m"), [S])),
        "loop": None,
    }
    combos = [
        ("tilde-right", lambda f: J.Concat(f, S)), ("tilde-left", lambda f: J.Concat(S, f)), ("tilde-both", lambda f: J.Concat(f, f)),
        ("tilde-lit", lambda f: J.Concat(f, C("q<"))), ("plus-right", lambda f: J.Bin("+", f, S)), ("plus-left", lambda f: J.Bin("+", S, f)),
        ("join", lambda f: J.Filter(J.List([f, S]), "join", [C("|")])), ("join-sep", lambda f: J.Filter(J.List([S, S]), "join", [f])),
        ("default", lambda f: J.Filter(N("nope"), "default", [f])), ("cond", lambda f: J.Cond(S, f, S)), ("or", lambda f: J.Or(C(""), f)),
        ("tilde-3", lambda f: J.Concat(S, f, C("z"))),
    ]
    lib = J.template([J.Macro("m", ["a"], [], [J.Text("<lib>"), J.Out(N("a"))])], auto)
    cases = []
    datas = [{"s": J.vstr(META)}, {"s": J.vstr("p&q")}, {"s": J.vstr("")}]
    for fname, fr in frags.items():
        if fr is None:
            continue
        pre, f = fr
        for cname, mk in combos:
            body = list(pre) + [J.Text("["), J.Out(mk(f)), J.Text("]")]
            if fname == "self":
                body = [J.Block("blk", [J.Text("b"), J.Out(S)])] + body
            tpls = {"main": J.template(body, auto), "lib": lib}
            cases.append(J.make_case(start_id + len(cases), tpls, "main", datas, neutral=neutral))
            # the same inside a macro, a call block and a set block
            wrapped = list(pre) + ([J.Block("blk", [J.Text("b"), J.Out(S)])] if fname == "self" else []) + [
                J.Macro("w", [], [], [J.Out(mk(f)), J.Out(J.Call(N("caller")))]),
                J.CallBlock(N("w"), [], [], [J.Text("c"), J.Out(mk(f))]),
                J.SetBlock("sb", [J.Out(mk(f))]), J.Out(N("sb")), J.Out(J.Concat(N("sb"), S))]
            cases.append(J.make_case(start_id + len(cases), {"main": J.template(wrapped, auto), "lib": lib}, "main", datas, neutral=neutral))
    # recursive loop fragment
    tree = J.vlist([J.vdict([(J.vstr("n"), J.vstr(META)), (J.vstr("k"), J.vlist([J.vdict([(J.vstr("n"), J.vstr("c<")), (J.vstr("k"), J.vlist([]))])]))])])
    for cname, mk in combos[:4]:
        body = [J.For(J.TName("t"), N("tr"), [J.Out(J.Getattr(N("t"), "n")), J.Text("("), J.Out(mk(J.Call(N("loop"), [J.Getattr(N("t"), "k")]))), J.Text(")")], recursive=True)]
        cases.append(J.make_case(start_id + len(cases), {"main": J.template(body, auto)}, "main", [{"tr": tree, "s": J.vstr(META)}], neutral=neutral))
    return cases
