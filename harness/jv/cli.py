"""CLI: ./check Cxx [--tier quick|thorough] [--replay path]"""
import argparse
import importlib
import json
import os
import sys
import traceback

from . import core


def main(argv=None):
    ap = argparse.ArgumentParser()
    ap.add_argument("pid")
    ap.add_argument("--tier", default=os.environ.get("VERIF_TIER", "quick"), choices=["quick", "thorough"])
    ap.add_argument("--replay")
    a = ap.parse_args(argv)
    seed = int(os.environ.get("VERIF_SEED", "0") or 0)
    pid = a.pid.upper()
    ck = None
    try:
        core.use_repo()
        mod = importlib.import_module(f"jv.props.{pid.lower()}")
        ck = core.Check(pid, a.tier, seed)
        if a.replay:
            case = json.loads(open(a.replay).read())
            mod.replay(ck, case)
            n = len(ck.violations)
            for kid, h in ck.known_hits.items():
                print(f"KNOWN-FINDING: property={pid} {kid}: {h['what']}")
            print(f"replay: {'VIOLATION reproduced' if n else 'no violation'}")
            return 1 if n else 0
        mod.run(ck)
        return ck.finish()
    except core.MachineryError as e:
        print(f"MACHINERY-FAILURE {pid}: {e}", file=sys.stderr)
        return _after_failure(ck, a)
    except Exception:
        traceback.print_exc()
        print(f"MACHINERY-FAILURE {pid}: unexpected exception in harness", file=sys.stderr)
        return _after_failure(ck, a)


def _after_failure(ck, a):
    """The machinery broke down part-way.  Violations of the property by the real code that were
    already established (and printed) stay true: report them (exit 1); otherwise exit 2."""
    if ck is not None and ck.violations and not a.replay:
        ck.extra["machinery_failure_after_violations"] = True
        ck.exhaustive = False
        try:
            ck.finish()
        except Exception:  # noqa
            pass
        return 1
    return 2


if __name__ == "__main__":
    sys.exit(main())
