"""C08 - compile-time constant folding never changes what a template renders.

Spec: spec/Jinja.tla has no optimiser: literals and variables holding the same value
mean the same.  For every generated program A and data assignment d the harness builds
B = A with the values of d written in as literals (constant-rich), and A' = A wrapped in
static / runtime-decided autoescape blocks.  TLC evaluates A on d and B on the remaining
data; C08_LiftInvariant (checked on TLC's observables): both denote the same text / error
class.  Real jinja2 must render B exactly as the spec says with the optimizer on and off.
"""
from __future__ import annotations

import copy
import random

from .. import core, jgen, jrun
from .. import jast as J


def stored_names(tpls):
    out = set()
    for t in tpls.values():
        for n in J.walk(t["body"]):
            k = n.get("k")
            if k == "name" and "exp" in n: out.add(n["n"])
            elif k == "nsattr": out.add(n["ns"])
            elif k == "with": out.update(n["names"])
            elif k in ("macro", "callblock"):
                out.update(n["params"])
                if k == "macro": out.add(n["name"])
            elif k == "import": out.add(n["target"])
            elif k == "fromimport": out.update(x["as"] for x in n["names"])
    return out


def literal_of(v):
    t = v["t"]
    if t == "int":
        return J.Const(v["n"]) if v["n"] >= 0 else J.Neg(J.Const(-v["n"]))
    if t == "float":
        return J.Const(J.float_of(v)) if v["n"] >= 0 else J.Neg(J.Const(-J.float_of(v)))
    if t == "bool": return J.Const(v["b"])
    if t == "none": return J.Const(None)
    if t == "str":
        c = J.Const(J.seg_text(v["s"]))
        return J.Filter(c, "safe") if v["m"] else c
    if t == "list":
        items = [literal_of(x) for x in v["v"]]
        if any(i is None for i in items): return None
        return J.List(items, tup=v.get("tup", False))
    return None


def subst(node, env):
    if isinstance(node, list):
        return [subst(x, env) for x in node]
    if not isinstance(node, dict):
        return node
    if node.get("k") == "name" and "exp" not in node and node["n"] in env:
        return copy.deepcopy(env[node["n"]])
    return {k: subst(v, env) for k, v in node.items()}


def inline_case(case, di, new_id, rnd=None):
    """B: the data of assignment #di written into the program as literals -- all of it, or (with rnd) a random
    half of the names, which gives partially constant expressions such as `(-0.75) ** e2`."""
    d = case["datas"][di - 1]
    stored = stored_names(case["tpls"])
    env = {}
    rest = {}
    for n, v in d.items():
        lit = literal_of(v) if n not in stored and n not in ("loop", "self", "super", "caller", "varargs", "kwargs") else None
        if lit is not None and rnd is not None and rnd.random() < 0.5:
            lit = None
        if lit is None:
            rest[n] = v
        else:
            env[n] = lit
    if not env:
        return None
    tpls = {n: J.template(subst(t["body"], env), t["auto"]) for n, t in case["tpls"].items()}
    c = J.make_case(new_id, tpls, case["main"], [rest], objs=case["objs"], undefined=case["cfg"]["undefined"],
                    globals_={k: v for k, v in case["globals"].items() if v["t"] != "builtin"})
    c["_from"] = (case["id"], di)
    return c


def wrap_autoescape(case, rnd, new_id):
    """A' : the main template's body inside an autoescape block whose switch is a constant or a variable."""
    mode = rnd.choice(["const-on", "const-off", "var"])
    sw = {"const-on": J.Const(True), "const-off": J.Const(False), "var": J.Name("ae")}[mode]
    tpls = dict(case["tpls"])
    main = case["tpls"][case["main"]]
    tpls[case["main"]] = J.template([J.Autoescape(sw, copy.deepcopy(main["body"]))], main["auto"])
    datas = []
    for i, d in enumerate(case["datas"]):
        datas.append(dict(d, ae=J.vbool(i % 2 == 0)))
    return J.make_case(new_id, tpls, case["main"], datas, objs=case["objs"], undefined=case["cfg"]["undefined"],
                       globals_={k: v for k, v in case["globals"].items() if v["t"] != "builtin"})


def position_family(start_id):
    """Deterministic family: an escaping-mode-sensitive constant expression in every syntactic position the
    optimiser folds through (positional / keyword argument, list / tuple / dict item, subscript, inline-if
    branch, call argument, test operand ...), printed directly, assigned first, and used as an if-test, inside
    no / static-on / static-off / runtime-decided autoescape blocks, with autoescaping on and off."""
    C, N, F = J.Const, J.Name, J.Filter
    safe_b = F(C("<b>"), "safe")
    sens = [J.Concat(safe_b, C("<i>")), J.Concat(C("<i>"), C("x&")), J.Concat(safe_b, C(1)), J.Concat(C("<i>"), safe_b, C("&")),
            F(J.List([safe_b, C("<i>")]), "join", [C("&")]), J.Bin("+", safe_b, C("<j>"))]
    positions = [
        lambda e: e,
        lambda e: F(C(None), "default", [e]),
        lambda e: F(C(None), "default", [], [("default_value", e)]),
        lambda e: F(C(""), "default", [], [("default_value", e), ("boolean", C(True))]),
        lambda e: F(J.List([e, C("x<")]), "join", [C("|")]),
        lambda e: F(J.List([C("x<"), C("y")]), "join", [e]),
        lambda e: F(J.List([C("x<"), C("y")]), "join", [], [("d", e)]),
        lambda e: J.Getitem(J.Dict([(C("k"), e)]), C("k")),
        lambda e: J.Getitem(J.List([e]), C(0)),
        lambda e: J.Getitem(J.List([e, C(1)], tup=True), C(0)),
        lambda e: J.Cond(C(True), e, C("n<")),
        lambda e: J.Cond(C(False), C("n<"), e),
        lambda e: J.Call(N("f2"), [e]),
        lambda e: J.Getitem(J.Call(N("dict"), [], [("a", e)]), C("a")),
        lambda e: F(e, "string"),
        lambda e: J.Concat(e, C("t<")),
        lambda e: J.Or(C(""), e),
        lambda e: J.And(C(1), e),
        lambda e: F(F(C(None), "default", [], [("default_value", e)]), "default", [C("zz")]),
    ]
    out = []
    data = {"f2": J.vfn("f2", "arg0", J.vint(7))}
    for e in sens:
        for pos in positions:
            x = pos(e)
            for body in ([J.Out(x)], [J.Set("v", x), J.Out(N("v")), J.If([x], [[J.Text("T")]], [J.Text("F")])]):
                for auto in (False, True):
                    for sw in (None, C(True), C(False), N("ae")):
                        b = copy.deepcopy(body) if sw is None else [J.Autoescape(sw, copy.deepcopy(body))]
                        datas = [dict(data)] if sw is None or sw["k"] == "const" else [dict(data, ae=J.vbool(True)), dict(data, ae=J.vbool(False))]
                        out.append(J.make_case(start_id + len(out), {"main": J.template(b, auto)}, "main", datas))
    return out


def partial_family(start_id):
    """Deterministic family: a folded constant operand (negative and positive ints and floats, written as a
    literal, a negation and a difference) next to a run-time operand, for every arithmetic operator and both
    sides: the generated code must keep the constant one operand (`(-2.5) ** x`, not `-2.5 ** x`)."""
    C, N = J.Const, J.Name
    consts = [J.Neg(C(2)), J.Neg(C(2.5)), J.Bin("-", C(0.5), C(3)), J.Bin("-", C(1), C(4)), C(2.5), C(3), J.Neg(J.Neg(C(1.5))),
              J.Bin("/", J.Neg(C(5)), C(2)), J.Bin("*", C(2), J.Neg(C(0.25)))]
    out = []
    datas = [{"x": J.vint(2), "y": J.vfloat(0.5)}, {"x": J.vint(3), "y": J.vfloat(-1.5)}, {"x": J.vint(-1), "y": J.vint(0)}]
    for op in ("+", "-", "*", "/", "//", "%", "**"):
        for k in consts:
            for var in ("x", "y"):
                for e in (J.Bin(op, copy.deepcopy(k), N(var)), J.Bin(op, N(var), copy.deepcopy(k)), J.Neg(J.Bin(op, copy.deepcopy(k), N(var)))):
                    out.append(J.make_case(start_id + len(out), {"main": J.template([J.Out(e)], False)}, "main", datas))
    return out


def text_of(o):
    return ("err", o["err"]) if o["err"] else ("out", J.expected_text(o["out"]))


def fingerprint(m, case):
    return {"kind": "render-mismatch", "variant": m["variant"]}


VARIANTS = [{"label": "optimized"}, {"label": "unoptimized", "opts": {"optimized": False}}]


def run(ck):
    quick = ck.tier == "quick"
    rnd = random.Random(ck.seed + 8)
    base = jgen.expr_cases(ck.seed * 31 + 8, 130 if quick else 900, depth=3)
    base += jgen.expr_cases(ck.seed * 31 + 9, 170 if quick else 1300, start_id=len(base) + 1, depth=3, rich=True)
    base += jgen.expr_cases(ck.seed * 31 + 10, 120 if quick else 900, start_id=len(base) + 1, depth=3, numeric=True)
    base += jgen.expr_cases(ck.seed * 31 + 11, 40 if quick else 300, start_id=len(base) + 1, depth=2, collide=True)
    base += jgen.random_cases(ck.seed * 31 + 88, 120 if quick else 1000, start_id=len(base) + 1, features=("loopcontrols", "safe"))
    # lazy filters (map / select / reject / selectattr / rejectattr) with their consumers: never folded (they take the
    # context), but their arguments and sources are
    base += jgen.lazy_cases(ck.seed * 31 + 12, 80 if quick else 600, start_id=len(base) + 1)
    for c in base:
        c.pop("emit_values", None)
    # the same expressions in positions that go through the optimizer pass instead of the
    # compile-time folding of output nodes: {% set v = expr %}{{ v }} and {% if expr %}
    nexpr = 300 if quick else 2200
    for c in list(base[:nexpr]):
        e = c["tpls"]["main"]["body"][0]["e"]
        body = [J.Set("v", e), J.Out(J.Name("v")), J.If([e], [[J.Text("T")]], [J.Text("F")])]
        nc = J.make_case(len(base) + 1, {"main": J.template(body, c["tpls"]["main"]["auto"])}, "main", c["datas"], objs=c["objs"],
                         undefined=c["cfg"]["undefined"])
        base.append(nc)
    # A' : autoescape-wrapped variants (static on / static off / decided at runtime)
    wrapped = [wrap_autoescape(c, rnd, len(base) + 1 + i) for i, c in enumerate(base) if len(c["tpls"]) == 1]
    A = base + wrapped
    obsA = {}
    for bi, batch in enumerate(core.chunks(A, 6000)):
        o, rA = jrun.spec_results("C08", batch, name=f"A{bi}", timeout=3000)
        obsA.update(o)
        ck.add_tlc(rA, f"Jinja.tla programs with variables, batch {bi} ({len(batch)})")
    # B : constants written in
    B = []
    for c in A:
        for di in range(1, len(c["datas"]) + 1):
            if obsA[(c["id"], di)]["err"] == "EXCLUDED":
                continue
            b = inline_case(c, di, len(A) + len(B) + 1)
            if b is not None:
                B.append(b)
            if (c["id"] + di) % 2 == 0:
                b = inline_case(c, di, len(A) + len(B) + 1, rnd)
                if b is not None:
                    B.append(b)
    obsB = {}
    for bi, batch in enumerate(core.chunks(B, 12000)):
        o, rB = jrun.spec_results("C08", batch, name=f"B{bi}", timeout=3000)
        obsB.update(o)
        ck.add_tlc(rB, f"Jinja.tla programs with the data written in as literals, batch {bi} ({len(batch)})")
    # C08_LiftInvariant on the spec's own observables
    nlift = 0
    for b in B:
        oa, ob = obsA[b["_from"]], obsB[(b["id"], 1)]
        if "EXCLUDED" in (oa["err"], ob["err"]):
            continue
        nlift += 1
        if text_of(oa) != text_of(ob):
            ck.violation({"kind": "lift", "case": b, "from": b["_from"]},
                         f"spec: literal and variable form differ: {text_of(oa)} vs {text_of(ob)} :: {jrun.sources(b)[b['main']][:200]!r}",
                         {"kind": "spec-lift-differs"})
    ck.extra["C08_LiftInvariant_pairs"] = nlift
    for b in B:
        b.pop("_from", None)
    jrun.conformance(ck, B, obsB, VARIANTS, fingerprint)
    jrun.conformance(ck, wrapped, {k: v for k, v in obsA.items() if k[0] > len(base)}, VARIANTS, fingerprint)
    fam = position_family(len(A) + len(B) + 1)
    obsF, rF = jrun.spec_results("C08", fam, name="positions", timeout=3000)
    ck.add_tlc(rF, f"Jinja.tla mode-sensitive constants in every foldable position ({len(fam)} programs)")
    jrun.conformance(ck, fam, obsF, VARIANTS, fingerprint)
    ck.extra["position_family"] = len(fam)
    pf = partial_family(len(A) + len(B) + len(fam) + 1)
    obsP, rP = jrun.spec_results("C08", pf, name="partial", timeout=3000)
    ck.add_tlc(rP, f"Jinja.tla folded constant operand next to a run-time operand ({len(pf)} programs)")
    jrun.conformance(ck, pf, obsP, VARIANTS, fingerprint)
    ck.extra["partial_constant_family"] = len(pf)
    fold_matrix(ck)
    ck.extra["programs"] = len(A)
    ck.extra["constant_rich_programs"] = len(B)
    ck.exhaustive = False


# ---------------------------------------------------------------------------------------------------------------
# filters the interpreter spec does not model: the relation the property states (C08_LiftInvariant on real renders)
# ---------------------------------------------------------------------------------------------------------------
FOLD_EXTRA = [
    "{% for g in rows|groupby('k', default='NY') %}[{{ g.grouper }}:{{ g.list|map(attribute='n')|join(',') }}]{% endfor %}",
    "{% for g in rows|groupby('n') %}{{ g.grouper }}={{ g.list|length }}/{{ g[0] }}/{{ g|length }};{% endfor %}",
    "{% set gs = rows|groupby('n') %}{{ gs[0].grouper }}{{ (gs|first).list|length }}{{ gs|map(attribute='grouper')|list }}",
    "{% for k, items in rows|groupby('k', default='zz', case_sensitive=true) %}[{{ k }}:{{ items|length }}]{% endfor %}",
    "{{ rows|groupby('n')|map(attribute='list')|map('length')|list }}{{ rows|groupby('n')|list }}",
    "{% for k, v in D|dictsort %}{{ k }}={{ v }};{% endfor %}{{ D|dictsort|first }}{{ (D|items|list)[0] }}",
    "{{ L|batch(2)|list }}{{ L|slice(2)|list }}{{ L|unique|list }}{{ L|reverse|list }}{{ (L|sort)[0] }}{{ L|map('length')|max }}",
    "{{ n|filesizeformat }}{{ n|round(1) }}{{ (n / 2)|round|int }}{{ s|wordcount }}{{ s|length }}{{ s|urlencode }}{{ D|tojson }}{{ D|xmlattr }}",
]
_FOLD_SKIP = {"m", "O", "u", "fr", "mm2", "loopdata", "url", "DD", "G", "random", "pprint", "lipsum"}


def _fold_work(chunk):
    """The same filter program with its data (a) given as variables, (b) written in as literals, compiled with and
    without the optimizer: all three must render the same text or raise the same class of error."""
    core.use_repo()
    import json as _json
    import re
    import jinja2
    from . import c15_scan as sc
    rows = [{"k": "b", "n": 2}, {"k": "A", "n": 1}, {"n": 3}, {"k": "a", "n": 1}]
    data = dict(s=sc.S1, s2=sc.S2, L=[sc.S1, sc.S2, "q<q"], D={sc.S1: sc.S2, "k": sc.S1}, n=3, LL=[[sc.S1], [sc.S2, sc.S1]], rows=rows)
    lit = {k: _json.dumps(v) for k, v in data.items()}
    pat = re.compile(r"(?<![.\w'\"%{}])\b(" + "|".join(sorted(data, key=len, reverse=True)) + r")\b(?![\w'\"(=])")
    out, n = [], 0
    for p in chunk:
        src = p["src"]
        names = set(re.findall(r"\b[A-Za-z_][A-Za-z_0-9]*\b", re.sub(r"'[^']*'|\"[^\"]*\"", "", src)))
        if names & _FOLD_SKIP:
            continue
        inl = pat.sub(lambda mo: "(" + lit[mo.group(1)] + ")", src)
        if inl == src:
            continue
        for auto in (False, True):
            res = []
            for text, opt, kw in ((src, True, data), (inl, True, {}), (inl, False, {})):
                env = jinja2.Environment(autoescape=auto, optimized=opt, extensions=["jinja2.ext.do", "jinja2.ext.loopcontrols"])
                try:
                    res.append(("ok", env.from_string(text).render(**kw)))
                except Exception as e:  # noqa
                    res.append(("err", type(e).__name__))
            n += 3
            if re.search(r"(?i) at 0x[0-9a-f]+", str(res)):
                continue
            if res[1] != res[2] or (res[0] != res[1] and res[1][0] == "ok" and res[0][0] == "ok"):
                out.append({"src": src, "inlined": inl, "auto": auto, "tag": p["tag"], "variables": res[0], "literals_optimized": res[1],
                            "literals_unoptimized": res[2]})
    return out, n


def fold_matrix(ck):
    import random as _r
    from concurrent.futures import ProcessPoolExecutor
    import jinja2 as _j
    from . import c15_scan as sc
    progs = sc.programs(_r.Random(ck.seed + 88), _j.Environment().filters, "quick" if ck.tier == "quick" else "thorough")
    progs += [{"id": 0, "src": s_, "mode": "html", "tag": "extra"} for s_ in FOLD_EXTRA]
    nd = 0
    with ProcessPoolExecutor(max_workers=16) as ex:
        for mism, n in ex.map(_fold_work, list(core.chunks(progs, 150))):
            nd += n
            for m in mism:
                ck.violation({"kind": "fold-matrix", **{k: str(v) for k, v in m.items()}},
                             f"folding changes the result of {m['inlined']!r:.200} (autoescape={m['auto']}): variables {str(m['variables'])[:100]} / "
                             f"literals optimized {str(m['literals_optimized'])[:100]} / literals unoptimized {str(m['literals_unoptimized'])[:100]}",
                             {"kind": "fold-changes-filter-result", "filter": m["tag"]})
    ck.traces += nd
    ck.extra["filter_matrix_renders_compared_folded_vs_unfolded"] = nd


def replay(ck, rec):
    c = rec["case"]
    if c.get("kind") == "fold-matrix":
        mism, n = _fold_work([{"src": c["src"], "tag": c.get("tag", "")}])
        for m in mism:
            ck.violation({"kind": "fold-matrix", **{k: str(v) for k, v in m.items()}}, "folding still changes the result", rec.get("fingerprint"))
        return
    case = c["case"]
    case.pop("_from", None)
    obs, r = jrun.spec_results("C08", [case], name="replay", workers=2)
    jrun.conformance(ck, [case], obs, VARIANTS, fingerprint, procs=1)
