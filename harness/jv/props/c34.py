"""C34 - native rendering returns native values as documented.

Spec: spec/Native.tla.  TLC enumerates every sequence of output items (is the
value a str? is it a compile-time constant?) up to MaxItems x literalness of the
joined text x entry point, runs the operational model of the compiler's output
folding and of native_concat, checks C34_SingleValuePassThrough,
C34_ConcatThenLiteral, C34_AllEntryPointsAgree, C34_NothingLostOrDoubled and
prints the documented result of every case.

spec->code: concrete templates are generated (patterns that join to Python
literals + seeded random item lists over text pieces, constant expressions,
str / non-str variables incl. non-literal objects); each is classified into the
spec's abstraction (item kinds; literalness from ast.literal_eval, the oracle
the property names), the documented result is looked up in what TLC printed and
compared with NativeEnvironment(enable_async in {False, True}) x render /
render_async: None / the very object / the literal value and its type / the text.

Spec: spec/NativeSession.tla.  Sequences of renders in one process, the callers changing
the values they were given in between: every render returns the literal value of its own
text and never an object another render returned.  TLC enumerates the sessions, each is
replayed on the real code with seeded texts / template shapes / entry points / environments.
"""
from __future__ import annotations

import ast
import asyncio
import json
import random
import warnings
from concurrent.futures import ThreadPoolExecutor
from decimal import Decimal

from .. import core
from ..lit_util import load_local_findings

PID = "C34"


def cfg(max_items, delegates=True):
    return f"""CONSTANTS
  MaxItems = {max_items}
  AsyncRenderDelegates = {"TRUE" if delegates else "FALSE"}
SPECIFICATION Spec
INVARIANT TypeOK
INVARIANT C34_SingleValuePassThrough
INVARIANT C34_ConcatThenLiteral
INVARIANT C34_AllEntryPointsAgree
INVARIANT C34_NothingLostOrDoubled
PROPERTY C34_Terminates
"""


class Foo:
    def __init__(self, value):
        self.value = value

    def __str__(self):
        return f"Foo<{self.value}>"


class Five:
    """A non-literal object whose text is a literal."""

    def __str__(self):
        return "5"


# ---- concrete items ---------------------------------------------------------
# kind, template source, value factory (None for constants: the value is in the source)
TEXT = ["[", "]", ",", ", ", "1", "2", " ", "x", "'", "-", ".", "(", ")", "{ ", " }", ": ", "a b", "None", "True", "0x", "e", "+", "\"", "7 "]
CONST_STR = ['{{ "a" }}', '{{ "1" }}', "{{ ',' }}", "{{ '' }}", '{{ "[" }}']
CONST_STR_VALUES = {'{{ "a" }}': "a", '{{ "1" }}': "1", "{{ ',' }}": ",", "{{ '' }}": "", '{{ "[" }}': "["}
CONST_NONSTR = {"{{ 1 }}": 1, "{{ 2 }}": 2, "{{ 25 }}": 25, "{{ 2.5 }}": 2.5, "{{ [1, 2] }}": [1, 2], "{{ none }}": None, "{{ true }}": True,
                "{{ (1, 2) }}": (1, 2), '{{ {"a": 1} }}': {"a": 1}, "{{ -3 }}": -3, "{{ [] }}": [], "{{ 1 + 1 }}": 2}
VAR_STR = ["1", "abc", "[1, 2]", "", "'q'", "1.5", "2 ", "{'k': 1}", "None", "a, b", "3,", "-", "1_0", "0x1f", "b'x'", "(", "...",
           "1 # c", "7\n", "x y"]
MISSING = object()


def var_nonstr(rng):
    return rng.choice([
        lambda: 7, lambda: -12, lambda: 2.5, lambda: True, lambda: None, lambda: [1, "a"], lambda: {"k": 1}, lambda: (1,),
        lambda: {1}, lambda: Foo(15), lambda: Five(), lambda: MISSING, lambda: b"x", lambda: Decimal("1.5"), lambda: range(3),
        lambda: 1j, lambda: [], lambda: 10 ** 30, lambda: object(), lambda: [Foo(1)], lambda: frozenset(),
    ])()


def make_item(rng, kind):
    """kind = (is_str, is_const) -> dict(src, value, str, const)"""
    from markupsafe import Markup

    is_str, is_const = kind
    if is_str and is_const:
        if rng.random() < 0.8:
            t = rng.choice(TEXT)
            return {"src": t, "value": t, "str": True, "const": True, "text": True}
        s = rng.choice(CONST_STR)
        return {"src": s, "value": CONST_STR_VALUES[s], "str": True, "const": True}
    if is_const:
        s = rng.choice(list(CONST_NONSTR))
        return {"src": s, "value": CONST_NONSTR[s], "str": False, "const": True}
    if is_str:
        v = rng.choice(VAR_STR)
        if rng.random() < 0.1:
            v = Markup(v)
        return {"src": None, "value": v, "str": True, "const": False}
    return {"src": None, "value": var_nonstr(rng), "str": False, "const": False}


PATTERNS = [  # item lists that tend to join to literals: T = text piece, V = non-str variable, S = str variable, C = constant expr
    [("T", "["), ("V", 1), ("T", "]")], [("V", 1), ("T", ","), ("V", 2)], [("T", "("), ("V", 3), ("T", ",)")],
    [("T", "{'k': "), ("V", 4), ("T", " }")], [("T", "-"), ("V", 5)], [("V", 1), ("T", "."), ("V", 5)], [("V", 1), ("V", 2)],
    [("T", "'"), ("S", "abc"), ("T", "'")], [("S", "1"), ("S", "2")], [("C", "{{ 1 }}"), ("C", "{{ 2 }}")], [("C", "{{ 1 }}"), ("V", 2)],
    [("V", [1, 2]), ("T", " ")], [("T", "["), ("V", 1), ("T", ", "), ("V", "a"), ("T", "]")], [("V", None), ("T", "")],
    [("T", "["), ("V", 1), ("T", ","), ("V", 2), ("T", ","), ("T", "]")], [("S", "[1, "), ("V", 2), ("T", "]")],
    [("V", 4), ("T", " * "), ("V", 2)], [("T", "0x"), ("V", 10)], [("V", 1), ("T", "e"), ("V", 3)], [("V", True)], [("S", "7")],
    [("V", Five())], [("V", Five()), ("T", "")], [("V", Five()), ("V", Five())], [("T", "{ "), ("V", [1]), ("T", ": "), ("V", 2), ("T", " }")],
    [("T", "{ 1, "), ("V", [2]), ("T", " }")], [("S", "{[1]: 2}")], [], [("T", "")], [("C", "{{ [1, 2] }}")], [("C", "{{ none }}")],
    [("C", '{{ "1" }}')], [("T", "5")], [("V", MISSING)], [("V", MISSING), ("T", "1")], [("V", Foo(15))], [("V", Foo(15)), ("T", " ")],
]


def pattern_items(p):
    out = []
    for k, v in p:
        if k == "T":
            if v == "":
                continue
            out.append({"src": v, "value": v, "str": True, "const": True, "text": True})
        elif k == "C":
            val = CONST_NONSTR.get(v, CONST_STR_VALUES.get(v))
            out.append({"src": v, "value": val, "str": isinstance(val, str), "const": True})
        elif k == "S":
            out.append({"src": None, "value": v, "str": True, "const": False})
        else:
            out.append({"src": None, "value": v, "str": isinstance(v, str), "const": False})
    return out


def build(items):
    """-> template source, context"""
    src, ctx = [], {}
    for i, it in enumerate(items):
        if it["src"] is not None:
            src.append(it["src"])
        else:
            src.append("{{ v%d }}" % i)
            if it["value"] is not MISSING:
                ctx["v%d" % i] = it["value"]
    return "".join(src), ctx


def item_text(env, it, finalize):
    from jinja2 import Undefined

    v = it["value"]
    if v is MISSING:
        v = Undefined(name="v")
    if finalize is not None and not it.get("text"):
        v = finalize(v)
    return v


def literalness(text):
    """(is_literal, value, determined) - Python is the oracle the property names."""
    with warnings.catch_warnings():
        warnings.simplefilter("ignore")
        try:
            val = ast.literal_eval(text)
        except BaseException as e:  # noqa
            if isinstance(e, (KeyboardInterrupt, SystemExit)):
                raise
            return False, None, True
    # Python >= 3.10 strips leading blanks in literal_eval, older ones do not: not determined
    return True, val, not (text[:1] in (" ", "\t"))


def same_value(a, b):
    if type(a) is not type(b):
        return False
    if isinstance(a, (list, tuple)):
        return len(a) == len(b) and all(same_value(x, y) for x, y in zip(a, b))
    if isinstance(a, dict):
        return list(a.keys()) == list(b.keys()) and all(same_value(a[k], b[k]) for k in a)
    return a == b


FINALIZERS = {
    "none": None,
    "none_to_empty": lambda v: "" if v is None else v,
}

_ENVS = {}


def get_env(is_async, fin):
    from jinja2.nativetypes import NativeEnvironment

    key = (is_async, fin)
    if key not in _ENVS:
        kw = {"enable_async": is_async}
        if FINALIZERS[fin] is not None:
            kw["finalize"] = FINALIZERS[fin]
        _ENVS[key] = NativeEnvironment(**kw)
    return _ENVS[key]


def run_mode(mode, src, ctx, fin):
    if mode == "sync.render":
        return get_env(False, fin).from_string(src).render(**ctx)
    t = get_env(True, fin).from_string(src)
    if mode == "async.render_async":
        return asyncio.run(t.render_async(**ctx))
    return t.render(**ctx)


def check_case(ck, table, items, fin, stats, modes=("sync.render", "async.render_async", "async.render")):
    from jinja2 import Undefined

    src, ctx = build(items)
    finalize = FINALIZERS[fin]
    vals = [item_text(None, it, finalize) for it in items]
    # the abstraction of this template for the spec
    kinds = []
    for it, v in zip(items, vals):
        kinds.append({"str": isinstance(v, str), "const": bool(it["const"])})
    text = "".join(str(v) for v in vals)
    single = len(items) == 1 and not kinds[0]["str"]
    if single:
        lit, litval, determined = False, None, True
    else:
        lit, litval, determined = literalness(text)
    if not determined:
        stats["undetermined"] += 1
        return
    for mode in modes:
        key = (json.dumps(kinds, sort_keys=True), lit if not single else None, mode)
        exp = table.get(key) or table.get((key[0], False, mode))
        if exp is None:
            raise core.MachineryError(f"Native.tla printed no case for {key}")
        stats["hit"].add(key)
        case = {"kind": "native", "source": src, "context": {k: repr(v) for k, v in ctx.items()}, "mode": mode, "finalize": fin,
                "items": [{"src": it["src"], "value": repr(it["value"]) if it["value"] is not MISSING else "<missing>",
                           "str": k["str"], "const": k["const"]} for it, k in zip(items, kinds)],
                "text": text, "literal": lit, "expected": exp}
        try:
            got = run_mode(mode, src, ctx, fin)
            err = None
        except Exception as e:  # noqa
            got, err = None, e
        stats["renders"] += 1
        what = None
        if err is not None:
            what = f"raises {type(err).__name__}: {err}"
            fp_got = type(err).__name__
        else:
            k = exp["kind"]
            fp_got = "value"
            if k == "none":
                ok = got is None
            elif k == "identity":
                it = items[0]
                if it["value"] is MISSING:
                    ok = isinstance(got, Undefined)
                elif it["const"] or (finalize is not None and vals[0] is not it["value"]):
                    ok = same_value(got, vals[0])
                else:
                    ok = got is it["value"]
            elif k == "literal":
                ok = same_value(got, litval)
            else:
                ok = isinstance(got, str) and got == text  # a single Markup value is its own text
            if not ok:
                want = {"none": "None", "identity": f"the value itself ({vals[0]!r})" if items else "",
                        "literal": f"the literal {litval!r}", "text": f"the text {text!r}"}[k]
                what = f"returned {got!r} ({type(got).__name__}), documented: {want}"
        if what:
            ck.violation(case, f"NativeEnvironment {mode}{' finalize=' + fin if fin != 'none' else ''} on {src!r} with {case['context']}: {what}",
                         {"kind": "native", "mode": mode, "got": fp_got, "expected": exp["kind"],
                          "detail": ("async-generator-not-iterable" if err is not None and "'async_generator' object is not iterable" in str(err)
                                     else "unhashable" if err is not None and "unhashable" in str(err) else "-"),
                          "literal_eval_error": _lit_error(text) if not single else "-"})
        elif stats["renders"] % 701 == 0:
            ck.sample({"source": src, "context": case["context"], "mode": mode, "returned": repr(got), "rule": exp["kind"]})


def _lit_error(text):
    with warnings.catch_warnings():
        warnings.simplefilter("ignore")
        try:
            ast.literal_eval(text)
            return "none"
        except BaseException as e:  # noqa
            return type(e).__name__


# ---- sessions: sequences of renders in one process (spec/NativeSession.tla) ------------------
# TLC enumerates every session (Render(text kind) / Mutate(result of step k)) and prints the expected
# observation of each step; here each abstract session gets concrete texts, template shapes, entry
# points and environments (seeded), is run on the real code and compared step by step.

def session_cfg(max_steps, memoised=False):
    return f"""CONSTANTS
  MaxSteps = {max_steps}
  Memoised = {"TRUE" if memoised else "FALSE"}
SPECIFICATION Spec
INVARIANT TypeOK
INVARIANT C34_ValueOfOwnText
INVARIANT C34_ResultsNotShared
INVARIANT C34_TextIsText
"""


# item lists (PATTERNS notation) per text kind of the spec; n makes the text unique to its session
SESSION_TEXTS = {
    "mutable": [
        lambda n: [("T", "["), ("V", n), ("T", ", "), ("V", 2), ("T", "]")],
        lambda n: [("T", "["), ("V", n), ("T", ", "), ("S", "'a'"), ("T", "]")],
        lambda n: [("T", "["), ("V", n), ("T", "]")],
        lambda n: [("T", "{'k': "), ("V", n), ("T", "}")],
        lambda n: [("T", "{'k': ["), ("V", n), ("T", ", 2], 'j': {}}")],
        lambda n: [("T", "{ "), ("V", n), ("T", ", 2}")],
        lambda n: [("T", "(["), ("V", n), ("T", "], 2)")],
        lambda n: [("T", "[["), ("V", n), ("T", "], [2]]")],
        lambda n: [("V", n), ("T", ", ["), ("V", 2), ("T", "]")],
        lambda n: [("T", "["), ("S", str(n)), ("S", ", 3"), ("T", "]")],
    ],
    "imm": [
        lambda n: [("V", n), ("T", ", "), ("V", 2)],
        lambda n: [("T", "-"), ("V", n)],
        lambda n: [("V", n), ("T", "."), ("V", 5)],
        lambda n: [("T", "'"), ("S", "abc%d" % n), ("T", "'")],
        lambda n: [("T", "("), ("V", n), ("T", ", None)")],
    ],
    "txt": [
        lambda n: [("T", "x"), ("V", n)],
        lambda n: [("T", "["), ("V", n), ("T", ", ")],
        lambda n: [("V", n), ("T", " apples")],
        lambda n: [("T", "[x, "), ("V", n), ("T", "]")],
    ],
}
SESSION_SHAPES = ["items", "strvar", "loop", "split"]
SESSION_MODES = ["sync.render", "async.render_async", "async.render"]
_SESSION_TMPL = {}


def shape_template(rng, shape, items):
    """A template (source, JSON-able context) whose output text is the text of `items`."""
    src, ctx = build(items)
    text = "".join(str(it["value"]) for it in items)
    if shape == "items":
        return src, ctx, text
    if shape == "loop":          # another template: the text arrives in chunks from a for loop
        cuts = sorted(rng.sample(range(1, len(text)), min(len(text) - 1, rng.choice([0, 1, 2])))) if len(text) > 1 else []
        chunks = [text[a:b] for a, b in zip([0] + cuts, cuts + [len(text)])]
        return "{% for x in xs %}{{ x }}{% endfor %}", {"xs": chunks}, text
    if shape == "split" and len(text) > 1:     # template data + one str-valued expression
        i = rng.randrange(1, len(text))
        head = text[:i]
        if not any(m in head for m in ("{{", "{%", "{#")) and not head.endswith("{"):
            return head + "{{ s }}", {"s": text[i:]}, text
    return "{{ s }}", {"s": text}, text          # a single str-valued expression


def session_render(step):
    from jinja2.nativetypes import NativeEnvironment

    is_async = step["mode"] != "sync.render"
    if step["env"] == "new":
        t = NativeEnvironment(enable_async=is_async).from_string(step["src"])
    else:
        key = (is_async, step["src"])
        t = _SESSION_TMPL.get(key) if step["reuse"] else None
        if t is None:
            t = _SESSION_TMPL[key] = get_env(is_async, "none").from_string(step["src"])
    if step["mode"] == "async.render_async":
        return asyncio.run(t.render_async(**step["ctx"]))
    return t.render(**step["ctx"])


def mutables(v, acc):
    """The mutable containers reachable from a literal value: {id: object} (the objects are kept,
    so that an id stays theirs for the whole session even after a caller cleared the container)."""
    if isinstance(v, (list, tuple)):
        if isinstance(v, list):
            acc[id(v)] = v
        for x in v:
            mutables(x, acc)
    elif isinstance(v, dict):
        acc[id(v)] = v
        for x in v.values():
            mutables(x, acc)
    elif isinstance(v, set):
        acc[id(v)] = v
    return acc


def mutate(v, style):
    """What a caller may do with a value it was given: change every mutable container in place."""
    if isinstance(v, (list, tuple)):
        for x in v:
            mutate(x, style)
        if isinstance(v, list):
            if style == "clear" and v:
                v.clear()
            else:
                v.append("<changed>")
    elif isinstance(v, dict):
        for x in v.values():
            mutate(x, style)
        if style == "clear" and v:
            v.clear()
        else:
            v["<changed>"] = 1
    elif isinstance(v, set):
        if style == "clear" and v:
            v.clear()
        else:
            v.add("<changed>")


def concretise(rng, session, n):
    """Concrete steps for an abstract session printed by TLC (n: a number unique to this session)."""
    pools = {"m1": ("mutable", 2 * n + 10), "m2": ("mutable", 2 * n + 11), "imm": ("imm", n + 3), "txt": ("txt", n + 3)}
    chosen = {t: rng.choice(SESSION_TEXTS[k])(num) for t, (k, num) in pools.items()}
    steps = []
    for st in session:
        if st["op"] == "mutate":
            steps.append({"op": "mutate", "of": st["of"], "style": rng.choice(["grow", "clear"])})
            continue
        src, ctx, text = shape_template(rng, rng.choice(SESSION_SHAPES), pattern_items(chosen[st["text"]]))
        steps.append({"op": "render", "src": src, "ctx": ctx, "text": text, "mode": rng.choice(SESSION_MODES),
                      "env": rng.choice(["shared", "shared", "new"]), "reuse": rng.random() < 0.5,
                      "abstract": st["text"], "expected": {"kind": st["kind"], "obj": st["obj"], "pristine": st["pristine"]}})
    return steps


def run_session(steps, stats=None):
    """Run the steps on the real code; None if every step is as TLC printed it, else
    (step number, what, tag)."""
    results = {}
    for k, st in enumerate(steps, 1):
        if st["op"] == "mutate":
            mutate(results[st["of"]][0], st["style"])
            continue
        exp = st["expected"]
        lit, litval, determined = literalness(st["text"])
        if not determined or lit != (exp["kind"] == "literal") or not exp["pristine"]:
            raise core.MachineryError(f"session text {st['text']!r} does not fit the spec's text kind {st['abstract']}")
        try:
            got = session_render(st)
        except Exception as e:  # noqa
            return k, f"raises {type(e).__name__}: {e}", type(e).__name__
        if stats is not None:
            stats["renders"] += 1
        if exp["kind"] == "text":
            if not (isinstance(got, str) and got == st["text"]):
                return k, f"returned {got!r} ({type(got).__name__}), documented: the text {st['text']!r}", "value"
        else:
            if not same_value(got, litval):
                changed = [j for j, (r, _) in results.items() if r is got]
                return (k, f"returned {got!r} ({type(got).__name__}), documented: the literal value {litval!r} of its own text {st['text']!r}"
                        + (f" (it is the object returned by step {changed[0]}, which the caller changed meanwhile)" if changed else ""), "stale")
            mine = mutables(got, {})
            for j, (r, ids) in results.items():
                if steps[j - 1]["expected"]["obj"] != exp["obj"] and mine.keys() & ids.keys():
                    return (k, f"returned {got!r}, which shares a mutable object with the value returned by step {j}: "
                            "a later change by either caller shows in the other's value", "shared")
            results[k] = (got, mine)
    return None


def show_session(steps, upto):
    out = []
    for k, st in enumerate(steps[:upto], 1):
        if st["op"] == "mutate":
            out.append(f"{k}: caller changes the value of step {st['of']} in place ({st['style']})")
        else:
            out.append(f"{k}: {st['mode']} ({st['env']} environment) of {st['src']!r} with {st['ctx']!r}")
    return "; ".join(out)


def check_sessions(ck, r, variants, stats):
    sessions = sorted({ln for ln in r.printed() if ln.startswith('{"session"')})
    if len(sessions) < 50:
        raise core.MachineryError("NativeSession.tla printed too few sessions")
    rng = random.Random(ck.seed * 7919 + 17)
    n = 0
    for ln in sessions:
        session = json.loads(ln)["session"]
        for _ in range(variants):
            n += 1
            steps = concretise(rng, session, n)
            bad = run_session(steps, stats)
            stats["sessions"] += 1
            if bad:
                k, what, tag = bad
                st = steps[k - 1]
                ck.violation({"kind": "native-session", "steps": steps, "failed_step": k},
                             f"NativeEnvironment, sequence of renders in one process [{show_session(steps, k)}]: step {k} {what}",
                             {"kind": "native-session", "mode": st["mode"], "got": tag, "expected": st["expected"]["kind"]})
            elif stats["sessions"] % 397 == 0:
                ck.sample({"session": show_session(steps, len(steps)), "held": True})
        if len(ck.violations) > 200:
            break
    return len(sessions)


def load_table(r):
    table = {}
    for line in set(r.printed()):
        rec = json.loads(line)
        kinds = json.dumps([{"str": i["str"], "const": i["const"]} for i in rec["items"]], sort_keys=True)
        single = len(rec["items"]) == 1 and not rec["items"][0]["str"]
        table[(kinds, None if single else rec["lit"], rec["mode"])] = rec["expected"]
        if single:
            table[(kinds, False, rec["mode"])] = rec["expected"]
    return table


def run(ck):
    load_local_findings(ck)
    quick = ck.tier == "quick"
    max_items = 4 if quick else 6
    max_steps = 4 if quick else 6
    bg = ThreadPoolExecutor(max_workers=2)
    f_sess = bg.submit(core.run_tlc, PID, "NativeSession", session_cfg(max_steps), name="session", coverage=True, workers=1, timeout=3000)
    f_memo = bg.submit(core.run_tlc, PID, "NativeSession", session_cfg(3, memoised=True), name="session-memoised", workers=1,
                       args=["-continue"])
    r = core.run_tlc(PID, "Native", cfg(max_items), name="native", coverage=quick, workers=4, timeout=3000)
    ck.add_tlc(r, f"Native: all item sequences <= {max_items}")
    if quick:
        ck.require_coverage(r, ["Render", "Peek", "ReturnNone", "ReturnSingle", "SingleText", "JoinAll", "Parse", "Report"])
    if not r.ok:
        return
    table = load_table(r)
    if len(table) < 100:
        raise core.MachineryError("Native.tla printed too few cases")
    # the pinned shape of NativeTemplate.render (iterating the async generator) in the model
    r0 = core.run_tlc(PID, "Native", cfg(1, delegates=False), name="native-pinned", workers=1)
    ck.tlc_runs.append({"spec": "Native: render of an async environment without delegation (shape of the pinned tree)",
                        "distinct_states": r0.distinct, "states_generated": r0.generated, "depth": r0.depth, "wall_s": round(r0.wall, 2)})
    ck.extra["model_without_delegation_violates"] = r0.invariant_violated
    if "C34_AllEntryPointsAgree" not in r0.invariant_violated:
        raise core.MachineryError("Native.tla: the non-delegating render model should violate C34_AllEntryPointsAgree")

    rng = random.Random(ck.seed)
    stats = {"renders": 0, "undetermined": 0, "hit": set()}
    cases = [pattern_items(p) for p in PATTERNS]
    n_random = 250 if quick else 4000
    kinds_all = [(s, c) for s in (True, False) for c in (True, False)]
    for _ in range(n_random):
        n = rng.choice([0, 1, 1, 2, 2, 3, 3, 3, 4] if quick else [0, 1, 1, 2, 2, 3, 3, 4, 5, 6])
        n = min(n, max_items)
        items = [make_item(rng, rng.choice(kinds_all)) for _ in range(n)]
        # keep `{{` / `{%` from forming across pieces
        src, _ = build(items)
        if "{{{" in src or "{%" in src or "{#" in src or "}}}" in src:
            continue
        cases.append(items)
    for items in cases:
        if len(items) > max_items:
            continue
        check_case(ck, table, items, "none", stats)
        if any(it["value"] is None for it in items):
            check_case(ck, table, items, "none_to_empty", stats)
        if len(ck.violations) > 200:
            break
    # sequences of renders in one process: what a render returns is the value of its own text
    rs, rm = f_sess.result(), f_memo.result()
    bg.shutdown()
    ck.add_tlc(rs, f"NativeSession: all sessions of {max_steps} steps (render / caller mutates a returned value)")
    ck.require_coverage(rs, ["Render", "Mutate", "Report"])
    ck.tlc_runs.append({"spec": "NativeSession: parse results memoised per text (negative control)",
                        "distinct_states": rm.distinct, "states_generated": rm.generated, "depth": rm.depth, "wall_s": round(rm.wall, 2)})
    ck.extra["model_with_memoised_parse_violates"] = sorted(set(rm.invariant_violated))
    if not {"C34_ValueOfOwnText", "C34_ResultsNotShared"} <= set(rm.invariant_violated):
        raise core.MachineryError("NativeSession.tla: the memoising model should violate C34_ValueOfOwnText and C34_ResultsNotShared")
    if rs.ok:
        stats.update({"sessions": 0})
        ck.extra["abstract_sessions_printed_by_tlc"] = check_sessions(ck, rs, 3 if quick else 2, stats)
        ck.extra["sessions_run"] = stats["sessions"]
    ck.traces += stats["renders"]
    ck.evaluations += stats["renders"]
    ck.exhaustive = False
    ck.extra["templates"] = len(cases)
    ck.extra["renders"] = stats["renders"]
    ck.extra["abstract_cases_printed_by_tlc"] = len(table)
    ck.extra["abstract_cases_exercised"] = len(stats["hit"])
    ck.extra["undetermined_skipped"] = stats["undetermined"]
    ck.extra["excluded_shapes"] = [
        "joined text that starts with a blank or tab and is a literal once stripped (ast.literal_eval strips it on Python >= 3.10, "
        "older Pythons and native_concat do not: the oracle is version dependent)",
        "constants folded to non-finite floats ({{ 1e309 }}: C14 finding F14a)",
        "autoescape in a native environment, template inheritance / includes / macros as output items",
        "values whose str() raises or is not deterministic (generators, default object repr are used only as single items)",
    ]
    ck.assumptions += ["ast.literal_eval decides whether a text is a Python literal and what its value is (the property defers to Python)",
                       "constants with a safe repr read back from their own str() (the folding of a single constant item is invisible)"]


def replay(ck, rec):
    load_local_findings(ck)
    c = rec["case"]
    if c.get("kind") == "native-session":
        bad = run_session(c["steps"])
        if bad:
            k, what, _ = bad
            ck.violation(c, f"still: [{show_session(c['steps'], k)}]: step {k} {what}", rec.get("fingerprint"))
        return
    ctx = {}
    for k, v in c["context"].items():
        try:
            ctx[k] = ast.literal_eval(v)
        except Exception:  # noqa
            ctx[k] = Five() if "Five" in v else Foo(15)
    try:
        got = run_mode(c["mode"], c["source"], ctx, c["finalize"])
        err = None
    except Exception as e:  # noqa
        got, err = None, e
    exp = c["expected"]["kind"]
    lit, litval, _ = literalness(c["text"])
    ok = err is None and ((exp == "none" and got is None) or (exp == "text" and got == c["text"] and isinstance(got, str))
                          or (exp == "literal" and same_value(got, litval)) or exp == "identity")
    if not ok:
        shown = repr(err) if err is not None else repr(got)
        ck.violation(c, f"still: {c['mode']} on {c['source']!r} -> {shown}", rec.get("fingerprint"))
