"""C15 binding (b): every built-in filter, operator and string method with data-controlled
arguments, rendered under autoescaping; the output is validated by TLC against the HtmlScan
automaton (spec/LeakScan.tla).  No semantic prediction is involved: template text is free of
HTML metacharacters and all plain data / literals consist of them, so any raw < > " ' that
is not part of the anchor / attribute markup urlize and xmlattr are documented to emit is a
leak.  Renders that raise are not judged (an error is not a leak)."""
from __future__ import annotations

import itertools
import json
import random
from concurrent.futures import ProcessPoolExecutor

from .. import core

S1 = "<&'\">"
S2 = "\"><b>'x&"

ARGS = {
    "attr": ["('upper')"], "batch": ["(1)", "(2, s)"], "center": ["(9)"], "d": ["(s)", "(s, true)"], "default": ["(s)", "(s2, true)"],
    "dictsort": ["", "(false, 'value')"], "filesizeformat": [""], "format": ["(s)", "(s, s2)", "(a=s)"], "groupby": ["(0)", "('x', default=s)"],
    "indent": ["", "(2)", "(s)", "(s, true)", "(s2, true, true)"], "int": ["(s)"], "float": ["(s)"], "join": ["", "(s)", "(s2)"],
    "map": ["('upper')", "('default', s)", "('replace', 'q', s)", "(attribute='x', default=s)"], "max": [""], "min": [""],
    "reject": ["('none')"], "select": ["('string')"], "rejectattr": ["('x')"], "selectattr": ["('x')"],
    "replace": ["('q', s)", "(s, s2)", "('<', s2)", "('a', s, 1)"], "round": [""], "slice": ["(2)", "(2, s)"], "sort": ["", "(true)"],
    "sum": ["(start=s)"], "trim": ["", "(s)"], "truncate": ["(3)", "(3, true)", "(2, true, s)", "(4, false, s2, 0)"],
    "unique": [""], "urlize": ["", "(5)", "(5, true)", "(target=s)", "(rel=s2)", "(none, false, s, s2)", "(extra_schemes=[s])"],
    "wordwrap": ["(3)", "(2, true, s)", "(3, false, s2)"], "xmlattr": ["", "(false)"], "random": [""],
}
SKIP = {"safe", "tojson"}      # explicit safe marking; tojson emits JSON quotes by documentation (covered by C24)
SUBJECTS = ["s", "s2", "L", "D", "m", "n", "LL", "url", "u", "O", "(s|e)", "fr"]


def programs(rnd, filters, tier):
    progs = []
    def add(src, mode="html", tag=""):
        progs.append({"id": len(progs) + 1, "src": src, "mode": mode, "tag": tag})
    for f in sorted(filters):
        if f in SKIP:
            continue
        for a in ARGS.get(f, [""]):
            for subj in SUBJECTS:
                if f == "xmlattr":
                    if subj in ("D", "DD"):
                        add("{{ " + f"{subj}|{f}{a}" + " }}", "attrs", f)
                    continue
                e = f"{subj}|{f}{a}"
                add("{{ " + e + " }}", tag=f)
                add("{% for x in " + e + " %}[{{ x }}]{% endfor %}", tag=f)
                add("{{ " + e + "|join(s) }}", tag=f)
                add("{{ (" + e + ")|string }}{{ " + e + "|list }}", tag=f)
                if subj in ("s", "L") or tier != "quick":
                    add("{% filter " + f + a + " %}t{{ " + subj + " }}u{% endfilter %}", tag="filterblock:" + f)
                    add("{% set v | " + f + a + " %}t{{ " + subj + " }}u{% endset %}{{ v }}", tag="setblockfilter:" + f)
                if tier != "quick":
                    add("{% set v = " + e + " %}{{ v }}", tag=f)
                    add("{{ m ~ (" + e + ") }}{{ (" + e + ") ~ m }}", tag=f)
    # chains of two filters
    names = [f for f in sorted(filters) if f not in SKIP and f != "xmlattr"]
    for _ in range(400 if tier == "quick" else 6000):
        f1, f2 = rnd.choice(names), rnd.choice(names)
        a1, a2 = rnd.choice(ARGS.get(f1, [""])), rnd.choice(ARGS.get(f2, [""]))
        if f1 == "urlize" and f2 == "trim" and a2:
            # trim(chars) strips the anchor's own delimiters: what remains is urlize's markup without its brackets,
            # whose attribute quotes the scanner cannot tell from leaked ones (no data character is involved)
            continue
        add("{{ " + f"{rnd.choice(SUBJECTS)}|{f1}{a1}|{f2}{a2}" + " }}", tag=f"{f1}|{f2}")
    # operators, string methods, format strings
    ops = ["['<b>\\'\"']", "{'k': '<v>\"'}", "('<a>',)", "'<b>'|list", "'a<b'|batch(2)|list", "['<c>'] if true", "[['<d>']]", "{'<k>': 1}",
           "fr|striptags", "(s|e)|striptags", "(s ~ m)|striptags", "mm2(s)|striptags", "fr|striptags|safe is string and fr",
           "s + s2", "s ~ s2", "m ~ s", "s ~ m", "m + s", "s + m", "s * 2", "m * 2", "s % s2", "'%s' % s", "m % s", "'%s'|format(s)",
           "s.upper()", "s.replace('<', s2)", "s.format()", "'{}'.format(s)", "'{0}{x}'.format(s, x=s2)", "m.format(s)", "s.join(L)",
           "m.join(L)", "s.center(9)", "s.split('&')", "s.strip('<')", "s[1:]", "s[0]", "L[0]", "D[s] if s in D else s", "(s, s2)",
           "[s, m]", "{'k': s}", "s if u else s2", "s2 if s else u", "s and s2", "u or s", "s|e|e", "s|string|e", "L|map('e')|join(s)",
           "L|join(m)", "[m, s]|join('')", "[m, s]|join(s2)", "namespace(x=s).x", "dict(x=s).x", "dict(x=s)", "cycler(s, s2).next()",
           "joiner(s)() ~ joiner(s)()", "lipsum(1, false, 2, 3) and s", "range(2)|map('string')|join(s)", "s|e ~ s", "O.x", "O['x']", "O"]
    for o in ops:
        add("{{ " + o + " }}", tag="op")
        add("{% set v %}{{ " + o + " }}{% endset %}{{ v }}|{{ v|upper if v is string else v }}", tag="op/setblock")
        add("{% macro mm(a, b=s) %}{{ a }}{{ b }}{{ caller() if caller else '' }}{% endmacro %}{{ mm(" + o + ") }}{% call mm(s2) %}{{ " + o + " }}{% endcall %}", tag="op/macro")
    for i, p in enumerate(progs):
        # `fr` is a fragment that became safe by escaping (a set block), mm2 a macro returning escaped data
        if "fr" in p["src"] or "mm2" in p["src"]:
            p["src"] = "{% set fr %}{{ s }}{% endset %}{% macro mm2(a) %}{{ a }}{% endmacro %}" + p["src"]
    add("{% for k, v in D|items %}{{ k }}={{ v }};{% endfor %}{% for k in D %}{{ k }}{{ D[k] }}{% endfor %}", tag="items")
    add("{{ loopdata }}{% for x in L %}{{ loop.previtem }}{{ loop.nextitem }}{{ loop.cycle(s, s2) }}{{ loop.changed(x) }}{% endfor %}", tag="loop")
    add("{% with a=s, b=s2 %}{{ a }}{{ b }}{% endwith %}{% autoescape true %}{{ s }}{% endautoescape %}", tag="with")
    return progs


def _render(args):
    core.use_repo()
    import jinja2
    from markupsafe import Markup
    chunk, = args,
    env = jinja2.Environment(autoescape=True, extensions=["jinja2.ext.do", "jinja2.ext.loopcontrols"])

    class O:
        x = S1
        def __getitem__(self, k):
            if k == "x":
                return S2
            raise KeyError(k)
        def __str__(self): return S1
    data = dict(s=S1, s2=S2, L=[S1, S2, "q<q"], D={S1: S2, "k": S1}, m=Markup("ok"), n=3, LL=[[S1], [S2, S1]],
                url="http://a.example/?q=" + S1 + " www.x.org/" + S2 + " mailto:a@b.org" + S1, O=O(), loopdata=S1)
    out = []
    for p in chunk:
        try:
            text = env.from_string(p["src"]).render(**data)
        except Exception as e:  # noqa
            out.append((p["id"], None, type(e).__name__))
            continue
        out.append((p["id"], text, ""))
    return out


def run(ck):
    core.use_repo()
    import jinja2
    rnd = random.Random(ck.seed + 1515)
    progs = programs(rnd, jinja2.Environment().filters, ck.tier)
    pmap = {p["id"]: p for p in progs}
    rendered, errors = [], 0
    with ProcessPoolExecutor(max_workers=16) as ex:
        for res in ex.map(_render, list(core.chunks(progs, 200))):
            for pid, text, err in res:
                if text is None:
                    errors += 1
                    continue
                if any(ord(c) > 126 or (ord(c) < 32 and c not in "\n\t\r") for c in text):
                    continue
                rendered.append({"id": pid, "mode": pmap[pid]["mode"], "out": [ord(c) for c in text], "text": text})
    leaks = []
    nstates = 0
    for bi, batch in enumerate(core.chunks(rendered, 5000)):
        d = core.workdir("C15", f"scan{bi}")
        f = d / "recs.json"
        f.write_text(json.dumps([{"id": r["id"], "mode": r["mode"], "out": r["out"]} for r in batch]))
        r = core.run_tlc("C15", "LeakScan", "SPECIFICATION Spec\n", env={"TRACE_FILE": str(f)}, name=f"scan{bi}_tlc", timeout=1800, heap="6g")
        ck.add_tlc(r, f"LeakScan.tla batch {bi} ({len(batch)} rendered outputs)")
        verdicts = {}
        for line in set(r.printed()):
            try:
                o = json.loads(line)
                verdicts[o["id"]] = o["verdict"]
            except Exception:  # noqa
                pass
        for rec in batch:
            v = verdicts.get(rec["id"])
            if v is None:
                raise core.MachineryError(f"LeakScan gave no verdict for record {rec['id']}")
            if v != "ok":
                leaks.append(rec)
    for rec in leaks:
        p = pmap[rec["id"]]
        ck.violation({"kind": "scan", "src": p["src"], "mode": p["mode"], "out": rec["text"]},
                     f"unescaped markup reaches the output: {p['src']!r} -> {rec['text']!r:.200}",
                     {"kind": "scan-leak", "filter": p["tag"], "shape": "filterblock" if p["tag"].startswith("filterblock:") else
                               "setblockfilter" if p["tag"].startswith("setblockfilter:") else "expression"})
    ck.traces += len(rendered)
    ck.evaluations += len(progs)
    ck.extra["scan_programs"] = len(progs)
    ck.extra["scan_outputs_validated"] = len(rendered)
    ck.extra["scan_programs_that_raised"] = errors
    ck.extra.setdefault("excluded_shapes", []).extend(["|safe (explicit marking)", "|tojson (documented to emit JSON quotes; see C24)",
                                                         "Markup data containing metacharacters (already marked safe by the application)",
                                                         "urlize followed by trim(chars) (the anchor markup itself is cut)"])
    if rendered:
        ck.sample({"scan_program": pmap[rendered[0]["id"]]["src"], "output": rendered[0]["text"][:120]})


def replay(ck, rec):
    c = rec["case"]
    res = _render([{"id": 1, "src": c["src"], "mode": c["mode"]}])
    print("replay output:", res)
    raise core.MachineryError("scan replays are re-judged by the full check (./check C15)")
