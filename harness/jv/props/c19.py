"""C19 - the immutable sandbox never modifies list, dict, set or deque data.

Specs: spec/SandboxData.tla (meaning of every public container method, from
which TLC derives Mutators(kind)), spec/SandboxRules.tla (abstract gate rule +
transcription of sandbox.py), spec/SandboxGate.tla (state machine, invariants
C19_DataUnchanged / C19_GateCoversMutators), spec/SandboxTable.tla (the real
verdict matrix checked by TLC), spec/SandboxTrace.tla (trace validation).

Binding
  1. spec->code: every (kind, method, state, args) case of SandboxData is
     replayed on real CPython containers (the ground truth "which methods
     mutate" is tied to the running interpreter).
  2. code->spec: modifies_known_mutable's verdict for every (kind, public name
     from dir()) is handed to TLC, which lists the mutators the real gate lets
     through (C19_GateCoversMutators on the real code).
  3. code->spec: templates that reach every public method along many routes
     (and every built-in filter with container data / arguments) are rendered
     in a logging ImmutableSandboxedEnvironment, sync and async; gate verdicts
     and the deep comparison of the context containers are validated as traces
     by TLC.
"""
from __future__ import annotations

import collections
import copy
import json
import random
from concurrent.futures import ProcessPoolExecutor

from .. import core
from .. import sandbox_util as su

PID = "C19"
TYPES = {"list": list, "dict": dict, "set": set, "deque": collections.deque}


# ---------------------------------------------------------------------------
# 1. the semantics of the containers, replayed on CPython
# ---------------------------------------------------------------------------

def build(kind, s):
    if kind == "dict":
        return {k: v for k, v in s}
    if kind == "set":
        return set(s)
    if kind == "deque":
        return collections.deque(s)
    return list(s)


def enc(kind, c):
    if kind == "dict":
        return sorted([k, v] for k, v in c.items())
    if kind == "set":
        return sorted(c)
    return list(c)


def conv(tag, x):
    if tag == "set":
        return set(x)
    if tag == "dict":
        return {k: v for k, v in x}
    if tag == "seq":
        return list(x)
    return x


def norm_state(kind, s):
    if kind == "dict":
        return sorted([k, v] for k, v in s)
    if kind == "set":
        return sorted(s)
    return list(s)


def public_names():
    return {k: [n for n in dir(t) if not n.startswith("_")] for k, t in TYPES.items()}


def semantics_and_table(ck):
    """One TLC run (SandboxTable): exports every case of the container semantics for
    replay on CPython, and evaluates C19_GateCoversMutators on the verdict matrix of
    the real modifies_known_mutable."""
    from jinja2.sandbox import modifies_known_mutable

    pub = public_names()
    names = sorted({n for v in pub.values() for n in v})
    obs = {k: {n: bool(modifies_known_mutable(t(), n)) for n in names} for k, t in TYPES.items()}
    d = core.workdir(PID, "table_in")
    f = d / "obs.json"
    f.write_text(json.dumps({"obs": obs, "dir": pub}))
    r = core.run_tlc(PID, "SandboxTable",
                     "SPECIFICATION Spec\nINVARIANT C19_ClassificationSound\nINVARIANT C19_OperationalLookupExact\n",
                     workers=4, env={"OBS_FILE": str(f)}, name="table", timeout=1200)
    ck.add_tlc(r, "SandboxTable: container semantics + C19_GateCoversMutators on the real verdict matrix")
    cases, rep = [], None
    for line in sorted(set(r.printed())):
        j = json.loads(line)
        if "uncovered" in j:
            rep = j
        elif "k" in j:
            cases.append(j)
    if rep is None or not cases:
        raise core.MachineryError("SandboxTable printed no report / no cases")
    # -- 1. spec->code: the semantics of the containers on CPython
    n = 0
    for c in cases:
        kind, m = c["k"], c["m"]
        if not hasattr(TYPES[kind], m):
            ck.extra.setdefault("methods_absent_on_this_python", []).append([kind, m])
            continue
        obj = build(kind, c["s"])
        args = [conv(t, x) for t, x in zip(c["tags"], c["a"])]
        try:
            fn = getattr(obj, m)
            if callable(fn):
                fn(*args)
        except (IndexError, KeyError, ValueError):
            pass
        got = enc(kind, obj)
        allowed = [norm_state(kind, x) for x in c["r"]]
        n += 1
        if got not in allowed:
            # the model of Python's containers is wrong: a defect of the specification
            raise core.MachineryError(
                f"SandboxData disagrees with CPython: {kind}({c['s']}).{m}({c['a']}) left {got}, spec allows {allowed}")
    ck.extra["container_semantics_cases_replayed_on_cpython"] = n
    ck.traces += n
    ck.evaluations += n
    ck.extra["mutators_by_semantics"] = {k: sorted(v) for k, v in rep["mutators"].items()}
    # -- 2. code->spec: the verdict matrix
    ck.evaluations += sum(len(v) for v in obs.values())
    ck.extra["gate_overblocks_non_mutators"] = rep["overblocked"]
    ck.extra["python_names_not_classified_by_spec"] = rep["unclassified"]
    ck.extra["uncovered_by_legacy_first_match_lookup"] = rep["legacy_uncovered"]
    ck.extra["transcribed_lookup_uncovered"] = rep["op_uncovered"]
    if rep["drift"]:
        ck.extra.setdefault("drift", []).append(
            {"what": "SandboxRules.OpModifies (transcription of _mutable_spec) differs from the real "
                     "modifies_known_mutable", "pairs": rep["drift"]})
    for kind, m in rep["uncovered"]:
        ck.violation({"kind": "table", "container": kind, "method": m},
                     f"modifies_known_mutable({kind}(), {m!r}) is False although {kind}.{m} modifies the container "
                     f"(immutable sandbox hands the method out)",
                     {"kind": "mutator-not-gated", "container": kind, "method": m})
    return cases


# ---------------------------------------------------------------------------
# design model
# ---------------------------------------------------------------------------

KINDS = ["list", "dict", "set", "deque"]


def design_model(ck):
    quick = ck.tier == "quick"
    r = su.gate_model(PID, "gate_model", [su.conf_tla("immutable", "abstract"), su.conf_tla("immutable", "operational")],
                      1 if quick else 2, KINDS, [],
                      ["TypeOK", "C19_DataUnchanged", "C19_GateCoversMutators", "C17_NoTaintedUse"],
                      coverage=quick, timeout=3000)
    ck.add_tlc(r, "SandboxGate immutable: abstract gate and transcription of sandbox.py")
    if quick:
        su.require_cov(ck, r, ["MFetch", "Gate", "Deliver", "DeliverUndefined", "MCallGate", "MRun", "MUse"])
        return
    # the lookup shipped before f0317ed (first matching ABC row decides): TLC must exhibit the defect
    r = su.gate_model(PID, "gate_legacy", [su.conf_tla("immutable", "legacy")], 1, KINDS, [],
                      ["C19_DataUnchanged"], timeout=3000)
    ck.add_tlc(r, "SandboxGate immutable, pre-fix first-match lookup (counter-example expected: F8/F9)", expect_ok=False)
    ck.extra["TLC_exhibits_design_defect_of_first_match_lookup"] = bool(r.invariant_violated)
    if not r.invariant_violated:
        raise core.MachineryError("self-test failed: the legacy first-match lookup showed no counter-example")


# ---------------------------------------------------------------------------
# 3. templates on the real engine
# ---------------------------------------------------------------------------

ROUTES = {
    "direct": "{{ c.%(m)s(%(args)s) }}",
    "subscript": "{{ c['%(m)s'](%(args)s) }}",
    "alias_set": "{%% set f = c.%(m)s %%}{{ f(%(args)s) }}",
    "alias_with": "{%% with f = c.%(m)s %%}{{ f(%(args)s) }}{%% endwith %%}",
    "attr_filter": "{{ (c|attr('%(m)s'))(%(args)s) }}",
    "stored_list": "{%% set fs = [c.%(m)s] %%}{{ fs[0](%(args)s) }}",
    "stored_dict": "{%% set fs = {'f': c.%(m)s} %%}{{ fs.f(%(args)s) }}",
    "map_attr": "{{ ([c]|map(attribute='%(m)s')|first)(%(args)s) }}",
    "macro_param": "{%% macro call(f) %%}{{ f(%(args)s) }}{%% endmacro %%}{{ call(c.%(m)s) }}",
    "loop_var": "{%% for x in [c] %%}{{ x.%(m)s(%(args)s) }}{%% endfor %%}",
    "nested": "{{ box.inner.%(m)s(%(args)s) }}",
    "format_field": "{{ '{0.%(m)s}'.format(c) }}{{ '{x.%(m)s}'.format_map({'x': c}) }}",
    "filter_arg": "{{ 1|default(c.%(m)s(%(args)s)) }}",
    "test_arg": "{{ 1 is eq(c.%(m)s(%(args)s)) }}",
    "cond": "{{ c.%(m)s(%(args)s) if true else 0 }}",
}
AUTOESCAPE_ROUTES = ["attr_filter", "map_attr", "format_field"]
QUICK_ROUTES = ["direct", "subscript", "alias_set", "attr_filter", "stored_list", "map_attr", "macro_param",
                "format_field"]


def shape(x):
    """Projection used by the deep comparison: the value together with the exact type of every
    element, so that a list whose 1 became '1', True or 1.0 differs from its copy (dict / set
    order is not part of it)."""
    if isinstance(x, dict):
        return (type(x).__name__, sorted(((shape(k), shape(v)) for k, v in x.items()), key=repr))
    if isinstance(x, (set, frozenset)):
        return (type(x).__name__, sorted((shape(y) for y in x), key=repr))
    if isinstance(x, (list, tuple, collections.deque)):
        return (type(x).__name__, [shape(y) for y in x])
    return (type(x).__name__, x)


def same(a, b):
    return type(a) is type(b) and a == b and shape(a) == shape(b)


def changed_events(rec, before, after):
    for name in sorted(before):
        if not same(before[name], after[name]):
            rec.emit("changed", k=su.kind_of(after[name]), s=name)


def method_case(case):
    """Render one (container, method, args, route, mode) case; returns the trace."""
    core.use_repo()
    kind, m, s, tags, a, route, is_async = case[:7]
    autoescape = bool(case[7]) if len(case) > 7 else False
    rec = su.Recorder()
    env = su.make_env(rec, immutable=True, enable_async=is_async, autoescape=autoescape)
    c = build(kind, s)
    ctx = {"c": c, "box": {"inner": c}}
    for i, (t, x) in enumerate(zip(tags, a)):
        ctx[f"a{i}"] = conv(t, x)
    before = copy.deepcopy(ctx)
    src = ROUTES[route] % {"m": m, "args": ", ".join(f"a{i}" for i in range(len(a)))}
    outcome, _ = su.render(env, src, ctx, is_async)
    changed_events(rec, before, ctx)
    rec.emit("end", s=outcome)
    return {"env": "immutable", "policy": "default", "path": [], "callables": [], "ev": rec.ev,
            "cfg": {"async": is_async, "autoescape": autoescape},
            "src": src, "case": [kind, m, s, tags, a, route, is_async, autoescape]}


def method_sweep(ck, cases):
    quick = ck.tier == "quick"
    rnd = random.Random(ck.seed)
    pub = public_names()
    by = {}
    for c in cases:
        by.setdefault((c["k"], c["m"]), []).append(c)
    jobs = []
    for kind, names in pub.items():
        for m in names:
            cs = by.get((kind, m))
            if cs is None:      # a public name the semantics does not know: call it without arguments
                cs = [{"k": kind, "m": m, "s": [], "tags": [], "a": []}]
            # the state/argument combinations come from the specification's enumeration
            cs = sorted(cs, key=lambda c: json.dumps(c, sort_keys=True))
            effective = [c for c in cs if [norm_state(kind, x) for x in c["r"]] != [norm_state(kind, c["s"])]] \
                if "r" in cs[0] else []
            if quick:
                pick = (rnd.sample(effective, min(1, len(effective))) or []) + rnd.sample(cs, min(1, len(cs)))
                routes = QUICK_ROUTES
            else:
                pick = cs
                routes = list(ROUTES)
            for c in pick:
                for route in routes:
                    if route == "nested" and kind == "set":
                        pass
                    for is_async in ((False, True) if (not quick or route in ("direct", "alias_set")) else (False,)):
                        jobs.append((kind, m, c["s"], c["tags"], c["a"], route, is_async, False))
                    # the routes that run through filter / format code with an autoescape branch
                    if route in AUTOESCAPE_ROUTES or not quick:
                        jobs.append((kind, m, c["s"], c["tags"], c["a"], route, False, True))
    if len(jobs) > 3000:
        with ProcessPoolExecutor(max_workers=12) as ex:
            traces = list(ex.map(method_case, jobs, chunksize=200))
    else:
        traces = [method_case(j) for j in jobs]
    ck.extra["method_route_cases"] = len(traces)
    ck.extra["routes"] = sorted(set(j[5] for j in jobs))
    gated = sum(1 for t in traces for e in t["ev"] if e["e"] == "gate")
    if gated < len(traces) // 2:
        raise core.MachineryError("method sweep: gate events missing (logging environment not attached?)")
    ck.traces += len(traces)
    ck.evaluations += len(traces)
    for t in traces[:2]:
        ck.sample({"template": t["src"], "container": t["case"][:3], "events": [e["e"] for e in t["ev"]]})
    return traces


def report_method(ck, traces, rejected):
    for idx, stuck in rejected:
        t = traces[idx]
        kind, m, s, tags, a, route, is_async, autoescape = t["case"]
        ev = t["ev"][stuck - 1] if stuck else {"e": "?"}
        what = (f"immutable sandbox ({'async' if is_async else 'sync'}{', autoescape' if autoescape else ''}): "
                f"`{t['src']}` with c = {kind}({s}), args {a}: "
                + ("the gate handed out a mutating method" if ev["e"] in ("gate", "deliver")
                   else f"container data changed ({ev.get('s')})" if ev["e"] == "changed"
                   else f"event {ev} is not allowed by SandboxGate"))
        ck.violation({"kind": "method", "case": t["case"], "src": t["src"], "events": t["ev"], "stuck": stuck},
                     what,
                     {"kind": "mutator-not-gated" if ev["e"] in ("gate", "deliver") else "data-changed",
                      "container": kind, "method": m, "route": route})


# -- filters -----------------------------------------------------------------------

FILTER_SPECIFIC = {
    "sum": ["{{ lol|sum(start=lst) }}", "{{ lol|sum(start=lol[0]) }}", "{{ lod|sum(attribute='k1', start=0) }}",
            "{{ lol|sum(start=[]) }}", "{{ [lst, lst]|sum(start=lst) }}"],
    "default": ["{{ undefined_name|default(lst) }}", "{{ none|default(dct, true) }}", "{{ lst|default(st) }}"],
    "batch": ["{{ lst|batch(3, fill_with=lst)|list }}", "{{ dq|batch(1, lol)|list }}"],
    "slice": ["{{ lst|slice(3, lst)|list }}", "{{ dq|slice(2, fill_with=dct)|list }}"],
    "map": ["{{ lol|map('list')|list }}", "{{ lod|map(attribute='k1')|list }}", "{{ lol|map('sort')|list }}",
            "{{ lol|map('reverse')|map('list')|list }}", "{{ lod|map('dictsort')|list }}",
            "{{ lol|map('sum', start=lst)|list }}", "{{ lod|map(attribute='zz', default=lst)|list }}",
            "{{ lol|map('first')|list }}", "{{ lol|map('attr', 'append')|list }}"],
    "sort": ["{{ lst|sort }}", "{{ lst|sort(reverse=true) }}", "{{ lod|sort(attribute='k1') }}", "{{ lol|sort }}",
             "{{ dq|sort }}", "{{ st|sort }}"],
    "reverse": ["{{ lst|reverse|list }}", "{{ dq|reverse|list }}", "{{ lol|reverse|list }}"],
    "unique": ["{{ lst|unique|list }}", "{{ lod|unique(attribute='k1')|list }}"],
    "groupby": ["{{ lod|groupby('k1') }}", "{{ lod|groupby('k1', default=lst) }}"],
    "dictsort": ["{{ dct|dictsort }}", "{{ dct|dictsort(by='value', reverse=true) }}"],
    "items": ["{{ dct|items|list }}"],
    "join": ["{{ lst|join(',') }}", "{{ lod|join(',', attribute='k1') }}", "{{ lol|join(lst) }}",
             "{{ mix|join(', ') }}", "{{ lst|join(mk) }}", "{{ mix|join(mk) }}", "{{ lol|map('join', ',')|list }}",
             "{{ box.inner|join('-') }}", "{{ lol|join(',', attribute=0) }}"],
    "select": ["{{ lst|select|list }}", "{{ lst|select('odd')|list }}", "{{ lol|select('in', lol)|list }}"],
    "reject": ["{{ lst|reject('odd')|list }}"],
    "selectattr": ["{{ lod|selectattr('k1')|list }}", "{{ lod|selectattr('k1', 'in', lst)|list }}"],
    "rejectattr": ["{{ lod|rejectattr('k1')|list }}"],
    "min": ["{{ lst|min }}", "{{ lod|min(attribute='k1') }}"],
    "max": ["{{ lst|max }}", "{{ lod|max(attribute='k1') }}"],
    "attr": ["{{ lst|attr('append') }}", "{{ (lst|attr('copy'))() }}", "{{ (dq|attr('rotate'))(1) }}"],
    "replace": ["{{ 'abc'|replace('a', lst) }}"],
    "format": ["{{ '%s'|format(lst) }}", "{{ '%(k1)s'|format(**dct) }}"],
    "tojson": ["{{ lst|tojson }}", "{{ dct|tojson }}"],
    "xmlattr": ["{{ dct|xmlattr }}"],
    "urlencode": ["{{ dct|urlencode }}", "{{ lol|urlencode }}"],
    "list": ["{{ lst|list }}", "{{ dq|list }}", "{{ st|list }}", "{{ dct|list }}"],
    "random": ["{{ lst|random }}"],
    "first": ["{{ lol|first }}", "{{ (lol|first)|list }}"],
    "last": ["{{ lol|last }}"],
}
DATA_VARS = ["lst", "dct", "st", "dq", "lol", "lod", "mix"]
# the filter reaches the container directly, as an element handed over by map, or nested in another one
VIA_FORMS = ["{{ lol|map('%s')|list }}", "{{ lod|map('%s')|list }}", "{{ box.inner|%s }}", "{{ [mix, dq]|map('%s')|list }}"]
# environment configurations every filter template is rendered under (sync; async: see filter_sweep)
CONFIGS = [{"autoescape": False}, {"autoescape": True}]


def filter_ctx():
    from markupsafe import Markup

    # `mix`: elements of several types (int, str with markup characters, Markup, float, None, bool), so that a
    # filter that coerces / escapes / replaces elements in place shows in the deep comparison
    mix = [1, "<a>", Markup("<b>x</b>"), 2.5, None, True]
    return {"lst": [3, 1, 2], "dct": {"k1": 2, "k0": 1}, "st": {2, 1}, "dq": collections.deque([3, 1, 2]),
            "lol": [[2], [1]], "lod": [{"k1": 2}, {"k1": 1}], "mix": mix, "box": {"inner": [10, "<i>", 20]},
            "mk": Markup("<br>")}


def filter_templates(env_filters, quick):
    out = []
    for f in sorted(env_filters):
        srcs = list(FILTER_SPECIFIC.get(f, []))
        for x in DATA_VARS:
            srcs.append("{{ %s|%s }}" % (x, f))
            for y in (DATA_VARS + ["mk"] if not quick else ["lst"]):
                srcs.append("{{ %s|%s(%s) }}" % (x, f, y))
                if not quick:
                    srcs.append("{{ %s|%s(1, %s) }}" % (x, f, y))
        srcs += [v % f for v in VIA_FORMS]
        for s in srcs:
            out.append((f, s))
    return out


def filter_case(job):
    core.use_repo()
    f, src, is_async = job[:3]
    cfg = dict(job[3]) if len(job) > 3 else {"autoescape": False}
    rec = su.Recorder()
    env = su.make_env(rec, immutable=True, enable_async=is_async, **cfg)
    ctx = filter_ctx()
    before = copy.deepcopy(ctx)
    outcome, _ = su.render(env, src, ctx, is_async)
    changed_events(rec, before, ctx)
    rec.emit("end", s=outcome)
    return {"env": "immutable", "policy": "default", "path": [], "callables": [], "ev": rec.ev,
            "cfg": dict(cfg, **{"async": is_async})}


def filter_sweep(ck):
    from jinja2.sandbox import ImmutableSandboxedEnvironment

    quick = ck.tier == "quick"
    names = ImmutableSandboxedEnvironment().filters
    rnd = random.Random(ck.seed + 7)
    # every template under every configuration, sync; async: all (thorough) / the filter-specific forms and a
    # seeded half of the others under one seeded configuration each (quick)
    jobs = []
    for f, s in filter_templates(names, quick):
        for cfg in CONFIGS:
            jobs.append((f, s, False, cfg))
            if not quick:
                jobs.append((f, s, True, cfg))
        if quick and (f in FILTER_SPECIFIC or rnd.random() < 0.5):
            jobs.append((f, s, True, rnd.choice(CONFIGS)))
    missing = sorted(set(names) - {j[0] for j in jobs})
    if missing:
        raise core.MachineryError(f"filters without a sweep template: {missing}")
    if len(jobs) > 3000:
        with ProcessPoolExecutor(max_workers=12) as ex:
            traces = list(ex.map(filter_case, jobs, chunksize=200))
    else:
        traces = [filter_case(j) for j in jobs]
    ok_renders = sum(1 for t in traces if t["ev"][-1]["s"] == "ok")
    ck.extra["filter_cases"] = len(traces)
    ck.extra["filter_cases_rendered_without_error"] = ok_renders
    ck.traces += len(traces)
    ck.evaluations += len(traces)
    return jobs, traces


def report_filter(ck, jobs, traces, rejected):
    for idx, stuck in rejected:
        f, src, is_async, cfg = jobs[idx]
        ev = traces[idx]["ev"][stuck - 1] if stuck else {"e": "?"}
        mode = "async" if is_async else "sync"
        if ev["e"] == "changed":
            ck.violation({"kind": "filter", "filter": f, "src": src, "async": is_async, "cfg": cfg,
                          "events": traces[idx]["ev"]},
                         f"immutable sandbox ({mode}, {cfg}): `{src}` modified context variable {ev['s']!r} "
                         f"({ev['k']}); data {filter_ctx()}",
                         {"kind": "filter-mutates-argument", "filter": f, "mode": mode})
        else:
            ck.violation({"kind": "filter", "filter": f, "src": src, "async": is_async, "cfg": cfg,
                          "events": traces[idx]["ev"], "stuck": stuck},
                         f"immutable sandbox ({mode}): `{src}`: event {ev} is not allowed by SandboxGate",
                         {"kind": "mutator-not-gated" if ev["e"] in ("gate", "deliver") else "trace-rejected",
                          "container": ev.get("k"), "method": ev.get("a", {}).get("n"), "filter": f})


def run(ck):
    su.load_own_findings(ck, PID)
    bg = su.Background(design_model, ck)      # TLC on the design model runs while the engine is exercised
    cases = semantics_and_table(ck)
    mtraces = method_sweep(ck, cases)
    fjobs, ftraces = filter_sweep(ck)
    # code->spec: one batch, TLC accepts or rejects every trace
    strip = [{k: v for k, v in t.items() if k not in ("src", "case")} for t in mtraces] + ftraces
    ck.extra["configurations"] = CONFIGS
    rejected = su.validate(ck, PID, strip, "traces", parallel=4 if ck.tier == "quick" else 6)
    nm_ = len(mtraces)
    report_method(ck, mtraces, [(i, st) for i, st in rejected if i < nm_])
    report_filter(ck, fjobs, ftraces, [(i - nm_, st) for i, st in rejected if i >= nm_])
    bg.join()
    ck.exhaustive = ck.tier != "quick"
    ck.extra["exhaustive_note"] = ("every public name dir() shows on list/dict/set/deque x every route; argument / state "
                                   "combinations are the specification's enumeration (all of them in thorough, a seeded "
                                   "sample per method in quick); every built-in filter x container data x container "
                                   "argument")
    ck.extra["excluded_shapes"] = [
        "bound methods of containers passed directly in the context by the application (not obtained by the template)",
        "subclasses of list/dict/set/deque and other MutableSequence/Mapping/Set implementations (the property names "
        "the exact builtin types)",
        "modification through operators is impossible in Jinja syntax (no augmented assignment / item assignment); "
        "`__setitem__`-style names are private and covered by C17",
    ]
    ck.assumptions += [
        "deep equality (type + ==) of every context variable before/after the render detects modification",
        "LoggingEnv overrides of is_safe_attribute/getattr/getitem only log and return super()'s result",
    ]


def replay(ck, rec):
    su.load_own_findings(ck, PID)
    case = rec["case"]
    if case["kind"] == "table":
        from jinja2.sandbox import modifies_known_mutable
        if not modifies_known_mutable(TYPES[case["container"]](), case["method"]):
            ck.violation(case, "still not gated", rec.get("fingerprint"))
        return
    if case["kind"] == "method":
        t = method_case(tuple(case["case"]))
    else:
        t = filter_case((case["filter"], case["src"], case["async"], case.get("cfg", {"autoescape": False})))
    strip = {k: v for k, v in t.items() if k not in ("src", "case")}
    if su.validate(ck, PID, [strip], "replay"):
        ck.violation(case, "trace still rejected by SandboxTrace", rec.get("fingerprint"))
