"""C24 - HTML-producing filters cannot be used to inject markup.

Specs: spec/HtmlScan.tla (scanner automaton for urlize / xmlattr output, exact JSON
serialisation, XmlAttr, the Markup-argument algebra; on top of spec/StrFilters.tla),
spec/HtmlScanMC.tla (TLC runs the automaton action by action over every token sequence
of a bounded alphabet and checks its safety invariants), spec/HtmlScanTrace.tla
(validation of recorded observations).

Binding (code -> spec): inputs are generated here (adversarial strings, JSON values,
attribute dicts, URL-like piece sequences, plain-string arguments full of HTML
metacharacters), the REAL filters are run through Environment.call_filter and through
rendered templates in autoescaping sync / async environments, and every observation is
accepted or rejected by TLC.
"""
from __future__ import annotations

import itertools
import json
import os
import random
import time
from concurrent.futures import ProcessPoolExecutor, ThreadPoolExecutor

from .. import core
from .. import filt_util as fu

PID = "C24"
META = "<x>&'\""


# ---------------------------------------------------------------------------
# model checking of the scanner
# ---------------------------------------------------------------------------

MC_INVS = ["C24_TypeOK", "C24_NoRawMetaOutsideTags", "C24_HrefQuotedNoSpace", "C24_AnchorsWellFormed",
           "C24_RunMatchesMachine", "C24_EscIsAccepted", "C24_JsonIgnoresSafetyMark"]


def model_check(tier):
    quick = tier == "quick"
    done, extra = [], {}
    cfg = ("CONSTANTS\n  MaxToks = %d\nSPECIFICATION Spec\n" % (5 if quick else 7)
           + "".join(f"INVARIANT {i}\n" for i in MC_INVS))
    r = core.run_tlc(PID, "HtmlScanMC", cfg, name="mc_scan", workers=6, timeout=1800, heap="3g")
    done.append((r, "HtmlScanMC token sequences <= %d" % (5 if quick else 7)))
    # vacuity guard: every automaton action labels an edge (small instance, dumped graph)
    cfg2 = "CONSTANTS\n  MaxToks = 5\nSPECIFICATION Spec\n"
    r2 = core.run_tlc(PID, "HtmlScanMC", cfg2, name="mc_cov", workers=1, timeout=600, heap="1g",
                      args=["-dump", "dot,actionlabels", "graph.dot"])
    done.append((r2, "HtmlScanMC action-label run"))
    labels = set()
    for ln in (r2.dir / "graph.dot").read_text().splitlines():
        if " -> " in ln and 'label="' in ln:
            labels.add(ln.split('label="', 1)[1].split('"', 1)[0].split("(")[0])
    need = {"Pick", "TextChar", "Entity", "CutEntity", "OpenAnchor", "HrefChar", "HrefEnd", "AttrStart", "AttrChar",
            "AttrEnd", "TagClose", "CloseAnchor", "Reject"}
    extra["actions_covered"] = sorted(labels)
    if need - labels:
        raise core.MachineryError(f"vacuous scanner model: actions never taken: {sorted(need - labels)}")
    return done, extra


# ---------------------------------------------------------------------------
# case generation
# ---------------------------------------------------------------------------

def case(f, inp, args=None, tmpl=None, pos=(), kw=None, markup=False, src=None, whole=None):
    c = {"f": f, "inp": inp, "args": dict(args or {}), "tmpl": tmpl or f"v|{f}", "pos": list(pos),
         "kw": dict(kw or {}), "markup": markup}
    if src:
        c["src"] = src          # template form through which the value reaches the filter (HtmlScan!Sources)
    if whole:
        c["whole"] = whole      # the whole template source (instead of "{{ tmpl }}")
    return c


# template forms of HtmlScan!Reaches; PRE / POST is literal template data around the value
PRE, POST = "</script><i t='&'>", "&amp;</i>'"
TOJSON_FORMS = {
    "safe": "{{ v|safe|tojson }}",
    "string": "{{ v|string|tojson }}",
    "escape": "{{ v|e|tojson }}",
    "forceescape": "{{ v|forceescape|tojson }}",
    "capture": "{% set w %}" + PRE + "{{ v }}" + POST + "{% endset %}{{ w|tojson }}",
    "macro": "{% macro m(x) %}" + PRE + "{{ x }}" + POST + "{% endmacro %}{{ m(v)|tojson }}",
    "callblock": "{% macro m() %}{{ caller()|tojson }}{% endmacro %}{% call m() %}" + PRE + "{{ v }}" + POST
                 + "{% endcall %}",
}


def strings(alpha, maxlen):
    for n in range(0, maxlen + 1):
        for t in itertools.product(alpha, repeat=n):
            yield "".join(t)


URL_PIECES = ["http://", "www.", "a.com", "x@y.org", "mailto:", "(", ")", "<", ">", '"', "&", ".", ",", " ",
              "\n", "javascript:", "'", "https://b.org/p?q=1&r=2", "ftp://", "[", "]", "a.com/(x)", "&gt;"]


def gen_cases(tier, seed):
    from markupsafe import Markup
    from jinja2 import Undefined

    quick = tier == "quick"
    rnd = random.Random(seed)
    cases = []
    add = cases.append

    def sample(it, k):
        it = list(it)
        return it if len(it) <= k else rnd.sample(it, k)

    # ---- tojson: tiny JSON universe
    alpha = "a<>&'\"\\"
    strs = list(strings(alpha, 2)) + sample(strings(alpha, 3), 40 if quick else 343) + ["</script>", "a\nb"]
    leaves = strs[:20] + [0, -1, 7, True, False, None]
    vals = list(strs) + [0, -1, 7, 12345, True, False, None]
    for a in leaves[:12]:
        vals.append([a])
        for b in leaves[5:14]:
            vals.append([a, b])
            vals.append({"k": a, "<": b})
    for k1, k2 in sample(itertools.permutations(strs[1:25], 2), 60 if quick else 400):
        vals.append({k1: [k2, None], k2: {"'": k1}})
        vals.append({k2: 1, k1: True})
    vals += [[], {}, [[]], [{}], {"a": []}, [[["<"]]], {"b": 1, "a": 2, "B": 3, "A": 4}]
    for v in vals:
        add(case("tojson", v))
    # values that carry a safety mark: Markup handed over as data (top level, nested, as keys) and
    # strings that reach the filter through |safe, |escape, captured blocks, macro / call results
    mstrs = strs[:57] + sample(strs[57:], 15) + ["</script>", "a\nb", "</script><script>alert('x')</script>",
                                                  "<b>'a' & b</b>", "&amp;&lt;"]
    for t in mstrs:
        add(case("tojson", Markup(t)))
    for t in sample(mstrs, 30):
        add(case("tojson", [Markup(t), t]))
        add(case("tojson", {Markup(t): Markup(t), "k": [Markup(t)]}))
    for t in sample(mstrs, 24 if quick else len(mstrs)):
        for src, whole in TOJSON_FORMS.items():
            for inp in (t, Markup(t)):
                add(case("tojson", inp, src=src, whole=whole))

    # ---- xmlattr
    keys = ["a", "b-c", "x y", "t\tb", "n\nl", "f\x0cf", "c\rr", "v\x0bt", "s/l", "g>t", "e=q", 'q"t', "l<t",
            "ap'os", "am&p", "data-x", "x:y", "end ", "\rstart", "a\r\nb"]
    xvals = ["v", META, "", 5, None, 'a"b', "a b", "&amp;"]
    dicts = []
    for k in keys:
        for v in xvals:
            dicts.append({k: v})
    for k1, k2 in itertools.permutations(keys, 2):
        dicts.append({k1: rnd.choice(xvals), k2: rnd.choice(xvals)})
    for ks in sample(itertools.permutations(keys, 3), 150 if quick else 1200):
        dicts.append({k: rnd.choice(xvals) for k in ks})
    dicts += [{}, {"a": None}, {"x y": None}, {"a": None, "b": "c"}, {"a": Undefined(), "b": 1},
              {"g>t": Undefined()}]
    for d in dicts:
        for autospace in (True, False):
            if autospace:
                add(case("xmlattr", d, {"autospace": True}))
            else:
                add(case("xmlattr", d, {"autospace": False}, "v|xmlattr(autospace)", pos=["autospace"]))

    # ---- urlize
    texts = [""] + [p for p in URL_PIECES] + ["".join(t) for t in itertools.product(URL_PIECES, repeat=2)]
    texts += ["".join(t) for t in sample(itertools.product(URL_PIECES, repeat=3), 900 if quick else 6000)]
    texts += ["".join(t) for t in sample(itertools.product(URL_PIECES, repeat=4), 500 if quick else 6000)]
    if not quick:
        texts += ["".join(t) for t in sample(itertools.product(URL_PIECES, repeat=6), 3000)]
    nasty = 't"><s a=\'1\''
    argsets = [
        ({}, "v|urlize", [], {}),
        ({"trim": 3}, "v|urlize(trim)", ["trim"], {}),
        ({"trim": 10, "nofollow": True}, "v|urlize(trim, nofollow)", ["trim", "nofollow"], {}),
        ({"target": "_blank", "rel": "a b"}, "v|urlize(target=target, rel=rel)", [], {"target": "target", "rel": "rel"}),
        ({"target": nasty, "rel": 'x"y<z> w'}, "v|urlize(target=target, rel=rel)", [],
         {"target": "target", "rel": "rel"}),
        ({"schemes": ["javascript:", "ftp://"], "rel": "'"}, "v|urlize(extra_schemes=schemes, rel=rel)", [],
         {"extra_schemes": "schemes", "rel": "rel"}),
    ]
    # long URLs with metacharacters at every position of the displayed text, trimmed at many limits
    # (the limit may fall before, inside or after an escaped character)
    long_urls = ["http://example.com/?q=<script>alert(1)</script>&x=" + "a" * 30,
                 "https://b.org/p?q=1&r=2&s='3'&t=\"4\"<5>" + "z" * 10,
                 "www.a.com/<b>&\"'/" + "y" * 12,
                 "http://a.com/" + "&" * 8 + "<>" * 4,
                 "(http://a.com/x?<i>=1&&)", "x@y.org", "mailto:x@y.org"]
    for u in long_urls:
        for lim in ([5, 14, 17, 23, 24, 25, 26, 27, 30, 45] if quick else range(1, 60)):
            full = {"trim": lim, "nofollow": False, "target": None, "rel": None, "schemes": None}
            add(case("urlize", u, full, "v|urlize(trim)", ["trim"], {}))
            add(case("urlize", "see " + u + " now", dict(full, nofollow=True), "v|urlize(trim, nofollow)",
                     ["trim", "nofollow"], {}))
    for i, txt in enumerate(texts):
        for j, (a, tmpl, pos, kw) in enumerate(argsets):
            if i > 600 and (i + j) % 3:
                continue
            full = {"trim": None, "nofollow": False, "target": None, "rel": None, "schemes": None}
            full.update(a)
            add(case("urlize", txt, full, tmpl, pos, kw))

    # ---- escape / e / forceescape
    for s in itertools.chain(strings("a<>&'\"", 2), sample(strings("a<>&'\"", 4), 60 if quick else 600)):
        for f in ("escape", "e", "forceescape"):
            add(case(f, s))
            add(case(f, Markup(s)))
    for v in (0, 42, -7):
        for f in ("escape", "forceescape"):
            add(case(f, v))

    # ---- the Markup-argument rule: safe subject, plain-string arguments
    plains = [META, "&", "x", "'", "<br>", "a&b"]
    subjects = [Markup("<b>ok</b>"), Markup("<b>o k</b>\n<i>x</i>"), Markup("a\n\nb"), Markup("<p>1</p>\r\n<p>2</p>\n")]
    for m in subjects:
        for w in plains + [2]:
            for first in (False, True):
                for blank in (False, True):
                    add(case("indent", m, {"width": w, "first": first, "blank": blank},
                             "v|indent(width, first, blank)", pos=["width", "first", "blank"], markup=True))
        for old in ("ok", "<b>", "b", "&", "\n"):
            for new in plains:
                add(case("replace", m, {"old": old, "new": new, "count": -1}, "v|replace(old, new)",
                         pos=["old", "new"], markup=True))
                add(case("replace", m, {"old": old, "new": new, "count": 1}, "v|replace(old, new, count)",
                         pos=["old", "new", "count"], markup=True))
        for s in plains:
            add(case("wordwrap", m, {"wrapstring": s}, "v|wordwrap(wrapstring=wrapstring)",
                     kw={"wrapstring": "wrapstring"}, markup=True))
    for m in (Markup("<b>ok</b> <i>more text</i>"), Markup("<b>a b c d e f g h i j</b>")):
        for length in (12, 15, 40):
            for kill in (False, True):
                for end in plains + ["..."]:
                    add(case("truncate", m, {"length": length, "killwords": kill, "end": end, "leeway": 0},
                             "v|truncate(length, killwords, end, leeway)",
                             pos=["length", "killwords", "end", "leeway"], markup=True))
    for m in (Markup("<b>%s</b>"), Markup("%s"), Markup("<a title='%s'>100%%</a>")):
        for s in plains + [5]:
            add(case("format", m, {"arg": s}, "v|format(arg)", pos=["arg"], markup=True))
    items_pool = [Markup("<b>"), "<i>", "a", 5, Markup("&amp;"), "&"]
    for n in (0, 1, 2, 3):
        for items in sample(itertools.product(items_pool, repeat=n), 40):
            for d in plains + [""]:
                add(case("join", list(items), {"d": d}, "v|join(d)", pos=["d"], markup=True))
    return cases


EXCLUDED = [
    "Markup (declared-safe) values handed to xmlattr / urlize",
    "xmlattr keys containing non-ASCII whitespace; empty keys",
    "tojson: floats, non-string dict keys, non-ASCII text, control characters other than \\n, indent argument",
    "Markup-argument rule: arguments that are themselves Markup; replace with an empty `old`; truncate "
    "cutting through an entity of the subject; wordwrap widths that actually wrap",
    "indent(first=true) of a subject whose first line is empty while blank=false",
    "urlize: which words become links (only the safety of the produced markup is checked)",
]


# ---------------------------------------------------------------------------
# running the real filters
# ---------------------------------------------------------------------------

_driver = None


def driver():
    global _driver
    if _driver is None:
        core.use_repo()
        _driver = fu.Driver(autoescape=True)
    return _driver


def observe_case(c):
    import markupsafe

    drv = driver()
    f = c["f"]
    inp_e = fu.enc(c["inp"])
    args_e = {k: fu.enc(v) for k, v in c["args"].items()}
    groups = {}
    nruns = 0
    for envk in ("sync", "async"):
        for via in ("call", "render"):
            inp = fu.fresh(c["inp"])
            args = fu.fresh(c["args"])
            variables = dict(args)
            variables["v"] = inp
            x = {}
            if via == "call":
                pos = [variables[n] for n in c["pos"]]
                kw = {k: variables[n] for k, n in c["kw"].items()}
                try:
                    res = fu.materialize(drv.via_call(envk, f, inp, pos, kw))
                    if c["markup"]:          # what a template would print for this value
                        out = fu.enc(str(markupsafe.escape(res)))
                        name = "render"
                    else:
                        out = fu.enc(res)
                        name = "call"
                except Exception as e:  # noqa
                    out, name = {"t": "x", "v": type(e).__name__}, "call"
            else:
                try:
                    out = fu.enc(drv.via_render(envk, c.get("whole") or "{{ " + c["tmpl"] + " }}", variables))
                except Exception as e:  # noqa
                    out = {"t": "x", "v": type(e).__name__}
                name = "render"
            nruns += 1
            if f == "tojson":
                src = c.get("src") if via == "render" else None
                x["src"] = {"t": "c", "v": src or "data"}
                x["pre"], x["post"] = fu.enc(PRE if src else ""), fu.enc(POST if src else "")
                try:
                    x["back"] = fu.enc(json.loads(fu.dec(out))) if out["t"] in ("s", "m") else out
                except Exception as e:  # noqa
                    x["back"] = {"t": "x", "v": type(e).__name__}
            if f in ("escape", "e"):
                x["ms"] = fu.enc(markupsafe.escape(c["inp"]))
            inp2 = fu.enc(inp)
            args2 = {k: fu.enc(v) for k, v in args.items()}
            key = json.dumps([name, out, inp2, args2, x], sort_keys=True)
            g = groups.get(key)
            if g is None:
                g = groups[key] = {"f": f, "name": name, "inp": inp_e, "args": args_e, "out": out, "inp2": inp2,
                                   "args2": args2, "x": x, "modes": [],
                                   "how": {"tmpl": c["tmpl"], "pos": c["pos"], "kw": c["kw"], "markup": c["markup"],
                                           "src": c.get("src"), "whole": c.get("whole")}}
            g["modes"].append(f"{envk}/{via}")
    return list(groups.values()), nruns


_CASES = []


def _observe_chunk(span):
    recs, n = [], 0
    for c in _CASES[span[0]:span[1]]:
        r, k = observe_case(c)
        recs += r
        n += k
    return recs, n


def observe_all(cases):
    global _CASES
    _CASES = cases
    recs, nruns = [], 0
    spans = [(i, min(i + 400, len(cases))) for i in range(0, len(cases), 400)]
    with ProcessPoolExecutor(max_workers=8) as ex:
        for r, n in ex.map(_observe_chunk, spans):
            recs += r
            nruns += n
    _CASES = []
    return recs, nruns


# ---------------------------------------------------------------------------
# verdicts
# ---------------------------------------------------------------------------

def fingerprint(rec, why):
    fp = {"kind": why, "filter": rec["f"]}
    if why == "plain-arg-trusted":
        plain = sorted(k for k, v in rec["args"].items()
                       if v["t"] == "s" and any(chr(c) in "<>&'\"" for c in v["v"]))
        fp["arg"] = ",".join(plain)
    return fp


def report(ck, rejected):
    for rec, why, expected in rejected:
        args = {k: fu.show(v) for k, v in rec["args"].items() if v["t"] != "n"}
        what = (f"{rec['f']}({args}) on {fu.show(rec['inp'])} [{rec['name']}: {', '.join(rec['modes'])}]: ")
        if rec["how"].get("whole") and rec["name"] == "render":
            what = f"template {rec['how']['whole']!r} with v = {fu.show(rec['inp'])} [{', '.join(rec['modes'])}]: "
        if rec["f"] == "urlize":
            what += f"output is not accepted by the HtmlScan automaton: {fu.show(rec['out'])}"
        elif why == "plain-arg-trusted":
            what += (f"plain-string argument rendered unescaped: {fu.show(rec['out'])}; spec expects "
                     f"{fu.show(expected)} (or the whole result escaped)")
        else:
            what += f"spec expects {fu.show(expected) if expected else '?'}, jinja2 produced {fu.show(rec['out'])}"
            if rec["x"].get("back") is not None:
                what += f" (parses back to {fu.show(rec['x']['back'])})"
        ck.violation({"kind": "filter-record", "record": rec, "why": why, "expected": expected}, what,
                     fingerprint(rec, why))


def run(ck):
    fu.load_own_findings(ck, PID)
    only = [f for f in os.environ.get("JV_FILTERS", "").split(",") if f]   # development aid
    with ThreadPoolExecutor(max_workers=1) as bg:
        mc = bg.submit((lambda t: ([], {})) if only else model_check, ck.tier)
        t0 = time.time()
        cases = gen_cases(ck.tier, ck.seed)
        t1 = time.time()
        if only:
            cases = [c for c in cases if c["f"] in only]
        recs, nruns = observe_all(cases)
        t2 = time.time()
        rejected = fu.tlc_validate(ck, "HtmlScanTrace", recs, batch=6000, parallel=4 if ck.tier == "quick" else 6)
        t3 = time.time()
        done, extra = mc.result()
    ck.extra["phase_s"] = {"generate": round(t1 - t0, 1), "observe_real_code": round(t2 - t1, 1),
                           "tlc_validate": round(t3 - t2, 1), "wait_model_check": round(time.time() - t3, 1)}
    for r, label in done:
        ck.add_tlc(r, label)
    ck.extra.update(extra)
    report(ck, rejected)
    ck.traces += len(recs)
    ck.evaluations += nruns
    per = {}
    for r in recs:
        per[r["f"]] = per.get(r["f"], 0) + 1
    ck.extra["cases"] = len(cases)
    ck.extra["real_filter_invocations"] = nruns
    ck.extra["distinct_observations_validated_by_TLC"] = len(recs)
    ck.extra["records_per_filter"] = per
    ck.extra["excluded_shapes"] = EXCLUDED
    ck.exhaustive = False
    ck.extra["exhaustive_note"] = ("exhaustive for strings <= 2 over the metacharacter alphabet, single / paired "
                                   "attribute keys and URL piece sequences <= 2; longer inputs are seeded samples")
    for r in recs[:: max(1, len(recs) // 4)][:4]:
        ck.sample({"filter": r["f"], "mode": r["name"], "input": fu.show(r["inp"]),
                   "args": {k: fu.show(v) for k, v in r["args"].items()}, "output": fu.show(r["out"])})
    ck.assumptions += [
        "ASCII text; the five MarkupSafe entities are the only entities the filters produce",
        "json.loads is the parser for 'parses back to the input value'",
        "call_filter results are rendered with markupsafe.escape to obtain what a template would print",
    ]


def replay(ck, rec):
    fu.load_own_findings(ck, PID)
    c0 = rec["case"]
    if c0.get("kind") == "spec-invariant":
        for r, label in model_check(ck.tier)[0]:
            ck.add_tlc(r, label)
        return
    r = c0["record"]
    how = r["how"]
    c = {"f": r["f"], "inp": fu.dec(r["inp"]), "args": {k: fu.dec(v) for k, v in r["args"].items()},
         "tmpl": how["tmpl"], "pos": how["pos"], "kw": how["kw"], "markup": how["markup"]}
    if how.get("src"):
        c["src"], c["whole"] = how["src"], how["whole"]
    recs, _ = observe_case(c)
    report(ck, fu.tlc_validate(ck, "HtmlScanTrace", recs, label="replay"))
