"""C25 - the template cache always serves the current template source.

Spec:  spec/TemplateCache.tla (INSTANCEs spec/LRU.tla for the meaning of the
LRU).  TLC checks the C25_* invariants / action properties on the complete
reachable state space of the bounded model (3 names, 2-3 versions, cache sizes
0 / 1 / 2 / unbounded, 4 loader kinds, auto_reload on / off).

Binding (spec->code): TLC, run with VIEW View and EmitGraph, prints every
transition of the state graph as one JSON line (state before, operation,
expected observable outcome, state after).  The driver below walks a real
jinja2.Environment (DictLoader / FunctionLoader / FileSystemLoader with forced
mtimes) along *every* edge and compares, after each step,
  * the outcome: rendered version text / TemplateNotFound(name) /
    TemplatesNotFound, and the names the loader was asked for (reloads),
  * the cache projection [(name, cached version)] in recency order, read through
    the public LRUCache / dict API of env.cache, and Template.is_up_to_date of
    every cached template.
All expected values come out of TLC; Python only drives and projects.
"""
from __future__ import annotations

import json
import multiprocessing
import os
import re
import shutil
import tempfile
from collections import deque
from concurrent.futures import ProcessPoolExecutor, ThreadPoolExecutor

from .. import core

# scratch directories live on tmpfs when there is one (the drivers do many small file operations)
SCRATCH = "/dev/shm" if os.path.isdir("/dev/shm") and os.access("/dev/shm", os.W_OK) else None
PID = "C25"
INVARIANTS = ["TypeOK", "C25_FreshWhenCheckable", "C25_StaleOnlyWhenUncheckable", "C25_NeverReloadWhenOff",
              "C25_HitWhenFresh", "C25_Capacity", "C25_Size0Recompiles", "C25_OrderIsRecency",
              "C25_SelectFirstExisting", "C25_SelectFindsSomething", "C25_FreshFlag",
              "C25_BytecodeOfItsSource", "C25_LoadRunsCurrentSource", "C25_BytecodeReuse"]
PROPERTIES = ["C25_EvictsLRU", "C25_UnboundedKeeps"]
ACTIONS = ["Get", "Select", "Modify", "Delete", "Add", "Touch", "Overlay"]
ALL_KINDS = ["dict", "fnstr", "fntriple", "fs"]


def mc_module(d, names, size, kinds, reloads):
    (d / "MCTemplateCache.tla").write_text(f"""---- MODULE MCTemplateCache ----
EXTENDS TemplateCache
MCNames == {core.tla_str(set(names))}
MCSize == {size}
MCKinds == {core.tla_str(set(kinds))}
MCReloads == {core.tla_str(set(reloads))}
====
""")
    return d / "MCTemplateCache.tla"


def cfg(nversions, graph, usebc=False):
    s = f"""CONSTANTS
  Names <- MCNames
  NVersions = {nversions}
  CacheSize <- MCSize
  KindSet <- MCKinds
  ReloadSet <- MCReloads
  NoVal = NoVal
  EmitGraph = {"TRUE" if graph else "FALSE"}
  UseBC = {"TRUE" if usebc else "FALSE"}
SPECIFICATION Spec
"""
    if graph:
        s += "VIEW View\nINVARIANT C25_Capacity\n"
    else:
        s += "".join(f"INVARIANT {i}\n" for i in INVARIANTS) + "".join(f"PROPERTY {p}\n" for p in PROPERTIES)
    return s


def tlc(tag, names, nversions, size, kinds, reloads, graph, workers, coverage=False, usebc=False):
    d = core.workdir(PID, f"mc_{tag}")
    mod = mc_module(d, names, size, kinds, reloads)
    return core.run_tlc(PID, "MCTemplateCache", cfg(nversions, graph, usebc), workers=workers, name=f"tlc_{tag}",
                        extra_modules=[mod], coverage=coverage, timeout=3000, heap="3g")


# ---------------------------------------------------------------------------
# the real system: one Environment + loader of the given kind
# ---------------------------------------------------------------------------

def text_of(n, v):
    return f"<{n}@v{v}>"


class Real:
    """A real jinja2 Environment with a loader whose content the driver controls."""

    def __init__(self, size, kind, auto_reload, names, nversions, usebc=False):
        import jinja2
        from jinja2 import bccache, loaders

        self.j = jinja2
        self.kind, self.size, self.names = kind, size, list(names)
        self.back = {text_of(n, v): (n, v) for n in names for v in range(1, nversions + 1)}
        self.log = []
        self.store = {}
        self.stamp = {}
        self.clock = 0
        self.dir = None
        log = self.log
        if kind == "dict":
            class Dict(loaders.DictLoader):
                def get_source(self, environment, template):
                    log.append(template)
                    return super().get_source(environment, template)

            self.loader = Dict(self.store)
        elif kind == "fnstr":
            def fn(name, store=self.store):
                log.append(name)
                return store.get(name)

            self.loader = loaders.FunctionLoader(fn)
        elif kind == "fntriple":
            def fn3(name, store=self.store, stamp=self.stamp):
                log.append(name)
                if name not in store:
                    return None
                g = stamp[name]
                return store[name], None, (lambda: stamp.get(name) == g)

            self.loader = loaders.FunctionLoader(fn3)
        elif kind == "fs":
            self.dir = tempfile.mkdtemp(prefix="jv_c25_", dir=SCRATCH)

            class FS(loaders.FileSystemLoader):
                def get_source(self, environment, template):
                    log.append(template)
                    return super().get_source(environment, template)

            self.loader = FS(self.dir)
        else:
            raise core.MachineryError(kind)
        self.bclog = bclog = []
        self.bcc = None
        self.nversions = nversions
        if usebc:
            class Mem(bccache.BytecodeCache):
                """a bytecode cache over a dict that logs what BaseLoader.load does with it"""

                def __init__(self):
                    self.store, self.name_of = {}, {}

                def get_cache_key(self, name, filename=None):
                    k = super().get_cache_key(name, filename)
                    self.name_of[k] = name
                    return k

                def load_bytecode(self, bucket):
                    data = self.store.get(bucket.key)
                    if data is not None:
                        bucket.bytecode_from_string(data)
                    bclog.append(["hit" if bucket.code is not None else "miss", self.name_of[bucket.key]])

                def dump_bytecode(self, bucket):
                    bclog.append(["dump", self.name_of[bucket.key]])
                    self.store[bucket.key] = bucket.bytecode_to_string()

            self.bcc = Mem()
            self.env = jinja2.Environment(loader=self.loader, cache_size=size, auto_reload=auto_reload,
                                          bytecode_cache=self.bcc)
        else:
            self.env = jinja2.Environment(loader=self.loader, cache_size=size, auto_reload=auto_reload)

    def close(self):
        if self.dir:
            shutil.rmtree(self.dir, ignore_errors=True)
            self.dir = None

    # -- loader content -----------------------------------------------------
    def _tick(self):
        # a never-used stamp; alternately later and earlier than every stamp used before
        self.clock += 1
        return 1_000_000_000 + 10 * self.clock * (1 if self.clock % 2 else -1)

    def put(self, n, v):
        t = self._tick()
        if self.kind == "fs":
            p = os.path.join(self.dir, n)
            with open(p, "w", encoding="utf-8") as f:
                f.write(text_of(n, v))
            os.utime(p, (t, t))
        else:
            self.store[n] = text_of(n, v)
            self.stamp[n] = t

    def touch(self, n):
        t = self._tick()
        if self.kind == "fs":
            os.utime(os.path.join(self.dir, n), (t, t))
        else:
            self.stamp[n] = t

    def delete(self, n):
        if self.kind == "fs":
            os.remove(os.path.join(self.dir, n))
        else:
            del self.store[n]
            self.stamp.pop(n, None)

    # -- observation ----------------------------------------------------------
    def _version(self, text):
        nv = self.back.get(text)
        return ["render", nv[0], nv[1]] if nv else ["render?", text, 0]

    def _use(self, fn):
        del self.log[:]
        del self.bclog[:]
        try:
            res = self._version(fn().render())
        except self.j.TemplatesNotFound:
            res = ["nonefound", "", 0]
        except self.j.TemplateNotFound as e:
            res = ["notfound", e.name, 0]
        except Exception as e:  # noqa
            res = ["raise", type(e).__name__, 0]
        return res, list(self.log), list(self.bclog)

    def project_bc(self):
        """{name: [[versions whose checksum the stored entry is accepted for], version its code renders]}
        through the public Bucket API (a bucket made for a source takes the stored bytes or resets)."""
        if self.bcc is None:
            return None
        from jinja2.bccache import Bucket
        out = {}
        for key, data in self.bcc.store.items():
            n = self.bcc.name_of[key]
            sums, code = [], None
            for v in range(1, self.nversions + 1):
                b = Bucket(self.env, key, self.bcc.get_source_checksum(text_of(n, v)))
                b.bytecode_from_string(data)
                if b.code is not None:
                    sums.append(v)
                    code = b.code
            r = ["no-code", "", 0]
            if code is not None:
                try:
                    r = self._version(self.env.template_class.from_code(
                        self.env, code, self.env.make_globals(None), None).render())
                except Exception as e:  # noqa
                    r = ["raise", type(e).__name__, 0]
            out[n] = [sums, r[2] if r[0] == "render" and r[1] == n else r]
        return out

    def project(self):
        """[(name, cached version, is_up_to_date)], least recently used first for the LRU,
        insertion order for the dict; through the public API of the cache only."""
        c = self.env.cache
        if c is None:
            return None
        items = list(c.items())
        if type(c) is not dict:
            items.reverse()
            if len(c) != len(items) or c.capacity != self.size:
                return ["inconsistent", len(c), c.capacity]
        out = []
        for key, tpl in items:
            ref, name = key
            if ref() is not self.env.loader:
                return ["foreign-loader-key", name]
            r = self._version(tpl.render())
            out.append([name, r[2] if r[0] == "render" and r[1] == name else r, bool(tpl.is_up_to_date)])
        return out

    def step(self, op):
        """Apply one spec operation; returns (res, loads, what the bytecode cache saw)."""
        k = op[0]
        if k == "get":
            return self._use(lambda: self.env.get_template(op[1]))
        if k == "select":
            return self._use(lambda: self.env.select_template(list(op[1])))
        if k in ("modify", "add"):
            self.put(op[1], op[2])
        elif k == "touch":
            self.touch(op[1])
        elif k == "delete":
            self.delete(op[1])
        elif k == "overlay":
            parent = self.env
            before = self.project()
            ov = parent.overlay()
            if self.bcc is not None:
                # the probe below would fill the (shared) bytecode cache: give it its own
                parent.bytecode_cache = None
            # an overlay must not write into its parent's cache: load through a throw-away overlay
            probe = parent.overlay()
            for n in self.names:
                try:
                    probe.get_template(n)
                except self.j.TemplateNotFound:
                    pass
            if self.bcc is not None:
                parent.bytecode_cache = self.bcc
                if ov.bytecode_cache is not self.bcc:
                    return ["overlay-lost-the-bytecode-cache", "", 0], [], []
            del self.log[:]
            del self.bclog[:]
            self.env = parent
            if self.project() != before:
                self.env = ov
                return ["overlay-wrote-into-parent-cache", "", 0], [], []
            self.env = ov
        else:
            raise core.MachineryError(f"unknown op {op}")
        return ["none", "", 0], [], []


def expected_projection(size, t, u):
    if size == 0:
        return None
    m = t["m"]
    return [[n, m[n]["v"], bool(u[n])] for n in t["o"]]


def expected_bc(t):
    return {n: [[e["sum"]], e["code"]] for n, e in t["bc"].items() if isinstance(e, dict)}


def compare(size, kind, ar, edge, res, loads, proj, bcops=None, bcproj=None):
    """-> None | ("violation" | "drift", text)"""
    t = edge["t"]
    if bcproj is not None:
        # an environment with a bytecode cache: what the bytecode cache saw and holds is compared as well
        wantbc = expected_bc(t)
        if bcops != edge["bcops"] or bcproj != wantbc:
            return "violation", (f"expected {edge['res']} bytecode cache asked {edge['bcops']} holds {wantbc} "
                                 f"(name: [versions it is valid for], version its code renders); "
                                 f"got {res} bytecode cache asked {bcops} holds {bcproj}")
    u = edge["u"] if isinstance(edge["u"], dict) else {}
    want = expected_projection(size, t, u)
    got = proj
    if size < 0 and isinstance(got, list) and isinstance(want, list):
        # the property does not order an unbounded cache
        got, want = sorted(got, key=repr), sorted(want, key=repr)
    ok_res = res == edge["res"]
    ok_loads = loads == edge["loads"]
    ok_proj = got == want
    if ok_res and ok_loads and ok_proj:
        return None
    msg = (f"expected {edge['res']} loader asked {edge['loads']} cache {want}; "
           f"got {res} loader asked {loads} cache {got}")
    if kind == "fnstr" and ar:
        # auto_reload with a loader that supplies no up-to-date check: the property is silent
        return "drift", msg
    if ar and size != 0 and ok_res and ok_proj and set(edge["loads"]) <= set(loads):
        # extra reloads with auto_reload on change nothing the property names
        return "drift", msg
    return "violation", msg


# ---------------------------------------------------------------------------
# walking the real system along every edge of the graph
# ---------------------------------------------------------------------------

def key_of(st):
    return json.dumps(st, sort_keys=True)


def walk_component(args):
    """Replay every edge of one (size, kind, auto_reload) component of the state graph."""
    core.use_repo()
    size, kind, ar, names, nversions, lines, max_viol, usebc = args
    # nodes
    ids = {}
    out = []           # out[i] = list of edge indexes

    def nid(st):
        k = key_of(st)
        i = ids.get(k)
        if i is None:
            i = ids[k] = len(out)
            out.append([])
        return i

    E = []
    init = None
    for line in lines:
        e = json.loads(line)
        st = e.pop("s")
        s, t = nid(st), nid(e["t"])
        if init is None and not st["o"] and all(v == 0 for v in st["src"].values()):
            init = s
        out[s].append(len(E))
        E.append((s, t, e))
    del lines
    if init is None:
        raise core.MachineryError("initial state not in graph")
    todo = [list(reversed(x)) for x in out]      # unvisited outgoing edges per node
    remaining = len(E)
    blocked = set()                              # edges on which the real system diverged: never route through them
    diverged = 0
    result = {"edges": 0, "steps": 0, "restarts": 0, "violations": [], "drift": [], "samples": []}

    def path_to_work(src):
        """BFS from src to the nearest node that still has unvisited edges; list of edge indexes."""
        if todo[src]:
            return []
        prev = {src: None}
        q = deque([src])
        while q:
            x = q.popleft()
            for ei in out[x]:
                y = E[ei][1]
                if y in prev or ei in blocked:
                    continue
                prev[y] = (x, ei)
                if todo[y]:
                    p = []
                    while prev[y] is not None:
                        x2, e2 = prev[y]
                        p.append(e2)
                        y = x2
                    p.reverse()
                    return p
                q.append(y)
        return None

    real = Real(size, kind, ar, names, nversions, usebc)
    cur = init
    trail = []

    def do_edge(ei, fresh):
        """Apply edge ei to the real system and compare; False when the real system diverged."""
        s, t, e = E[ei]
        res, loads, bcops = real.step(e["a"])
        proj = real.project()
        trail.append(e["a"])
        result["steps"] += 1
        verdict = compare(size, kind, ar, e, res, loads, proj, bcops, real.project_bc())
        if verdict is None:
            if fresh and result["edges"] % 4001 == 1 and len(result["samples"]) < 2:
                result["samples"].append({"size": size, "loader": kind, "auto_reload": ar,
                                          "history_tail": trail[-6:], "outcome": res,
                                          "loader_asked": loads, "cache": proj})
            return True
        what, msg = verdict
        case = {"kind": "graph", "size": size, "loader": kind, "auto_reload": ar, "names": names,
                "nversions": nversions, "ops": list(trail), "expect": e, "bytecode_cache": usebc}
        case = shorten(case, E, out, init, ei)
        rec = {"case": case,
               "what": f"cache_size={size} loader={kind} auto_reload={ar} after {case['ops'][-8:]}: {msg}",
               "fp": {"kind": "template-cache", "op": e["a"][0], "loader": kind, "size": size,
                      "auto_reload": ar, **({"bytecode_cache": True} if usebc else {})}}
        if what == "violation":
            result["violations"].append(rec)
        elif len(result["drift"]) < 5:
            result["drift"].append(rec["what"])
        return False

    try:
        while remaining and len(result["violations"]) < max_viol and diverged < 25:
            ok = True
            if not todo[cur]:
                p = path_to_work(cur)
                if p is None:
                    if cur == init and not trail:
                        break           # the rest is only reachable through edges the real system left
                    ok = False          # nothing left reachable from here: start again from Init
                else:
                    for ei in p:
                        ok = do_edge(ei, False)
                        if not ok:
                            blocked.add(ei)
                            diverged += 1
                            break
                        cur = E[ei][1]
            if ok:
                ei = todo[cur].pop()
                remaining -= 1
                result["edges"] += 1
                ok = do_edge(ei, True)
                if ok:
                    cur = E[ei][1]
                else:
                    blocked.add(ei)
                    diverged += 1
            if not ok:
                # the real system no longer corresponds to a spec state (or is stuck): fresh system
                real.close()
                real = Real(size, kind, ar, names, nversions, usebc)
                cur = init
                del trail[:]
                result["restarts"] += 1
    finally:
        real.close()
    result["unvisited"] = remaining
    result["diverged"] = diverged
    return result


def shorten(case, E, out, init, bad):
    """Prefer the shortest history that reaches the failing edge, if it fails the same way."""
    s_bad = E[bad][0]
    prev = {init: None}
    q = deque([init])
    while q and s_bad not in prev:
        x = q.popleft()
        for ei in out[x]:
            y = E[ei][1]
            if y not in prev:
                prev[y] = (x, ei)
                q.append(y)
    if s_bad not in prev:
        return case
    p, y = [], s_bad
    while prev[y] is not None:
        x, ei = prev[y]
        p.append(ei)
        y = x
    p.reverse()
    ops = [E[ei][2]["a"] for ei in p] + [E[bad][2]["a"]]
    short = dict(case, ops=ops)
    if run_case(short) is not None:
        return short
    return case


def run_case(case):
    """Re-run a recorded history on a fresh real system; -> None | (kind, message) for the last step."""
    real = Real(case["size"], case["loader"], case["auto_reload"], case["names"], case["nversions"],
                case.get("bytecode_cache", False))
    try:
        res = loads = proj = bcops = None
        for op in case["ops"]:
            res, loads, bcops = real.step(op)
            proj = real.project()
        return compare(case["size"], case["loader"], case["auto_reload"], case["expect"], res, loads, proj,
                       bcops, real.project_bc())
    finally:
        real.close()


# ---------------------------------------------------------------------------

_HEAD = re.compile(r'^\{"s":\{"k":"(\w+)","ar":(true|false)')
_OP = re.compile(r'"a":\["(\w+)"')


def graph_edges(r):
    """the printed edges (raw JSON lines) grouped by (loader kind, auto_reload); the set of operations"""
    comps, ops = {}, set()
    n = 0
    seen = set()
    for raw in r.out.splitlines():
        # PrintT shows the JSON text as a TLA+ string literal; its escapes (\" and \\) are JSON's
        if not raw.startswith('"{\\"s\\"') or raw in seen:
            continue
        seen.add(raw)
        line = json.loads(raw)
        m = _HEAD.match(line)
        if m:
            key = (m.group(1), m.group(2) == "true")
        else:
            st = json.loads(line)["s"]
            key = (st["k"], st["ar"])
        mo = _OP.search(line)
        if mo:
            ops.add(mo.group(1))
        comps.setdefault(key, []).append(line)
        n += 1
    return comps, n, ops


def run(ck):
    quick = ck.tier == "quick"
    names3, names2 = ["a", "b", "c"], ["a", "b"]
    both = [True, False]
    # -- 1. model checking: every C25_* property on the full reachable state space ------------
    jobs = []
    for size in (0, 1, 2, -1):
        nm = names2 if quick and size < 0 else names3
        nv = 2 if quick else 3
        jobs.append((f"inv{size}", nm, nv, size, ALL_KINDS, both, False, 4 if quick or size >= 0 else 8,
                     quick and size == 2))
    # capacity 3 (a cache that is being filled holds two templates with room for a third: recency gained
    # during the fill-up decides the first eviction), 4 names so that a full cache still evicts
    names4 = ["a", "b", "c", "d"]
    jobs.append(("inv3", names4, 1 if quick else 2, 3, ["dict", "fs"] if quick else ALL_KINDS, both, False, 4, False))
    # environments with a bytecode cache next to the template cache
    bcjobs = [(f"invbc{size}", names2 if quick else names3, 2, size, ALL_KINDS, both, False, 4, False, True)
              for size in ((1, 0) if quick else (0, 1, 2, -1))]
    jobs += bcjobs
    # -- 2. graph export for the replay --------------------------------------------------------
    if quick:
        # the largest graph first, split in two so that its replay can start early; at size 2 the
        # stamp-comparing FunctionLoader (same spec behaviour as "fs") is left to sizes 0, 1, -1 and thorough
        gjobs = [("g2a", names3, 2, 2, ["fs"], both), ("g2b", names3, 2, 2, ["dict", "fnstr"], both),
                 ("g1", names3, 2, 1, ALL_KINDS, both), ("gu", names2, 2, -1, ALL_KINDS, both),
                 ("g0", names3, 2, 0, ALL_KINDS, both),
                 ("g3", names4, 1, 3, ["dict"], both),
                 ("gbc1", names2, 2, 1, ["dict", "fs", "fnstr"], both, True),
                 ("gbc0", names2, 2, 0, ["dict", "fntriple"], [True], True),
                 ("gbcu", names2, 2, -1, ["fs"], [True], True)]
    else:
        gjobs = [("g0", names3, 3, 0, ALL_KINDS, both), ("g1", names3, 3, 1, ALL_KINDS, both),
                 ("gu3", names2, 3, -1, ALL_KINDS, both)]
        gjobs += [(f"g2{k}", names3, 3, 2, [k], both) for k in ALL_KINDS]
        gjobs += [(f"gu{k}", names3, 2, -1, [k], both) for k in ALL_KINDS]
        gjobs += [("g3", names4, 1, 3, ALL_KINDS, both), ("g3n3", names3, 2, 3, ["dict", "fs"], both)]
        gjobs += [(f"gbc{size}", names2, 2, size, ALL_KINDS, both, True) for size in (0, 1, 2, -1)]
        gjobs += [("gbc1n3", names3, 2, 1, ["dict", "fs"], [True], True)]
    gjobs = [g if len(g) == 7 else g + (False,) for g in gjobs]
    replayed = steps = total_edges = ntasks = unvisited = 0
    drift = []
    # workers are spawned, not forked: a forked worker would inherit the pipes of the TLC
    # subprocesses running in the threads and keep them open
    with ThreadPoolExecutor(4) as ex, \
            ProcessPoolExecutor(max_workers=16, mp_context=multiprocessing.get_context("spawn")) as pool:
        gr = [ex.submit(tlc, tag, nm, nv, size, kinds, rl, True, 4, False, bcu)
              for (tag, nm, nv, size, kinds, rl, bcu) in gjobs]
        inv = [ex.submit(tlc, *j) for j in jobs]
        # -- 3. replay on the real Environment: components are dispatched as soon as their graph is there
        futs = []
        for (tag, nm, nv, size, kinds, rl, bcu), f in zip(gjobs, gr):
            r = f.result()
            ck.add_tlc(r, f"TemplateCache graph cache_size={size} names={len(nm)} versions={nv} kinds={kinds}"
                          + (" bytecode_cache" if bcu else ""))
            comps, n, ops = graph_edges(r)
            r.out = ""
            if n == 0:
                raise core.MachineryError(f"TemplateCache graph {tag}: TLC printed no edges")
            total_edges += n
            need = {"get", "select", "delete", "add", "overlay"} | ({"touch"} if set(kinds) & {"fs", "fntriple"} else set())
            if nv > 1:
                need.add("modify")
            if need - ops:
                raise core.MachineryError(f"vacuous graph {tag}: operations never taken: {need - ops}")
            for (k, ar), lines in sorted(comps.items(), key=lambda kv: -len(kv[1])):
                futs.append(((size, k, ar), pool.submit(walk_component, (size, k, ar, nm, nv, lines, 3, bcu))))
            del comps
        for j, f in zip(jobs, inv):
            r = f.result()
            ck.add_tlc(r, f"TemplateCache invariants cache_size={j[3]} names={len(j[1])} versions={j[2]}"
                          + (" bytecode_cache" if len(j) > 9 and j[9] else ""))
            if j[8]:
                ck.require_coverage(r, ACTIONS)
        ntasks = len(futs)
        for t, f in futs:
            res = f.result()
            replayed += res["edges"]
            steps += res["steps"]
            drift += res["drift"]
            for s in res["samples"]:
                ck.sample(s)
            for v in res["violations"]:
                ck.violation(v["case"], v["what"], v["fp"])
            if res["unvisited"] and not res["violations"] and not res["diverged"]:
                raise core.MachineryError(f"replay left {res['unvisited']} edges unvisited in component {t}")
            unvisited += res["unvisited"]
    ck.traces = replayed
    ck.evaluations = steps
    ck.extra["graph_edges"] = total_edges
    ck.extra["graph_edges_replayed"] = replayed
    ck.extra["real_steps_executed"] = steps
    ck.extra["components"] = ntasks
    ck.extra["edges_not_reached_because_the_code_left_the_model"] = unvisited
    if drift:
        ck.extra["drift"] = drift[:10]
        for d in drift[:3]:
            print(f"SPEC-DRIFT property=C25 {d}"[:400])
    ck.extra["excluded_shapes"] = [
        "source changed while the loader's stamp (mtime / generation) is unchanged: the loader's own check cannot see it",
        "auto_reload=True with a loader that supplies no up-to-date check (FunctionLoader returning str): the property "
        "is silent; the spec's operational layer (never reloaded) is compared and a mismatch reported as drift",
        "order of an unbounded (dict) cache: compared as a set",
        "replacing env.loader while templates are cached (cache keys of the old loader)",
    ]
    ck.exhaustive = True
    ck.extra["exhaustive_note"] = ("every transition of the complete reachable state graph of the bounded model "
                                   "(histories of any length, states identified up to the abstraction) is replayed")
    ck.assumptions += [
        "every Modify / Touch / Add gives the template a never-used mtime (os.utime) / generation stamp",
        "template text <name@vN> identifies (name, version); rendering a cached Template shows which version it holds",
    ]


def replay(ck, rec):
    case = rec["case"]
    v = run_case(case)
    if v is not None and v[0] == "violation":
        ck.violation(case, f"still differs: {v[1]}", rec.get("fingerprint"))
