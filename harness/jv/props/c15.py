"""C15 - autoescaping never lets unescaped data or string literals into the output.

Spec: spec/Jinja.tla + JValues.tla: every output segment records its origin (template text,
string literal, context data) and its escape count; invariant C15_NoLeak (checked by TLC in
every state of every program that does not mark values safe): under autoescaping every
data / literal segment has been escaped at least once, and C15_TemplateTextVerbatim.
Two bindings:
  (a) exact: programs in the modelled fragment (macros, call blocks, super/self, set blocks,
      filter blocks, includes, imports, join / default / string / ~ / +, safe-marked values,
      static, name-selected and runtime-decided autoescaping) must render the spec's text;
  (b) scanner: for *every* built-in filter with data-controlled arguments the rendered
      output (template text is metacharacter-free) is validated by TLC as a character trace
      against the HtmlScan automaton (spec/LeakScan.tla): any raw < > " ' outside the anchor
      / attribute markup that urlize / xmlattr are documented to emit is a leak.
"""
from __future__ import annotations

import json
import random
from concurrent.futures import ProcessPoolExecutor

from .. import core, jgen, jrun
from .. import jast as J


def fingerprint(m, case):
    return {"kind": "render-mismatch", "variant": m["variant"]}


# documented select_autoescape rule (docs/api.rst): html, htm, xml enabled, case-insensitive
SELECT_TABLE = [("a.html", True), ("a.HTML", True), ("b.htm", True), ("c.xml", True), ("d.txt", False),
                ("e.html.txt", False), ("noext", False), ("f.XmL", True)]


def selector_cases(seed, n, start_id):
    """Include/import sets whose templates are renamed to names the selector must classify."""
    rnd = random.Random(seed)
    base = jgen.module_cases(seed, n, start_id=start_id)
    out = []
    for c in base:
        names = list(c["tpls"])
        picks = rnd.sample(SELECT_TABLE, len(names))
        ren = {old: new for old, (new, _) in zip(names, picks)}
        auto = {new: a for new, a in picks}
        tpls = {}
        for old, t in c["tpls"].items():
            body = json.loads(json.dumps(t["body"]))
            for node in J.walk(body):
                if node.get("k") == "const" and node["v"].get("t") == "str" and J.seg_text(node["v"]["s"]) in ren:
                    node["v"] = J.vstr(ren[J.seg_text(node["v"]["s"])], "lit")
            tpls[ren[old]] = J.template(body, auto[ren[old]])
        datas = []
        for d in c["datas"]:
            d = dict(d)
            if "tplname" in d and J.seg_text(d["tplname"]["s"]) in ren:
                d["tplname"] = J.vstr(ren[J.seg_text(d["tplname"]["s"])])
            datas.append(d)
        nc = J.make_case(c["id"], tpls, ren[c["main"]], datas, globals_={"g": J.vstr("G&<")})
        out.append(nc)
    return out


def run(ck):
    quick = ck.tier == "quick"
    # (a) exact prediction
    cases = jgen.random_cases(ck.seed * 31 + 15, 220 if quick else 5000, auto_mode="on", features=("loopcontrols", "safe"), size=8)
    cases += jgen.inherit_cases(ck.seed * 31 + 16, 100 if quick else 2500, start_id=len(cases) + 1, auto=True)
    cases += jgen.module_cases(ck.seed * 31 + 17, 100 if quick else 2500, start_id=len(cases) + 1, auto=True)
    cases += jgen.expr_cases(ck.seed * 31 + 18, 150 if quick else 3000, start_id=len(cases) + 1, auto=True)
    cases += jgen.fragment_cases(True, start_id=len(cases) + 1, neutral=False)
    cases += jgen.lazy_cases(ck.seed * 31 + 22, 80 if quick else 1500, start_id=len(cases) + 1, auto=True)
    for c in cases:
        c.pop("emit_values", None)
    obs, r = jrun.spec_results("C15", cases, name="auto_on", timeout=3000)
    ck.add_tlc(r, f"Jinja.tla autoescape on ({len(cases)} programs), invariant C15_NoLeak")
    jrun.conformance(ck, cases, obs, [{"label": "autoescape-on"}, {"label": "autoescape-on/async", "opts": {"enable_async": True}, "how": "render_async"}],
                     fingerprint)
    ck.extra["programs_without_safe_marks_checked_by_C15_NoLeak"] = sum(1 for c in cases if not c["marks_safe"])
    sel = selector_cases(ck.seed * 31 + 19, 120 if quick else 2500, len(cases) + 1)
    obs2, r2 = jrun.spec_results("C15", sel, name="selector", timeout=3000)
    ck.add_tlc(r2, f"Jinja.tla name-selected autoescape ({len(sel)} template sets)")
    import jinja2
    jrun.conformance(ck, sel, obs2, [{"label": "select_autoescape", "opts": {"autoescape": "SELECT"}}], fingerprint)
    # (a') runtime-decided autoescaping: autoescape blocks (constant and computed), macros, blocks and
    # set blocks defined under one mode and used under the other, blocks written inside autoescape blocks
    reg = jgen.random_cases(ck.seed * 31 + 20, 260 if quick else 5000, start_id=len(cases) + len(sel) + 1, auto_mode="mixed",
                            features=("loopcontrols", "regions"), size=9)
    reg += jgen.inherit_cases(ck.seed * 31 + 21, 160 if quick else 3000, start_id=len(cases) + len(sel) + len(reg) + 1, rich=True)
    for c in reg:
        c.pop("emit_values", None)
    obs3, r3 = jrun.spec_results("C15", reg, name="regions", timeout=3000)
    ck.add_tlc(r3, f"Jinja.tla autoescape blocks ({len(reg)} programs), invariant C15_NoLeak with off-mode origin tags")
    jrun.conformance(ck, reg, obs3, [{"label": "regions"}, {"label": "regions/async", "opts": {"enable_async": True}, "how": "render_async"},
                                     {"label": "regions/unoptimized", "opts": {"optimized": False}}], fingerprint)
    ck.extra["programs_with_autoescape_blocks"] = sum(1 for c in reg if any(n.get("k") == "autoescape" for t in c["tpls"].values()
                                                                              for n in J.walk(t["body"])))
    # (b) scanner over all built-in filters
    try:
        from . import c15_scan
    except ImportError:
        c15_scan = None
    if c15_scan is not None:
        c15_scan.run(ck)
    ck.exhaustive = False


def replay(ck, rec):
    c = rec["case"]
    if c.get("kind") == "scan":
        from . import c15_scan
        return c15_scan.replay(ck, rec)
    case = c["case"]
    obs, r = jrun.spec_results("C15", [case], name="replay", workers=2)
    jrun.conformance(ck, [case], obs, [{"label": c.get("variant", "replay"),
                                        **({"opts": {"autoescape": "SELECT"}} if c.get("variant") == "select_autoescape" else {})}],
                     fingerprint, procs=1)
