"""C31 - precompiled templates render exactly like templates compiled from source.

Spec: spec/Jinja.tla gives the text of every template set (inheritance, include, import
between templates); nothing in the semantics depends on how a template was loaded, and a
template is bound to the environment that *loads* it (globals, autoescape, undefined).
Every generated set is compiled ahead of time with Environment.compile_templates (to a
directory, to a deflated zip, to a stored zip) and rendered through ModuleLoader - alone,
behind a ChoiceLoader and behind a PrefixLoader-free ChoiceLoader fallback - and must give
the spec's text, also when the compiling environment differs from the loading one.
"""
from __future__ import annotations

import os
import shutil
import tempfile
from concurrent.futures import ProcessPoolExecutor

from .. import core, jgen, jrun
from .. import jast as J


def _work(args):
    core.use_repo()
    import jinja2
    from jinja2 import ModuleLoader, ChoiceLoader, DictLoader
    case, obs_by_d = args
    out, n = [], 0
    env_src, srcs = jrun.make_env(case)
    tmp = tempfile.mkdtemp(prefix="jvc31_")
    try:
        targets = {}
        for mode in ("dir", "deflated", "stored"):
            t = os.path.join(tmp, mode if mode == "dir" else mode + ".zip")
            # the compiling environment deliberately has other globals / no autoescape function of its own
            comp_env, _ = jrun.make_env(case)
            comp_env.globals["g"] = "COMPILE-TIME-GLOBAL"
            comp_env.compile_templates(t, zip=None if mode == "dir" else mode, log_function=lambda m: None)
            targets[mode] = t
        # one ModuleLoader shared by two environments with different globals: A loads, B loads, A renders
        for mode, path in targets.items():
            ml = ModuleLoader(path)
            envA, _ = jrun.make_env(case)
            envA.loader = ml
            envB, _ = jrun.make_env(case)
            envB.loader = ml
            envB.globals["g"] = "OTHER-ENVIRONMENT"
            envB.filters["default"] = lambda *a, **k: "OTHER-ENVIRONMENT"
            try:
                envA.get_template(case["main"])
                envB.get_template(case["main"])
                for tn in case["tpls"]:
                    envB.get_template(tn)
            except Exception:  # noqa
                pass
            for di, obs in obs_by_d.items():
                if obs["err"] == "EXCLUDED":
                    continue
                real = jrun.real_render(case, di, env=envA)
                n += 1
                m = jrun.compare(obs, real)
                if m is not None:
                    out.append({"case": case["id"], "d": di, "what": f"[{mode}/shared-loader] {m}", "src": srcs})
        for mode, path in targets.items():
            for lname in ("module", "choice"):
                env, _ = jrun.make_env(case)
                ml = ModuleLoader(path)
                env.loader = ml if lname == "module" else ChoiceLoader([ml, DictLoader({"__never__": ""})])
                for di, obs in obs_by_d.items():
                    if obs["err"] == "EXCLUDED":
                        continue
                    real = jrun.real_render(case, di, env=env)
                    n += 1
                    m = jrun.compare(obs, real)
                    if m is not None:
                        out.append({"case": case["id"], "d": di, "what": f"[{mode}/{lname}] {m}", "src": srcs})
    except Exception as e:  # noqa
        out.append({"case": case["id"], "d": 0, "what": f"precompilation failed: {e!r}", "src": srcs})
    finally:
        shutil.rmtree(tmp, ignore_errors=True)
    return out, n


def run(ck):
    quick = ck.tier == "quick"
    cases = jgen.corpus(ck.seed + 31, *((40, 110, 110, 20) if quick else (800, 3000, 3000, 500)))
    # code whose lexical autoescape mode differs from the mode in force where it runs (autoescape blocks, constant
    # and decided at run time; macros and blocks defined under one mode and used under the other): precompiled code
    # bakes the lexical decision in exactly as source-compiled code does
    cases += jgen.random_cases(ck.seed * 31 + 313, 50 if quick else 1200, start_id=len(cases) + 1, auto_mode="mixed",
                               features=("loopcontrols", "regions"), size=9)
    cases += jgen.inherit_cases(ck.seed * 31 + 314, 40 if quick else 1000, start_id=len(cases) + 1, rich=True)
    for c in cases:
        c.pop("emit_values", None)
    # template names are opaque keys: sets whose names differ only by ./ , // or x/../ must stay apart
    import json as _json
    extra = []
    for c in jgen.module_cases(ck.seed * 31 + 311, 60 if quick else 1500):
        names = [n_ for n_ in c["tpls"] if n_ not in ("main", "show")]
        if len(names) < 2:
            continue
        ren = dict(zip(names, ["t", "./t", "w/../t"]))
        blob = _json.dumps({"tpls": c["tpls"], "datas": c["datas"]})
        tpls = {}
        for old, t_ in c["tpls"].items():
            body = _json.loads(_json.dumps(t_["body"]))
            for node in J.walk(body):
                if node.get("k") == "const" and node["v"].get("t") == "str" and J.seg_text(node["v"]["s"]) in ren:
                    node["v"] = J.vstr(ren[J.seg_text(node["v"]["s"])], "lit")
            tpls[ren.get(old, old)] = J.template(body, t_["auto"])
        datas = []
        for d_ in c["datas"]:
            d_ = dict(d_)
            if "tplname" in d_ and J.seg_text(d_["tplname"]["s"]) in ren:
                d_["tplname"] = J.vstr(ren[J.seg_text(d_["tplname"]["s"])])
            datas.append(d_)
        extra.append(J.make_case(0, tpls, "main", datas, globals_={"g": J.vstr("G&")}, tglobals=c.get("tglobals")))
    # empty and whitespace-only templates are templates too: included, imported and rendered on their own
    C_, N_ = J.Const, J.Name
    for i, c in enumerate(jgen.module_cases(ck.seed * 31 + 312, 24 if quick else 400)):
        tpls = dict(c["tpls"])
        auto = tpls["main"]["auto"]
        tpls["empty.html"] = J.template([], auto)
        tpls["ws.txt"] = J.template([J.Text("  \n ")], auto)
        body = list(tpls["main"]["body"]) + [J.Text("<"), J.Include(C_("empty.html")), J.Text("|"), J.Include(C_("ws.txt")), J.Text("|"),
                                             J.Import(C_("empty.html"), "em"), J.Out(N_("em")), J.Out(J.Getattr(N_("em"), "zz")), J.Text(">")]
        tpls["main"] = J.template(body, auto)
        extra.append(J.make_case(0, tpls, ["main", "empty.html", "ws.txt"][i % 3] if i % 4 == 3 else "main", c["datas"],
                                 globals_={"g": J.vstr("G&")}, tglobals=c.get("tglobals") if i % 4 != 3 else None))
    for c in extra:
        c["id"] = len(cases) + 1
        cases.append(c)
    obs, r = jrun.spec_results("C31", cases, name="sets", timeout=3000)
    ck.add_tlc(r, f"Jinja.tla ({len(cases)} template sets)")
    by_case = {}
    for (cid, di), o in obs.items():
        by_case.setdefault(cid, {})[di] = o
    cmap = {c["id"]: c for c in cases}
    total = 0
    with ProcessPoolExecutor(max_workers=16) as ex:
        for mism, n in ex.map(_work, [(c, by_case[c["id"]]) for c in cases], chunksize=4):
            total += n
            for m in mism:
                ck.violation({"kind": "precompiled", "case": cmap[m["case"]], "d": m["d"]},
                             f"case {m['case']} data#{m['d']}: {m['what'][:260]} :: {str(m['src'])[:160]}",
                             {"kind": "precompiled-differs"})
    ck.traces += total
    ck.evaluations += total
    ck.extra["precompiled_renders_compared"] = total
    ck.extra["template_sets"] = len(cases)
    ck.exhaustive = False


def replay(ck, rec):
    case = rec["case"]["case"]
    obs, r = jrun.spec_results("C31", [case], name="replay", workers=2)
    by = {}
    for (cid, di), o in obs.items():
        by.setdefault(cid, {})[di] = o
    mism, n = _work((case, by[case["id"]]))
    for m in mism:
        ck.violation(rec["case"], m["what"][:300], {"kind": "precompiled-differs"})
