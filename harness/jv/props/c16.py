"""C16 - autoescaping escapes each value exactly once.

Spec: spec/Jinja.tla with the Markup algebra of JValues.tla: every output segment carries
how many times it was escaped.  Invariants C16_ExactlyOnce (autoescape on: every segment
that stems from data or a string literal has escape count exactly 1) and
C16_OffNeverEscapes (autoescape off: count 0) are checked by TLC in every state of every
escaping-neutral program.  Real jinja2 must produce the spec's text in both modes, and
HTML-unescaping the autoescaped output once must give the unescaped output.
"""
from __future__ import annotations

import html
from concurrent.futures import ProcessPoolExecutor

from .. import core, jgen, jrun
from .. import jast as J


def fingerprint(m, case):
    return {"kind": "render-mismatch", "variant": m["variant"]}


def _pair_work(args):
    core.use_repo()
    con, coff, ok_ds = args
    out, n = [], 0
    e1, s1 = jrun.make_env(con)
    e0, s0 = jrun.make_env(coff)
    for di in ok_ds:
        a = jrun.real_render(con, di, env=e1)
        b = jrun.real_render(coff, di, env=e0)
        n += 1
        if a["err"] or b["err"]:
            if a["err"] != b["err"]:
                out.append({"case": con["id"], "d": di, "what": f"autoescape on raises {a['err'] or 'nothing'}, off raises {b['err'] or 'nothing'}", "src": s1})
            continue
        if html.unescape(a["out"]) != b["out"]:
            out.append({"case": con["id"], "d": di, "src": s1,
                        "what": f"unescape(on)={html.unescape(a['out'])!r} != off={b['out']!r} (on={a['out']!r})"})
    return out, n


def run(ck):
    quick = ck.tier == "quick"
    sizes = (200, 100, 100) if quick else (5000, 2500, 2500)
    on = jgen.neutral_corpus(ck.seed + 16, *sizes, auto=True)
    on += jgen.fragment_cases(True, start_id=len(on) + 1)
    off = jgen.neutral_corpus(ck.seed + 16, *sizes, auto=False, start_id=len(on) + 1)
    off += jgen.fragment_cases(False, start_id=len(on) + len(off) + 1)
    assert all(jrun.sources(a) == jrun.sources(b) for a, b in zip(on[:50], off[:50]))
    obs_on, r1 = jrun.spec_results("C16", on, name="on", timeout=3000)
    ck.add_tlc(r1, f"Jinja.tla autoescape on ({len(on)} programs), invariant C16_ExactlyOnce")
    obs_off, r0 = jrun.spec_results("C16", off, name="off", timeout=3000)
    ck.add_tlc(r0, f"Jinja.tla autoescape off ({len(off)} programs), invariant C16_OffNeverEscapes")
    jrun.conformance(ck, on, obs_on, [{"label": "autoescape-on"}], fingerprint)
    jrun.conformance(ck, off, obs_off, [{"label": "autoescape-off"}], fingerprint)
    # the metamorphic relation itself, on the real engine, for programs the spec judges (not EXCLUDED)
    jobs = []
    for a, b in zip(on, off):
        ds = [di for di in range(1, len(a["datas"]) + 1)
              if obs_on[(a["id"], di)]["err"] != "EXCLUDED" and obs_off[(b["id"], di)]["err"] != "EXCLUDED"]
        jobs.append((a, b, ds))
    total = 0
    cmap = {c["id"]: c for c in on}
    with ProcessPoolExecutor(max_workers=16) as ex:
        for mism, n in ex.map(_pair_work, jobs, chunksize=8):
            total += n
            for m in mism:
                ck.violation({"kind": "pair", "case": cmap[m["case"]], "d": m["d"]},
                             f"case {m['case']} data#{m['d']}: {m['what']} :: {str(m['src'])[:200]}", {"kind": "unescape-relation"})
    # spec-level relation: removing one escape from every data segment of the on-run gives the off-run
    nrel = 0
    for a, b in zip(on, off):
        for di in range(1, len(a["datas"]) + 1):
            x, y = obs_on[(a["id"], di)], obs_off[(b["id"], di)]
            if x["err"] or y["err"]:
                continue
            nrel += 1
            if "".join(s["a"] for s in x["out"]) != "".join(s["a"] for s in y["out"]):
                ck.violation({"kind": "spec-relation", "case": a, "d": di}, f"spec outputs differ beyond escaping for case {a['id']}",
                             {"kind": "spec-on-off-differ"})
    ck.traces += total
    ck.extra["on_off_pairs_compared"] = total
    ck.extra["spec_on_off_pairs"] = nrel
    ck.exhaustive = False


def replay(ck, rec):
    c = rec["case"]
    case = c["case"]
    obs, r = jrun.spec_results("C16", [case], name="replay", workers=2)
    jrun.conformance(ck, [case], obs, [{"label": "replay"}], fingerprint, procs=1)
