"""C03 - statements and variable scoping follow Jinja's scoping rules.

Spec: spec/Jinja.tla (+ JValues.tla): the abstract interpreter with explicit scope
frames.  TLC renders every generated program on every data assignment and
publishes the observable (output segments or error class); real jinja2 must
agree under every consistent renaming of identifiers.
"""
from __future__ import annotations

import random
import unicodedata

from .. import core, jgen, jrun
from .. import jast as J


def fingerprint(m, case):
    fp = {"kind": "render-mismatch", "variant": m["variant"]}
    if m["variant"] == "names:nfkc":
        fp = {"kind": "identifier-alias", "scheme": "nfkc"}
    return fp


def variants(tier):
    vs = [{"label": "names:" + k, "names": v} for k, v in jgen.NAME_SCHEMES.items()]
    vs.append({"label": "unoptimized", "opts": {"optimized": False}})
    return vs


def build_cases(ck):
    quick = ck.tier == "quick"
    rnd = random.Random(ck.seed)
    cases = jgen.small_cases(3 if quick else 4, 1, limit=400 if quick else 12000, rnd=rnd)
    n0 = len(cases)
    cases += jgen.random_cases(ck.seed * 7919 + 1, 300 if quick else 6000, start_id=n0 + 1, size=9)
    cases += jgen.random_cases(ck.seed * 7919 + 2, 40 if quick else 800, start_id=len(cases) + 1, size=6, undefined="strict")
    cases += jgen.random_cases(ck.seed * 7919 + 3, 40 if quick else 800, start_id=len(cases) + 1, size=6, undefined="chainable")
    cases += jgen.scope_cases(ck.seed * 7919 + 4, 250 if quick else 5000, start_id=len(cases) + 1)
    cases += jgen.random_cases(ck.seed * 7919 + 5, 60 if quick else 1500, start_id=len(cases) + 1, size=10,
                               features=("loopcontrols", "recursive"))
    cases += jgen.random_cases(ck.seed * 7919 + 6, 80 if quick else 2000, start_id=len(cases) + 1, size=8,
                               features=("loopcontrols", "stateful"))
    # autoescape blocks are scopes of their own
    cases += jgen.random_cases(ck.seed * 7919 + 7, 60 if quick else 1500, start_id=len(cases) + 1, size=9,
                               features=("loopcontrols", "regions"))
    return cases, n0


def ideal_deviation(ck, cases, o_impl):
    """The spec read without the implementation's pre-declaration of locals (Predeclare = FALSE) is the plain
    documented scoping rule.  Where it differs from Predeclare = TRUE -- which real jinja2 was just shown to
    follow exactly -- the implementation deviates from the documented rule (known finding F13)."""
    import copy
    import json
    sub = cases[: 800 if ck.tier == "quick" else 8000]
    ideal = []
    for c in sub:
        c2 = dict(c)
        c2["cfg"] = dict(c["cfg"], predeclare=False)
        ideal.append(c2)
    o_ideal, r2 = jrun.spec_results("C03", ideal, name="ideal_sub", timeout=3000)
    ck.add_tlc(r2, f"Jinja.tla Predeclare=FALSE ({len(sub)} programs)")
    n = 0
    for key, oi in o_ideal.items():
        om = o_impl.get(key)
        if om is None or oi["err"] == "EXCLUDED" or om["err"] == "EXCLUDED":
            continue
        if (oi["err"], oi["out"]) != (om["err"], om["out"]):
            n += 1
            case = next(c for c in sub if c["id"] == key[0])
            ck.violation({"kind": "ideal-vs-impl", "case": case, "d": key[1], "src": jrun.sources(case),
                          "ideal": oi["err"] or J.expected_text(oi["out"]),
                          "implementation": om["err"] or J.expected_text(om["out"])},
                         f"scoping deviation: {jrun.sources(case)['main'][:200]!r} data#{key[1]} documented rule gives "
                         f"{oi['err'] or J.expected_text(oi['out'])!r}, jinja2 gives {om['err'] or J.expected_text(om['out'])!r}",
                         {"kind": "predeclared-local-shadows-context"})
    ck.extra["ideal_vs_implementation_deviations"] = n


def run(ck):
    cases, n_small = build_cases(ck)
    total = 0
    allobs = {}
    for bi, batch in enumerate(core.chunks(cases, 2500)):
        obs, r = jrun.spec_results("C03", batch, name=f"b{bi}", coverage=False, timeout=3000)
        ck.add_tlc(r, f"Jinja.tla batch {bi} ({len(batch)} programs)")
        allobs.update(obs)
        total += jrun.conformance(ck, batch, obs, variants(ck.tier), fingerprint)
    ideal_deviation(ck, cases, allobs)
    ck.extra["programs"] = len(cases)
    ck.extra["programs_exhaustive_small"] = n_small
    ck.exhaustive = False
    ck.extra["excluded_shapes"] = ["true division and float results", "ordering comparisons of strings/lists",
                                   "repr of containers holding strings", "builtin methods of str/list/dict",
                                   "loop.changed / cycler / joiner state"]
    ck.assumptions += ["identifier renaming schemes avoid Jinja keywords; 'underscore' names change export status only "
                       "(irrelevant for single-template programs)"]


def replay(ck, rec):
    c = rec["case"]
    case = c["case"]
    obs, r = jrun.spec_results("C03", [case], name="replay", workers=2)
    if c.get("kind") == "ideal-vs-impl":
        ideal_deviation(ck, [case], obs)
        return
    v = [x for x in variants("thorough") if x["label"] == c["variant"]] or [{"label": c["variant"]}]
    jrun.conformance(ck, [case], obs, v, fingerprint, procs=1)
