"""C04 - template inheritance renders the most-derived block overrides.

Spec: spec/Jinja.tla (block stacks per context, extends registration, super / self
references, scoped and required blocks, output suppression after extends), invariant
C04_StackIsChainOrder.  Generated hierarchies are rendered by TLC and by real jinja2
from a DictLoader.
"""
from __future__ import annotations

from .. import core, jgen, jrun


def fingerprint(m, case):
    return {"kind": "render-mismatch", "variant": m["variant"]}


# (async environments and generate() call blocks through the buffered code path, not through `yield from`)
VARIANTS = [{"label": "default"}, {"label": "unoptimized", "opts": {"optimized": False}},
            {"label": "async/render_async", "opts": {"enable_async": True}, "how": "render_async"},
            {"label": "async/render", "opts": {"enable_async": True}}]


def run(ck):
    quick = ck.tier == "quick"
    n = 500 if quick else 8000
    cases = jgen.inherit_cases(ck.seed * 104729 + 4, n)
    # statements that write output outside of blocks in child templates (include, call and filter blocks,
    # blocks nested in for / with / autoescape), blocks inside autoescape blocks
    cases += jgen.inherit_cases(ck.seed * 104729 + 5, 300 if quick else 5000, start_id=len(cases) + 1, rich=True)
    for bi, batch in enumerate(core.chunks(cases, 2500)):
        obs, r = jrun.spec_results("C04", batch, name=f"b{bi}", timeout=3000)
        ck.add_tlc(r, f"Jinja.tla inheritance batch {bi} ({len(batch)} hierarchies)")
        jrun.conformance(ck, batch, obs, VARIANTS, fingerprint)
    ck.extra["hierarchies"] = len(cases)
    ck.exhaustive = False
    ck.extra["excluded_shapes"] = ["extends with a list of names (not documented)", "unbounded self-recursion of blocks"]


def replay(ck, rec):
    case = rec["case"]["case"]
    obs, r = jrun.spec_results("C04", [case], name="replay", workers=2)
    jrun.conformance(ck, [case], obs, VARIANTS, fingerprint, procs=1)
