"""C28 - loaders never resolve a template name outside their search locations.

Specs: spec/Loaders.tla (split_template_path, posixpath.join, normpath and the
operating system's path resolution on an abstract directory tree with sentinel
files outside the search directories) and spec/LoaderCompose.tla (ChoiceLoader /
PrefixLoader resolution as a machine with an explicit stack of loader calls,
checked against the declarative "first candidate that has it" rule) and
spec/LoaderSession.tla (the same machine asked again and again on ONE composition
while the contents of the leaves change: every answer is the first candidate that
has the name now, whatever was asked before).

Binding (spec->code): the tree, the loaders, the fragment alphabet and the
loader compositions are constants of the specifications; the harness builds
exactly that tree on disk, TLC enumerates every name / composition, checks the
C28_* invariants on the model and prints the expected outcome of every
behaviour (every session: of every lookup in it); every behaviour is replayed on the real FileSystemLoader /
PackageLoader (directory and zip) / ChoiceLoader / PrefixLoader with a
sys.addaudithook recording every open().  The oracle is the TLC output; Python
only builds inputs, drives jinja2, projects (outcome, opened files) and compares.
"""
from __future__ import annotations

import importlib
import itertools
import json
import os
import random
import shutil
import sys
import tempfile
import time
import zipfile

from .. import core

PID = "C28"
NF = [["TemplateNotFound"]]

# ---------------------------------------------------------------------------
# atoms <-> text
# ---------------------------------------------------------------------------
# word atoms that stand for non-ASCII text.  The "c*" atoms are compatibility look-alikes of the
# characters the mechanism distinguishes: in the specification they are ordinary name characters (a
# segment made of them is a file name that does not exist), whatever Unicode folding would make of them.
WORDMAP = {"ue": "\u00e9",
           "cdot": "\uff0e",      # FULLWIDTH FULL STOP
           "cdot1": "\u2024",     # ONE DOT LEADER
           "c2dot": "\u2025",     # TWO DOT LEADER
           "csdot": "\ufe52",     # SMALL FULL STOP
           "cslash": "\uff0f",    # FULLWIDTH SOLIDUS
           "cbslash": "\uff3c",   # FULLWIDTH REVERSE SOLIDUS
           "ca": "\uff41",        # FULLWIDTH LATIN SMALL LETTER A
           "csub": "\uff53\uff55\uff42",   # fullwidth "sub"
           # white space (the constant Blanks of Loaders.tla): ordinary name characters for the loaders
           "SPC": " ", "TAB": "\t", "NL": "\n", "NBSP": "\u00a0", "IDSP": "\u3000"}
BLANKS = ["SPC", "TAB", "NL", "NBSP", "IDSP"]
# segments padded with white space: parent references ('.. ', ' ..', '..\t', ...), a padded '.', padded file
# names and a segment of white space only.  In the specification each is a file name (that does not exist).
PADDED_FRAGS = [[".", ".", "SPC"], ["SPC", ".", "."], [".", ".", "TAB"], ["NL", ".", ".", "SPC"], [".", ".", "NBSP"],
                ["IDSP", ".", "."], [".", "SPC"], ["a", "SPC"], ["SPC", "sub"], ["SPC"]]
CONFUSABLE_FRAGS = [["c2dot"], ["cdot", "cdot"], ["cdot1", "cdot1"], [".", "cdot1"], ["csdot", "csdot"],
                    [".", ".", "cslash", "a"], [".", ".", "cbslash", "a"], ["ca"], ["csub"]]


def text(atoms):
    return "".join(WORDMAP.get(a, a) for a in atoms)


def loc_path(loc):
    """absolute real path of a location (list of components, each a list of atoms)"""
    return "/" + "/".join(text(c) for c in loc)


def W(*words):
    return [[w] for w in words]


BSX = [".", ".", "\\", "x"]          # a file literally named  ..\x
ABK = ["a", "\\", ".", "."]          # a file literally named  a\..
CCOL = ["C", ":"]                    # a file literally named  C:
POSIX = {"sep": "/", "altsep": ""}
WINDOWS = {"sep": "\\", "altsep": "/"}
CODE = {"pardir": True, "sep": True, "split": True, "verbatim": True}
NOVERBATIM = dict(CODE, verbatim=False)     # pieces white-space-normalised after the check
NOPARDIR = dict(CODE, pardir=False)
NOSEP = dict(CODE, sep=False)
NOSPLIT = dict(CODE, split=False)

tla = core.tla_str


def path_words(path):
    ws = [p for p in path.split("/") if p]
    for w in ws:
        if set(w) <= {"."} or "\\" in w or ":" in w:
            raise core.MachineryError(f"path component {w!r} of {path!r} cannot be a word atom")
    return W(*ws)


# ---------------------------------------------------------------------------
# the scratch tree (input of both TLC and the real loaders)
# ---------------------------------------------------------------------------
class Tree:
    def __init__(self):
        base = os.path.realpath(tempfile.mkdtemp(prefix="jvc28", dir="/tmp"))
        self.root = base
        self.base = path_words(base)
        self.above = self.base + W("o1", "o2")
        self.d1 = self.above + W("sp1")
        self.d2 = self.above + W("sp2")
        self.pkgs = self.above + W("pkgs")
        self.dp = self.pkgs + W("jvpkg28", "templates")
        inside = []
        inside += [self.d1 + r for r in (W("a"), W("sub", "a"), [BSX], W("sub") + [CCOL], W("ue"))]
        inside += [self.d2 + r for r in (W("a"), W("sub", "ue"), [CCOL], [ABK], W("sub", "sub", "a"), W("x"))]
        # a file literally named 'a ' and a DIRECTORY literally named '.. ' (white space is part of the name)
        inside += [self.d1 + [["a", "SPC"]], self.d2 + [[".", ".", "SPC"], ["a"]]]
        inside += [self.dp + r for r in (W("a"), W("sub", "a"), W("ue"), [BSX], W("sub", "x"))]
        outside = []
        for k in range(len(self.base), len(self.above) + 1):
            p = self.above[:k]
            outside += [p + W("a"), p + W("sub", "a"), p + W("x"), p + W("ue")]
        outside += [self.pkgs + W("a"), self.pkgs + W("jvpkg28", "a"), self.pkgs + W("jvpkg28", "sub", "a"),
                    self.pkgs + W("jvpkg28", "__init__")]
        self.inside, self.outside = inside, outside
        self.files = inside + outside
        self.loaders = {
            "fs1": {"dirs": [self.d1], "norm": False},
            "fs12": {"dirs": [self.d1, self.d2], "norm": False},
            "fs21": {"dirs": [self.d2, self.d1], "norm": False},
            "pkg": {"dirs": [self.dp], "norm": True},
        }
        # the absolute path (without the leading "/") of a sentinel, as one fragment
        self.abs_frag = []
        for c in self.above + W("a"):
            self.abs_frag += (["/"] if self.abs_frag else []) + c
        self.build()

    def build(self):
        for loc in self.files:
            p = loc_path(loc)
            os.makedirs(os.path.dirname(p), exist_ok=True)
            with open(p, "w", encoding="utf-8") as f:
                f.write(json.dumps(loc))
        with open(loc_path(self.pkgs + W("jvpkg28")) + "/__init__.py", "w") as f:
            f.write("")

    def frags(self):
        return [[], ["."], [".", "."], ["a"], ["sub"], BSX, ABK, CCOL, ["ue"], ["\\"],
                [".", ".", "\\", ".", ".", "\\", "a"], self.abs_frag]

    def close(self):
        shutil.rmtree(self.root, ignore_errors=True)


def tla_fun(d):
    return "(" + " @@ ".join(f"{tla(k)} :> {v}" for k, v in d.items()) + ")"


def mc_module(files, loaders, frags, last, platforms, switches):
    ld = tla_fun({k: f'[dirs |-> {tla(v["dirs"])}, norm |-> {tla(v["norm"])}]' for k, v in loaders.items()})
    return f"""---- MODULE MC_Loaders ----
EXTENDS Loaders
mc_Frags == {{{", ".join(tla(f) for f in frags)}}}
mc_LastFrags == {{{", ".join(tla(f) for f in (frags if last is None else last))}}}
mc_Files == {{{", ".join(tla(f) for f in files)}}}
mc_Loaders == {ld}
mc_Platforms == {{{", ".join(tla(p) for p in platforms)}}}
mc_Switches == {{{", ".join(tla(s) for s in switches)}}}
mc_Blanks == {{{", ".join(tla(b) for b in BLANKS)}}}
====
"""


def mc_cfg(maxsegs, liveness=False):
    s = f"""CONSTANTS
  Frags <- mc_Frags
  LastFrags <- mc_LastFrags
  Files <- mc_Files
  Loaders <- mc_Loaders
  Platforms <- mc_Platforms
  Switches <- mc_Switches
  Blanks <- mc_Blanks
  MaxSegs = {maxsegs}
SPECIFICATION Spec
INVARIANT C28_ResolvedInside
INVARIANT C28_RejectIsNotFound
INVARIANT C28_MatchesAbstract
INVARIANT C28_OpensOnlyResult
INVARIANT C28_JoinNeverResets
INVARIANT C28_PiecesClean
INVARIANT C28_PiecesVerbatim
INVARIANT C28_PaddedParentIsAName
INVARIANT C28_NormpathNeutral
"""
    if liveness:
        s += "PROPERTY C28_Terminates\n"
    return s


def run_loaders_tlc(name, files, loaders, frags, maxsegs, last=None, platforms=(POSIX,), switches=(CODE,),
                    coverage=False, liveness=False, workers=16):
    d = core.workdir(PID, name + "_mc")
    mc = d / "MC_Loaders.tla"
    mc.write_text(mc_module(files, loaders, frags, last, platforms, switches))
    return core.run_tlc(PID, "MC_Loaders", mc_cfg(maxsegs, liveness), name=name, extra_modules=[mc],
                        coverage=coverage, timeout=2400, workers=workers)


def behaviours(r):
    """deduplicated PrintT records of a Loaders run, keyed (platform, switches, loader, name)"""
    seen = {}
    for x in set(r.printed()):
        b = json.loads(x)
        k = (b["p"], tuple(b["sw"]), b["l"], tuple(b["n"]))
        if k in seen and seen[k] != b:
            raise core.MachineryError(f"Loaders.tla printed two outcomes for {k}")
        seen[k] = b
    return seen


# ---------------------------------------------------------------------------
# audit hook: every open() while armed
# ---------------------------------------------------------------------------
_AUDIT = {"on": False, "log": []}
_INSTALLED = [False]


def _hook(event, args):
    if _AUDIT["on"] and event == "open":
        p = args[0]
        if isinstance(p, bytes):
            p = os.fsdecode(p)
        _AUDIT["log"].append(p)


def install_hook():
    if not _INSTALLED[0]:
        sys.addaudithook(_hook)
        _INSTALLED[0] = True


def observed(fn):
    """Run fn() with the audit hook armed -> (outcome, [opened real paths])."""
    from jinja2 import TemplateNotFound
    _AUDIT["log"] = []
    _AUDIT["on"] = True
    try:
        try:
            out = ("ok", fn())
        except TemplateNotFound:
            out = ("NF", None)
        except Exception as e:  # noqa: BLE001 - any other exception is an observable outcome
            out = ("raise", f"{type(e).__name__}: {e}")
    finally:
        _AUDIT["on"] = False
    opened = [os.path.realpath(p) if isinstance(p, str) else repr(p) for p in _AUDIT["log"]]
    return out, opened


class Buffered:
    """Proxy for the Check object: violations are collected and emitted most severe first
    (files opened outside the search directories before wrong answers) and a few per
    fingerprint first, so that the replay files written for the first violations cover every
    kind of failure."""
    RANK = {"opened-outside": 0, "not-rejected": 1, "wrong-file": 2, "not-found": 3}

    def __init__(self, ck):
        object.__setattr__(self, "_ck", ck)
        object.__setattr__(self, "_items", [])

    def __getattr__(self, k):
        return getattr(self._ck, k)

    def __setattr__(self, k, v):
        setattr(self._ck, k, v)

    def violation(self, case, what, fingerprint=None):
        fp = fingerprint or {}
        self._items.append((self.RANK.get(fp.get("what"), 2), len(self._items), case, what, fp))
        return True

    def flush(self, per_fp=2):
        first, rest, seen = [], [], {}
        for it in sorted(self._items, key=lambda x: x[:2]):
            k = json.dumps(it[4], sort_keys=True)
            seen[k] = seen.get(k, 0) + 1
            (first if seen[k] <= per_fp else rest).append(it)
        for it in first + rest:
            self._ck.violation(it[2], it[3], it[4])
        del self._items[:]


def inside(path, dirs):
    return any(path.startswith(d.rstrip("/") + "/") for d in dirs)


# ---------------------------------------------------------------------------
# part 1: FileSystemLoader / PackageLoader (directory) on the scratch tree
# ---------------------------------------------------------------------------
def make_real_loaders(tree):
    from jinja2 import FileSystemLoader, PackageLoader
    sys.path.insert(0, loc_path(tree.pkgs))
    sys.modules.pop("jvpkg28", None)
    importlib.invalidate_caches()
    return {
        "fs1": FileSystemLoader(loc_path(tree.d1)),
        "fs12": FileSystemLoader([loc_path(tree.d1), loc_path(tree.d2)]),
        "fs21": FileSystemLoader([loc_path(tree.d2), loc_path(tree.d1)]),
        "pkg": PackageLoader("jvpkg28", "templates"),
    }


def plain_env(loader):
    """an Environment whose delimiters cannot occur in the JSON file contents"""
    from jinja2 import Environment
    return Environment(loader=loader, cache_size=0, variable_start_string="<<<", variable_end_string=">>>",
                       block_start_string="<<%", block_end_string="%>>", comment_start_string="<<#",
                       comment_end_string="#>>", keep_trailing_newline=True)


def compare_one(ck, kind, lid, loader, env, dirs, b, want_of, extra_case=None):
    """One behaviour of Loaders.tla on a real loader, through get_source and (if env) get_template."""
    atoms = b["n"]
    name = text(atoms)
    exp_nf = b["o"] == NF
    exp_path = None if exp_nf else loc_path(b["o"])
    apis = [("get_source", lambda: loader.get_source(None, name)[0])]
    if env is not None:
        apis.append(("get_template", lambda: env.get_template(name).render()))
    ok = True
    for api, fn in apis:
        out, opened = observed(fn)
        bad_open = [p for p in opened if not inside(p, dirs)]
        fp = {"kind": kind, "loader": lid, "api": api}
        case = dict({"kind": kind, "loader": lid, "api": api, "name": name, "atoms": atoms, "expected": b["o"],
                     "actual": list(out), "opened": opened}, **(extra_case or {}))
        if bad_open:
            ok = False
            ck.violation(case, f"{lid}.{api}({name!r}) opened a file outside its search directories: {bad_open}",
                         dict(fp, what="opened-outside"))
        elif exp_nf:
            if out[0] != "NF":
                ok = False
                ck.violation(case, f"{lid}.{api}({name!r}): the specification says TemplateNotFound, real code: {out}",
                             dict(fp, what="not-rejected"))
        elif out[0] != "ok":
            ok = False
            ck.violation(case, f"{lid}.{api}({name!r}): the specification resolves it to {exp_path}, real code: {out}",
                         dict(fp, what="not-found"))
        elif out[1] != want_of(b["o"]):
            ok = False
            ck.violation(case, f"{lid}.{api}({name!r}): the specification resolves it to {exp_path}, real code "
                               f"returned {out[1][:160]!r}", dict(fp, what="wrong-file"))
    return ok


def replay_fs_lines(ck, tree, lines, with_env):
    real = make_real_loaders(tree)
    envs = {k: plain_env(v) for k, v in real.items()}
    searchdirs = {k: [loc_path(x) for x in v["dirs"]] for k, v in tree.loaders.items()}
    contents = {}

    def want_of(loc):
        p = loc_path(loc)
        if p not in contents:
            contents[p] = open(p, encoding="utf-8").read()
        return contents[p]

    n = 0
    for k in sorted(lines):
        b = lines[k]
        lid = b["l"]
        use_env = with_env(b)
        ok = compare_one(ck, "fs", lid, real[lid], envs[lid] if use_env else None, searchdirs[lid], b, want_of,
                         {"base": tree.base})
        n += 2 if use_env else 1
        if ok and b["o"] != NF and n % 97 == 0:
            ck.sample({"loader": lid, "name": text(b["n"]), "resolved": loc_path(b["o"])})
    return n


def check_controls(ck, ctl):
    """Negative controls: with a condition of split_template_path switched off the model must
    leave the search directories; with the code's setting it never does."""
    leaks = {}
    for (p, sw, _l, _n), b in ctl.items():
        key = ("posix" if p == "/" else "windows") + ":" + \
              ("code" if all(sw) else "no-" + ["pardir", "sep", "split", "verbatim"][list(sw).index(False)])
        leaks.setdefault(key, 0)
        if b["leak"]:
            leaks[key] += 1
    ck.extra["negative_controls_leaking_names"] = leaks
    for key in ("posix:code", "windows:code"):
        if leaks.get(key, 0) != 0:
            raise core.MachineryError(f"model leaks with the code's switches ({key}) but invariant passed")
    for key in ("posix:no-pardir", "posix:no-split", "posix:no-verbatim", "windows:no-pardir", "windows:no-sep",
                "windows:no-split", "windows:no-verbatim"):
        if leaks.get(key, 0) == 0:
            raise core.MachineryError(f"negative control {key} does not leave the search directories: "
                                      f"the model (tree, alphabet or invariant) is vacuous")


CONF_FRAGS = lambda tree: [[], [".", "."], ["a"], ["sub"]] + CONFUSABLE_FRAGS  # noqa: E731
CTL_FRAGS = lambda tree: [[], [".", "."], ["a"], ["sub"], BSX, ["\\"], tree.abs_frag, [".", ".", "SPC"]]  # noqa: E731
PAD_FRAGS = lambda tree: [[], [".", "."], ["a"], ["sub"]] + PADDED_FRAGS  # noqa: E731


def fs_tlc(ck, tree):
    """the two TLC runs of part 1 (called from a worker thread)"""
    quick = ck.tier == "quick"
    frags = tree.frags()
    # control instance: all switch settings, both platforms, liveness, action coverage
    r0 = run_loaders_tlc("ctl", tree.files, tree.loaders, CTL_FRAGS(tree), 2, platforms=(POSIX, WINDOWS),
                         switches=(CODE, NOPARDIR, NOSEP, NOSPLIT, NOVERBATIM), coverage=True, liveness=True, workers=4)
    maxsegs = 3 if quick else 4
    r = run_loaders_tlc("main", tree.files, tree.loaders, frags, maxsegs, platforms=(POSIX, WINDOWS),
                        workers=6 if quick else 12)
    return r0, r, maxsegs


def conf_tlc(ck, tree):
    """names built from Unicode look-alikes of '.', '..', '/', '\\' and of plain file names"""
    return run_loaders_tlc("confusable", tree.files, tree.loaders, CONF_FRAGS(tree), 3,
                           last=None if ck.tier != "quick" else [["a"], [".", "."], ["c2dot"], ["ca"]],
                           workers=4 if ck.tier == "quick" else 8)


def pad_tlc(ck, tree):
    """names whose segments are padded with white space ('.. /a', ' ../a', 'sub/..\\t/.. /a', 'a /a', ' /a')"""
    return run_loaders_tlc("padded", tree.files, tree.loaders, PAD_FRAGS(tree), 3,
                           last=None if ck.tier != "quick" else [["a"], [".", "."], [".", ".", "SPC"], ["a", "SPC"],
                                                                 ["SPC"]],
                           workers=4 if ck.tier == "quick" else 8)


def part_fs(ck, tree, res, rconf, rpad):
    r0, r, maxsegs = res
    t1 = time.time()
    ck.add_tlc(r0, "Loaders: <= 2 segments, POSIX + Windows, 5 switch settings (liveness, coverage)")
    ck.require_coverage(r0, ["Grow", "Start", "SplitReject", "SplitKeep", "SplitDrop", "SplitDone", "TryDirHit",
                             "TryDirMiss", "NotFound"])
    ctl = behaviours(r0)
    check_controls(ck, ctl)
    ck.add_tlc(r, f"Loaders: {len(tree.frags())} fragments, <= {maxsegs} segments, POSIX (4 loaders) + Windows (3 loaders)")
    main = behaviours(r)
    if not main:
        raise core.MachineryError("Loaders.tla printed no behaviours")
    ck.add_tlc(rconf, "Loaders: names over Unicode look-alikes of '.', '..', '/', '\\' and of file names, <= 3 segments")
    conf = behaviours(rconf)
    ck.extra["confusable_names"] = len(conf)
    ck.add_tlc(rpad, "Loaders: names with segments padded by white space ('.. ', ' ..', '..\\t', '. ', 'a ', ' '), <= 3 segments")
    pad = behaviours(rpad)
    ck.extra["padded_names"] = len(pad)
    if not any(any(a in BLANKS for a in k[3]) and b["o"] == NF and not b["op"] for k, b in pad.items()):
        raise core.MachineryError("the padded instance of Loaders.tla has no name with white space")
    lines = {k: b for k, b in list(ctl.items()) + list(main.items()) + list(conf.items()) + list(pad.items())
             if k[0] == "/" and all(k[1])}
    ck.extra["windows_behaviours_model_only"] = sum(1 for k in main if k[0] != "/")
    # Environment.get_template for every name that resolves and for the short rejected ones
    n = replay_fs_lines(ck, tree, lines, lambda b: b["o"] != NF or len(b["n"]) <= 6)
    ck.traces += n
    ck.evaluations += n
    ck.extra["fs_names"] = len(lines)
    ck.extra["fs_resolved"] = sum(1 for b in lines.values() if b["o"] != NF)
    ck.extra.setdefault("phase_s", {}).update({"fs_replay": round(time.time() - t1, 1)})


# ---------------------------------------------------------------------------
# part 2: PackageLoader on a zip archive (tests/res/package.zip)
# ---------------------------------------------------------------------------
def zip_setup():
    z = os.path.realpath(str(core.REPO / "tests" / "res" / "package.zip"))
    if not os.path.isfile(z):
        raise core.MachineryError(f"{z} missing")
    base = path_words(z)
    with zipfile.ZipFile(z) as zf:
        entries = [i.filename for i in zf.infolist() if not i.filename.endswith("/")]
        data = {e: zf.read(e).decode("utf-8") for e in entries}
    files = [base + W(*e.split("/")) for e in entries]
    root = base + W("t_pack", "templates")
    frags = [[], ["."], [".", "."], ["test.html"], ["foo"], ["__init__.py"], ["t_pack"], ["templates"],
             [".", ".", "\\", "foo"], ["c2dot"], ["cdot", "cdot"], [".", ".", "cslash", "__init__.py"],
             [".", ".", "SPC"]]
    return z, base, files, data, {"zip": {"dirs": [root], "norm": True}}, frags


def zip_tlc(ck, zs):
    z, base, files, data, loaders, frags = zs
    maxsegs = 3 if ck.tier == "quick" else 4
    return run_loaders_tlc("zip", files, loaders, frags, maxsegs, workers=2), maxsegs


def part_zip(ck, zs, res):
    from jinja2 import PackageLoader
    t0 = time.time()
    z, base, files, data, loaders, frags = zs
    r, maxsegs = res
    ck.add_tlc(r, f"Loaders: zip archive tree, <= {maxsegs} segments")
    lines = behaviours(r)
    sys.path.insert(0, z)
    sys.modules.pop("t_pack", None)
    importlib.invalidate_caches()
    try:
        loader = PackageLoader("t_pack")
        env = plain_env(loader)
        pre = len(loc_path(base)) + 1

        def want_of(loc):
            return data[loc_path(loc)[pre:]]

        n = 0
        for k in sorted(lines):
            # the only file on disk a zip loader may open is the archive itself; which member it
            # returns is checked through the content
            compare_one(ck, "zip", "zip", loader, env, [os.path.dirname(z)], lines[k], want_of)
            n += 2
        ck.traces += n
        ck.evaluations += n
        ck.extra["zip_names"] = len(lines)
        ck.extra["zip_resolved"] = sum(1 for b in lines.values() if b["o"] != NF)
    finally:
        sys.path[:] = [p for p in sys.path if p != z]
        sys.modules.pop("t_pack", None)
    ck.extra.setdefault("phase_s", {})["zip_replay"] = round(time.time() - t0, 1)


# ---------------------------------------------------------------------------
# part 3: ChoiceLoader / PrefixLoader compositions
# ---------------------------------------------------------------------------
LEAF_HAS = {
    "A": [["a"], ["b"], ["q", "/", "a"], ["p", "/", "a"], ["q", ":", "a"]],
    "B": [["a"], ["q", "/", "a"], ["p", ":", "a"], ["q", ":", "b"], ["p", "/", "q", "/", "a"], [">", "a"]],
    "C": [["b"], ["q", "/", "b"], ["p", ":", "q", ":", "a"], ["a", ":", "a"], ["q", ":", "a"], ["a", "/", "b"],
          [":", "a"], [":", "b"]],
}


DELIMS = [["/"], [":"], [":", ":"], ["-", ">"]]            # PrefixLoader delimiters (sequences of atoms)
DELIMS_THOROUGH = DELIMS + [["_", "_"], ["/", "/"]]


def compose_names(quick=False):
    names = [[], ["a"], ["b"], ["p"], ["/"], ["p", "/"], ["/", "a"], ["p", "/", "/", "a"], [":", "a"], ["p", ":"],
             ["p", "/", ":", "a"]]
    for w1 in "pqa":
        for d in "/:":
            for w2 in "abq":
                names.append([w1, d, w2])
    for w1 in "pq":
        for d1 in "/:":
            for w2 in "pqa":
                for d2 in "/:":
                    for w3 in ("a" if quick else "ab"):
                        if not quick or w2 != "p":
                            names.append([w1, d1, w2, d2, w3])
    # multi-character delimiters: one and two levels, and near misses (half a delimiter, one atom more)
    multi = [d for d in (DELIMS if quick else DELIMS_THOROUGH) if len(d) > 1]
    for d in multi:
        for w1 in "pq":
            for w2 in "ab":
                names.append([w1] + d + [w2])
        names += [["p"] + d + ["q"] + d + ["a"], ["p"] + d + ["q", "/", "a"], ["p"] + d[:1] + ["a"], ["p"] + d + d[:1] + ["a"],
                  ["p"] + d, d + ["a"], ["p"] + d + d + ["a"]]
    names += [["p", ":", ":", "q", "-", ">", "a"], ["p", "-", ">", "q", ":", ":", "a"]]
    out = []
    for n in names:
        if n not in out:
            out.append(n)
    return out


def leaf(i):
    return {"k": "leaf", "id": i}


def depth1():
    out = []
    for n in (1, 2, 3):
        for perm in itertools.permutations("ABC", n):
            out.append({"k": "choice", "subs": [leaf(x) for x in perm]})
    for d in DELIMS:
        for p in (None, "A", "B", "C"):
            for q in (None, "A", "B", "C"):
                keys, subs = [], []
                if p:
                    keys.append(["p"])
                    subs.append(leaf(p))
                if q:
                    keys.append(["q"])
                    subs.append(leaf(q))
                if keys:
                    out.append({"k": "prefix", "delim": d, "keys": keys, "subs": subs})
    return out


def random_comp(rnd, d1):
    """a composition of depth 2: children are leaves or depth-1 compositions"""
    def child():
        return leaf(rnd.choice("ABC")) if rnd.random() < 0.35 else rnd.choice(d1)
    if rnd.random() < 0.5:
        return {"k": "choice", "subs": [child() for _ in range(rnd.choice((1, 2, 2, 3)))]}
    keys = rnd.sample([["p"], ["q"], ["a"]], rnd.choice((1, 2, 2, 3)))
    return {"k": "prefix", "delim": rnd.choice(DELIMS_THOROUGH if rnd.random() < 0.25 else DELIMS), "keys": keys, "subs": [child() for _ in keys]}


def compose_mc(comps, names):
    return f"""---- MODULE MC_LoaderCompose ----
EXTENDS LoaderCompose
mc_Comps == {{{", ".join("[id |-> " + str(i + 1) + ", t |-> " + tla(t) + "]" for i, t in enumerate(comps))}}}
mc_Names == {{{", ".join(tla(n) for n in names)}}}
mc_LeafHas == {tla_fun({k: "{" + ", ".join(tla(n) for n in v) + "}" for k, v in LEAF_HAS.items()})}
====
"""


COMPOSE_CFG = """CONSTANTS
  Comps <- mc_Comps
  NameSet <- mc_Names
  LeafHas <- mc_LeafHas
SPECIFICATION Spec
INVARIANT C28_ChoiceFirst
INVARIANT C28_NotFoundIffNone
INVARIANT C28_PrefixRouting
INVARIANT C28_AskedInOrder
"""


def run_compose_tlc(name, comps, names, coverage=False, liveness=False, workers=16):
    d = core.workdir(PID, name + "_mc")
    mc = d / "MC_LoaderCompose.tla"
    mc.write_text(compose_mc(comps, names))
    cfg = COMPOSE_CFG + ("PROPERTY C28_ComposeTerminates\n" if liveness else "")
    return core.run_tlc(PID, "MC_LoaderCompose", cfg, name=name, extra_modules=[mc], coverage=coverage,
                        timeout=2400, workers=workers)


class LeafKit:
    """Real leaf loaders for the ids A, B, C: DictLoader, logging FunctionLoader, FileSystemLoader."""

    def __init__(self):
        self.root = tempfile.mkdtemp(prefix="jvc28c", dir="/tmp")
        self.asked = []
        for i, names in LEAF_HAS.items():
            for n in names:
                p = os.path.join(self.root, i, text(n))
                os.makedirs(os.path.dirname(p), exist_ok=True)
                with open(p, "w") as f:
                    f.write(self.source(i, n))

    @staticmethod
    def source(i, n):
        return json.dumps(["source", i, text(n)])

    def leaf(self, kind, i):
        from jinja2 import DictLoader, FileSystemLoader, FunctionLoader
        mapping = {text(n): self.source(i, n) for n in LEAF_HAS[i]}
        if kind == "dict":
            return DictLoader(mapping)
        if kind == "fs":
            return FileSystemLoader(os.path.join(self.root, i))

        def load(name, i=i, mapping=mapping):
            self.asked.append([i, name])
            return mapping.get(name)
        return FunctionLoader(load)

    def build(self, kind, t):
        from jinja2 import ChoiceLoader, PrefixLoader
        if t["k"] == "leaf":
            return self.leaf(kind, t["id"])
        if t["k"] == "choice":
            return ChoiceLoader([self.build(kind, s) for s in t["subs"]])
        return PrefixLoader({text(k): self.build(kind, s) for k, s in zip(t["keys"], t["subs"])}, delimiter=text(t["delim"]))

    def close(self):
        shutil.rmtree(self.root, ignore_errors=True)


def show_comp(t):
    if t["k"] == "leaf":
        return t["id"]
    if t["k"] == "choice":
        return "Choice[" + ", ".join(show_comp(s) for s in t["subs"]) + "]"
    return "Prefix" + repr(text(t["delim"])) + "{" + ", ".join(
        f"{text(k)}: {show_comp(s)}" for k, s in zip(t["keys"], t["subs"])) + "}"


def fs_leaf_exact(name):
    """FileSystemLoader leaves normalise names ('/a', 'a/', './a' all mean 'a'); DictLoader /
    FunctionLoader leaves (and the specification's leaves) look names up exactly.  Names on which
    the two differ are only replayed on the exact leaves."""
    return name != "" and all(p not in ("", ".", "..") for p in name.split("/"))


def compare_compose(ck, kit, comps, lines, kinds=("func", "dict", "fs")):
    """lines: {(c, name): behaviour}.  Every behaviour on 3 leaf kinds x 2 entry points."""
    n = 0
    by_comp = {}
    for (c, _), b in sorted(lines.items()):
        by_comp.setdefault(c, []).append(b)
    for c in sorted(by_comp):
        t = comps[c - 1]
        for kind in kinds:
            loader = kit.build(kind, t)
            env = plain_env(loader)
            for b in by_comp[c]:
                name = text(b["n"])
                if kind == "fs" and not all(fs_leaf_exact(text(x[1])) for x in b["asked"]):
                    continue
                exp = "NF" if b["r"] == ["TemplateNotFound"] else json.dumps(["source", b["r"][1], text(b["r"][2])])
                for api, fn in (("get_source", lambda: loader.get_source(env, name)[0]),
                                ("get_template", lambda: env.get_template(name).render())):
                    kit.asked = []
                    out, _opened = observed(fn)
                    got = "NF" if out[0] == "NF" else out[1]
                    n += 1
                    if got != exp:
                        ck.violation({"kind": "compose", "comp": t, "leafkind": kind, "api": api, "name": name,
                                      "atoms": b["n"], "expected": b["r"], "actual": list(out)},
                                     f"{show_comp(t)} ({kind} leaves).{api}({name!r}): the specification resolves it "
                                     f"to {exp}, real code: {out}",
                                     {"kind": "compose", "root": t["k"], "api": api})
                    elif kind == "func" and kit.asked != [[i, text(x)] for i, x in b["asked"]]:
                        dr = ck.extra.setdefault("drift", [])
                        if len(dr) < 5:
                            dr.append({"comp": show_comp(t), "name": name, "api": api, "asked": kit.asked,
                                       "spec_asked": b["asked"]})
            if c % 40 == 1 and kind == "dict":
                ck.sample({"composition": show_comp(t), "name": text(by_comp[c][-1]["n"]), "result": by_comp[c][-1]["r"]})
    return n


def compose_behaviours(r):
    seen = {}
    for x in set(r.printed()):
        b = json.loads(x)
        k = (b["c"], tuple(b["n"]))
        if k in seen and seen[k] != b:
            raise core.MachineryError(f"LoaderCompose.tla printed two outcomes for {k}")
        seen[k] = b
    return seen


def compose_inputs(ck):
    rnd = random.Random(ck.seed * 7919 + 28)
    d1 = depth1()
    nrand = 60 if ck.tier == "quick" else 1000
    comps = [leaf("A")] + d1 + [random_comp(rnd, d1) for _ in range(nrand)]
    return comps, compose_names(ck.tier == "quick"), len(d1), nrand


def compose_tlc(ck, inp):
    comps, names, nd1, nrand = inp
    quick = ck.tier == "quick"
    r = run_compose_tlc("compose", comps, names, workers=4 if quick else 12)
    # termination (liveness) and action coverage on the compositions of depth <= 1
    rl = run_compose_tlc("compose_live", comps[:1 + nd1], names[:24] if quick else names, liveness=True,
                         coverage=True, workers=2)
    return r, rl


def part_compose(ck, inp, res):
    comps, names, nd1, nrand = inp
    r, rl = res
    t1 = time.time()
    ck.add_tlc(r, f"LoaderCompose: {len(comps)} compositions (all of depth <= 1, {nrand} random of depth 2) "
                  f"x {len(names)} names")
    ck.require_coverage(rl, ["LeafLookup", "ChoiceTry", "ChoiceCatch", "ChoiceReturn", "ChoiceExhausted",
                            "PrefixRoute", "PrefixNoRoute", "PrefixReturn"])
    ck.add_tlc(rl, "LoaderCompose: termination + coverage, depth <= 1")
    lines = compose_behaviours(r)
    if len(lines) != len(comps) * len(names):
        raise core.MachineryError(f"LoaderCompose printed {len(lines)} behaviours, expected {len(comps) * len(names)}")
    kit = LeafKit()
    try:
        n = compare_compose(ck, kit, comps, lines)
    finally:
        kit.close()
    ck.traces += n
    ck.evaluations += n
    ck.exhaustive = False
    ck.extra["compositions"] = len(comps)
    ck.extra["compose_cases"] = n
    ck.extra["compose_resolved"] = sum(1 for b in lines.values() if b["r"] != ["TemplateNotFound"])
    ck.extra.setdefault("phase_s", {}).update({"compose_replay": round(time.time() - t1, 1)})


# ---------------------------------------------------------------------------
# part 4: sessions - one composition object asked again and again while the contents of its leaves change
# ---------------------------------------------------------------------------
SESSION_LOCAL = [["a"], ["b"], ["q", "/", "a"], ["q", ":", "a"], ["x"]]     # local names a leaf may gain / lose
SESSION_CFG = """CONSTANTS
  Comps <- mc_Comps
  NameSet <- mc_Names
  LeafHas <- mc_LeafHas
  MaxOps = {maxops}
  MaxChurn = {maxchurn}
SPECIFICATION SSpec
INVARIANT C28_FirstNow
INVARIANT C28_NotFoundIffNoneNow
INVARIANT C28_StableDuringLookup
INVARIANT C28_SessionRouting
INVARIANT C28_SessionAskedInOrder
"""
SESSION_APIS = [["get_source"], ["get_template"], ["get_source", "get_template"], ["fresh_env"],
                ["get_template", "fresh_env", "get_source"]]


def routed_name(rnd, t):
    """a name that (probably) reaches leaves of the composition: the keys and delimiters on a path down the tree
    in front of a local name.  What it resolves to - if anything - is for the specification to say."""
    if t["k"] == "leaf":
        return list(rnd.choice(SESSION_LOCAL))
    if t["k"] == "choice":
        return routed_name(rnd, rnd.choice(t["subs"]))
    j = rnd.randrange(len(t["keys"]))
    return t["keys"][j] + t["delim"] + routed_name(rnd, t["subs"][j])


def session_inputs(ck, inp):
    """(composition, names asked) pairs offered to LoaderSession.tla, which keeps those with 2..MaxChurn
    <<leaf, local name>> pairs that can change"""
    comps = inp[0]
    quick = ck.tier == "quick"
    rnd = random.Random(ck.seed * 104729 + 2804)
    offers = []
    # depth <= 1: every ChoiceLoader, a few PrefixLoaders (no choice in them: two names of one leaf change);
    # depth 2: the seeded random compositions of part 3
    d1_prefix = [t for t in comps[:1 + inp[2]] if t["k"] == "prefix"]
    rand = comps[1 + inp[2]:]
    pool = [t for t in comps[:1 + inp[2]] if t["k"] == "choice"] + rnd.sample(d1_prefix, 8 if quick else 24) + \
        (rand if quick else rnd.sample(rand, 150))
    for t in pool:
        for _ in range(1 if quick else 2):
            ns = [routed_name(rnd, t)]
            if t["k"] == "prefix" or rnd.random() < 0.3:
                n2 = routed_name(rnd, t)
                if n2 not in ns:
                    ns.append(n2)
            if not any(o["t"] == t and o["ns"] == ns for o in offers):
                offers.append({"t": t, "ns": ns})
    return offers, (4 if quick else 5), 4


def session_mc(offers):
    return f"""---- MODULE MC_LoaderSession ----
EXTENDS LoaderSession
mc_Comps == {{{", ".join("[id |-> " + str(i + 1) + ", t |-> " + tla(o["t"]) + ", ns |-> {" + ", ".join(tla(n) for n in o["ns"]) + "}]"
                        for i, o in enumerate(offers))}}}
mc_Names == {{}}
mc_LeafHas == {tla_fun({k: "{" + ", ".join(tla(n) for n in v) + "}" for k, v in LEAF_HAS.items()})}
====
"""


def run_session_tlc(name, offers, maxops, maxchurn, liveness=False, workers=3):
    d = core.workdir(PID, name + "_mc")
    mc = d / "MC_LoaderSession.tla"
    mc.write_text(session_mc(offers))
    cfg = SESSION_CFG.format(maxops=maxops, maxchurn=maxchurn) + ("PROPERTY C28_SessionTerminates\n" if liveness else "")
    return core.run_tlc(PID, "MC_LoaderSession", cfg, name=name, extra_modules=[mc], timeout=2400, workers=workers)


def session_tlc(ck, sinp):
    offers, maxops, maxchurn = sinp
    quick = ck.tier == "quick"
    r = run_session_tlc("session", offers, maxops, maxchurn, workers=3 if quick else 8)
    # every lookup of a session terminates (liveness): the lookups are those of LoaderCompose.tla with the contents
    # frozen (C28_StableDuringLookup), whose termination the quick tier checks there; here in the thorough tier only
    rl = None if quick else run_session_tlc("session_live", offers[:40], 3, maxchurn, liveness=True, workers=2)
    return r, rl


def sessions_of(r):
    """deduplicated sessions TLC printed: [{"c": id, "churn": [[leaf, atoms]..], "log": [event..]}]"""
    out = {}
    for x in set(r.printed()):
        b = json.loads(x)
        out[json.dumps([b["c"], [[e["e"], e["l"], e["n"]] for e in b["log"]]])] = b
    return [out[k] for k in sorted(out)]


class SessionKit(LeafKit):
    """Leaf loaders whose contents can change: DictLoader / FunctionLoader over a mapping that is mutated,
    FileSystemLoader over a directory in which files are created and removed.  Every occurrence of a leaf id
    in a composition shows the same contents (as has[id] in the specification)."""

    def begin(self):
        self.maps, self.undo = {}, []

    def leaf(self, kind, i):
        from jinja2 import DictLoader, FileSystemLoader, FunctionLoader
        if kind == "fs":
            return FileSystemLoader(os.path.join(self.root, i))
        mapping = {text(n): self.source(i, n) for n in LEAF_HAS[i]}
        self.maps.setdefault(i, []).append(mapping)
        if kind == "dict":
            return DictLoader(mapping)
        return FunctionLoader(lambda name, mapping=mapping: mapping.get(name))

    def path(self, i, n):
        return os.path.join(self.root, i, text(n))

    def fs_ok(self, churn):
        """can the pairs be files that come and go next to the files of the initial contents?"""
        for i, n in churn:
            p = self.path(i, n)
            if not fs_leaf_exact(text(n)) or os.path.isdir(p):
                return False
            q = os.path.dirname(p)
            while len(q) > len(self.root):
                if os.path.isfile(q) or any(j == i and self.path(j, m) == q for j, m in churn):
                    return False
                q = os.path.dirname(q)
        return True

    def put(self, kind, i, n):
        if kind == "fs":
            p = self.path(i, n)
            os.makedirs(os.path.dirname(p), exist_ok=True)
            with open(p, "w") as f:
                f.write(self.source(i, n))
            self.undo.append(("rm", p, None))
        else:
            for m in self.maps.get(i, ()):
                m[text(n)] = self.source(i, n)

    def drop(self, kind, i, n):
        if kind == "fs":
            p = self.path(i, n)
            os.remove(p)
            self.undo.append(("write", p, self.source(i, n)))
        else:
            for m in self.maps.get(i, ()):
                del m[text(n)]

    def end(self):
        for op, p, src in reversed(self.undo):
            if op == "rm":
                if os.path.exists(p):
                    os.remove(p)
            else:
                with open(p, "w") as f:
                    f.write(src)
        self.undo = []


def replay_session(ck, kit, o, cid, sess, kind, apis):
    """One session of LoaderSession.tla on ONE real loader object; -> number of lookups compared."""
    t = o["t"]
    kit.begin()
    n = 0
    try:
        loader = kit.build(kind, t)
        env = plain_env(loader)
        g = 0
        for step, e in enumerate(sess["log"]):
            if e["e"] == "put":
                kit.put(kind, e["l"], e["n"])
                continue
            if e["e"] == "drop":
                kit.drop(kind, e["l"], e["n"])
                continue
            name = text(e["n"])
            api = apis[g % len(apis)]
            g += 1
            fn = {"get_source": lambda: loader.get_source(env, name)[0],
                  "get_template": lambda: env.get_template(name).render(),
                  "fresh_env": lambda: plain_env(loader).get_template(name).render()}[api]
            out, _opened = observed(fn)
            got = "NF" if out[0] == "NF" else out[1]
            exp = "NF" if e["r"] == ["TemplateNotFound"] else json.dumps(["source", e["r"][1], text(e["r"][2])])
            n += 1
            if got != exp:
                events = [[x["e"], x["l"], text(x["n"])] for x in sess["log"][:step + 1]]
                ck.violation({"kind": "session", "comp": t, "ns": o["ns"], "leafkind": kind, "apis": apis,
                              "log": sess["log"], "step": step, "expected": e["r"], "actual": list(out)},
                             f"{show_comp(t)} ({kind} leaves), one loader object, after {events[:-1]}: {api}({name!r}) "
                             f"- the specification resolves it to {exp} (first candidate that has it now), real code: {out}",
                             {"kind": "session", "root": t["k"], "api": api})
                break
    finally:
        kit.end()
    return n


def part_session(ck, sinp, res):
    offers, maxops, maxchurn = sinp
    r, rl = res
    t1 = time.time()
    ck.add_tlc(r, f"LoaderSession: {len(offers)} (composition, names) offers, sessions of {maxops} events "
                  f"(put / drop / get) over <= {maxchurn} changing (leaf, name) pairs")
    if rl is not None:
        ck.add_tlc(rl, "LoaderSession: every lookup of a session terminates (liveness), 40 offers, 3 events")
    sessions = sessions_of(r)
    by_c = {}
    for s in sessions:
        by_c.setdefault(s["c"], []).append(s)
    # vacuity guards: enough sessions, every event kind, and sessions in which the answer to a name changes
    kinds = {e["e"] for s in sessions for e in s["log"]}
    changing = 0
    for s in sessions:
        seen = {}
        for e in s["log"]:
            if e["e"] == "get":
                k = json.dumps(e["n"])
                if k in seen and seen[k] != e["r"]:
                    changing += 1
                    break
                seen[k] = e["r"]
    roots = {offers[c - 1]["t"]["k"] for c in by_c}
    if len(by_c) < 8 or kinds != {"put", "drop", "get"} or changing < 50 or roots != {"choice", "prefix"}:
        raise core.MachineryError(f"LoaderSession: sessions too thin (offers with sessions {len(by_c)}, event kinds "
                                  f"{sorted(kinds)}, sessions with a changing answer {changing}, roots {sorted(roots)})")
    cap = 2400 if ck.tier == "quick" else 30000
    rnd = random.Random(ck.seed * 31337 + 2805)
    if len(sessions) > cap:                       # the same share of every offer
        chosen = []
        for c in sorted(by_c):
            k = min(len(by_c[c]), max(20, len(by_c[c]) * cap // len(sessions)))
            chosen += [by_c[c][j] for j in sorted(rnd.sample(range(len(by_c[c])), k))]
        ck.exhaustive = False
    else:
        chosen = sessions
    kit = SessionKit()
    n = ns = 0
    try:
        for idx, s in enumerate(chosen):
            o = offers[s["c"] - 1]
            churn = [(l, a) for l, a in s["churn"]]
            for ki, kind in enumerate(("dict", "func", "fs")):
                if kind == "fs" and not kit.fs_ok(churn):
                    continue
                n += replay_session(ck, kit, o, s["c"], s, kind, SESSION_APIS[(idx + 2 * ki) % len(SESSION_APIS)])
                ns += 1
            if idx % 500 == 7:
                ck.sample({"composition": show_comp(o["t"]), "session": [[e["e"], e["l"], text(e["n"]), e["r"]] for e in s["log"]]})
    finally:
        kit.close()
    ck.traces += ns
    ck.evaluations += n
    ck.extra["sessions"] = {"offers": len(offers), "offers_with_sessions": len(by_c), "enumerated": len(sessions),
                            "replayed_x_leafkinds": ns, "lookups_compared": n, "with_changing_answer": changing}
    ck.extra.setdefault("phase_s", {}).update({"session_replay": round(time.time() - t1, 1)})


# ---------------------------------------------------------------------------
def run(ck0):
    from concurrent.futures import ThreadPoolExecutor
    core.use_repo()
    install_hook()
    ck = Buffered(ck0)
    tree = Tree()
    try:
        zs = zip_setup()
        inp = compose_inputs(ck)
        sinp = session_inputs(ck, inp)
        parts = set(os.environ.get("JV_C28_PARTS", "fs,zip,compose,session").split(","))  # development aid
        t0 = time.time()
        # the independent TLC runs go side by side (each with a share of the cores)
        with ThreadPoolExecutor(6) as ex:
            f_fs = ex.submit(fs_tlc, ck, tree) if "fs" in parts else None
            f_zip = ex.submit(zip_tlc, ck, zs) if "zip" in parts else None
            f_co = ex.submit(compose_tlc, ck, inp) if "compose" in parts else None
            f_cf = ex.submit(conf_tlc, ck, tree) if "fs" in parts else None
            f_se = ex.submit(session_tlc, ck, sinp) if "session" in parts else None
            f_pd = ex.submit(pad_tlc, ck, tree) if "fs" in parts else None
            res = [f.result() if f else None for f in (f_fs, f_zip, f_co, f_cf, f_se, f_pd)]
        ck.extra.setdefault("phase_s", {})["tlc_all"] = round(time.time() - t0, 1)
        if res[0]:
            part_fs(ck, tree, res[0], res[3], res[5])
        if res[1]:
            part_zip(ck, zs, res[1])
        if res[2]:
            part_compose(ck, inp, res[2])
        if res[4]:
            part_session(ck, sinp, res[4])
        if parts != {"fs", "zip", "compose", "session"}:
            raise core.MachineryError(f"partial run (JV_C28_PARTS={sorted(parts)}), violations so far: {len(ck._items)}")
    finally:
        ck.flush()
        sys.path[:] = [p for p in sys.path if p != loc_path(tree.pkgs)]
        sys.modules.pop("jvpkg28", None)
        tree.close()
    ck.extra["excluded_shapes"] = [
        "relative search paths, followlinks=True and symlinks inside the tree (what 'inside' means for a link "
        "target is not fixed by the property)",
        "names containing NUL or characters the file system cannot store",
        "namespace packages and single-module packages for PackageLoader",
        "FileSystemLoader leaves inside compositions are only replayed on names they do not normalise "
        "('/a', 'a/' mean 'a' to them but not to exact-match leaves)",
    ]
    ck.assumptions += [
        "os.stat / os.path.isfile are not audit events: 'files read' = files opened (open audit event)",
        "Windows separators (os.sep='\\\\', altsep='/') are model-checked but cannot be replayed on this POSIX host; "
        "drive letters are plain words in the model",
        "absolute names such as '/a' are not rejected by jinja2 but read relative to the search directory; the "
        "specification accepts that as 'does not leave' (the property's first clause is what is enforced)",
    ]


# ---------------------------------------------------------------------------
def replay(ck0, rec):
    ck = Buffered(ck0)
    try:
        _replay(ck, rec)
    finally:
        ck.flush()


def _replay(ck, rec):
    core.use_repo()
    install_hook()
    c = rec["case"]
    if c["kind"] == "session":
        offers = [{"t": c["comp"], "ns": c["ns"]}]
        r = run_session_tlc("replay", offers, len(c["log"]), 99, workers=2)
        ck.add_tlc(r, "LoaderSession replay")
        sig = [[e["e"], e["l"], e["n"]] for e in c["log"]]
        hit = [x for x in sessions_of(r) if [[e["e"], e["l"], e["n"]] for e in x["log"]] == sig]
        if not hit:
            raise core.MachineryError("replay: TLC did not produce the recorded session")
        kit = SessionKit()
        try:
            replay_session(ck, kit, offers[0], 1, hit[0], c["leafkind"], c["apis"])
        finally:
            kit.close()
        return
    if c["kind"] == "compose":
        r = run_compose_tlc("replay", [c["comp"]], [c["atoms"]], workers=2)
        ck.add_tlc(r, "LoaderCompose replay")
        kit = LeafKit()
        try:
            compare_compose(ck, kit, [c["comp"]], compose_behaviours(r), kinds=(c["leafkind"],))
        finally:
            kit.close()
        return
    if c["kind"] == "zip":
        from jinja2 import PackageLoader
        z, base, files, data, loaders, frags = zip_setup()
        # the whole name as one fragment (fragments may contain "/")
        r = run_loaders_tlc("replay", files, loaders, [c["atoms"]], 1, workers=2)
        lines = {k: b for k, b in behaviours(r).items() if list(k[3]) == c["atoms"]}
        sys.path.insert(0, z)
        try:
            loader = PackageLoader("t_pack")
            pre = len(loc_path(base)) + 1
            for b in lines.values():
                compare_one(ck, "zip", "zip", loader, plain_env(loader), [os.path.dirname(z)], b,
                            lambda loc: data[loc_path(loc)[pre:]])
        finally:
            sys.path.remove(z)
        return
    tree = Tree()
    try:
        old = [w[0] for w in c["base"]]
        new = [w[0] for w in tree.base]
        if len(old) != len(new):
            raise core.MachineryError("scratch base has a different depth than in the recorded case")
        ren = dict(zip(old, new))
        atoms = [ren.get(a, a) for a in c["atoms"]]
        r = run_loaders_tlc("replay", tree.files, {c["loader"]: tree.loaders[c["loader"]]}, [atoms], 1, workers=2)
        lines = {k: b for k, b in behaviours(r).items() if list(k[3]) == atoms}
        if not lines:
            raise core.MachineryError("replay: TLC did not produce the recorded name")
        replay_fs_lines(ck, tree, lines, lambda b: True)
    finally:
        sys.path[:] = [p for p in sys.path if p != loc_path(tree.pkgs)]
        sys.modules.pop("jvpkg28", None)
        tree.close()
