"""C10 - all rendering entry points produce the same text; buffered chunks
combine exactly `size` non-empty pieces.

Spec: spec/Stream.tla.  TLC enumerates every piece sequence up to MaxLen over
{"", "a", "bb"} and every buffer size, checks the invariants that relate the
operational buffering loop to the abstract chunking rule, and prints the
expected chunk list of every behaviour.  spec->code: each behaviour is
replayed on a real jinja2.environment.TemplateStream.
"""
from __future__ import annotations

import io
import json
import os
import tempfile

from .. import core


def cfg(maxlen, sizes):
    return f"""CONSTANTS
  PieceVals = {{"", "a", "bb"}}
  MaxLen = {maxlen}
  Sizes = {{{", ".join(map(str, sizes))}}}
SPECIFICATION Spec
INVARIANT C10_ConcatPreserved
INVARIANT C10_ChunkSize
INVARIANT C10_MatchesAbstract
PROPERTY C10_Terminates
"""


class _WriteOnly:
    def __init__(self):
        self.parts = []

    def write(self, x):
        self.parts.append(x)


def run_stream(ck):
    from jinja2.environment import TemplateStream

    quick = ck.tier == "quick"
    r = core.run_tlc("C10", "Stream", cfg(6 if quick else 8, [2, 3, 4] if quick else [2, 3, 4, 5, 8]),
                     coverage=quick, timeout=3000)
    ck.add_tlc(r, "Stream buffering")
    if quick:
        ck.require_coverage(r, ["Pull", "Flush", "End"])
    behaviours = sorted(set(r.printed()))
    if not behaviours:
        raise core.MachineryError("Stream.tla printed no behaviours")
    n = 0
    for line in behaviours:
        b = json.loads(line)
        pieces, size = list(b["input"]), b["size"]
        expected = ["".join(ch) for ch in b["chunks"]]
        st = TemplateStream(iter(pieces))
        st.enable_buffering(size)
        try:
            got = list(st)
        except Exception as e:  # noqa
            got = ["raise", type(e).__name__]
        n += 1
        # dump() of the same stream, text and encoded
        st2 = TemplateStream(iter(pieces))
        st2.enable_buffering(size)
        bio = io.BytesIO()
        st2.dump(bio, encoding="utf-8")
        dumped = bio.getvalue().decode("utf-8")
        # a target that only has write(): every chunk arrives on its own, encoded when an encoding is given
        for enc in (None, "utf-8"):
            sink = _WriteOnly()
            st3 = TemplateStream(iter(pieces))
            st3.enable_buffering(size)
            st3.dump(sink, encoding=enc)
            want_t = str if enc is None else bytes
            if not all(type(x) is want_t for x in sink.parts):
                dumped = f"write-only target, encoding={enc}: got {[type(x).__name__ for x in sink.parts][:4]} chunks"
            elif (("".join(sink.parts)) if enc is None else b"".join(sink.parts).decode(enc)) != "".join(pieces):
                dumped = f"write-only target, encoding={enc}: got {sink.parts!r:.80}"
        if got != expected or dumped != "".join(pieces):
            ck.violation({"kind": "stream", "pieces": pieces, "size": size, "expected": expected, "actual": got,
                          "dumped": dumped},
                         f"TemplateStream({pieces!r}).enable_buffering({size}): expected chunks {expected}, got {got}; "
                         f"dump -> {dumped!r}",
                         {"kind": "stream-chunks"})
        elif n % 1500 == 1:
            ck.sample({"pieces": pieces, "size": size, "chunks": got})
    ck.traces += n
    ck.evaluations += n
    ck.extra["stream_behaviours_replayed"] = n


def run(ck):
    run_stream(ck)
    try:
        from . import c10_entry  # entry-point equality over generated programs (built on the interpreter spec)
    except ImportError:
        c10_entry = None
    if c10_entry is not None:
        c10_entry.run(ck)


def replay(ck, rec):
    from jinja2.environment import TemplateStream

    c = rec["case"]
    if c["kind"] == "stream":
        st = TemplateStream(iter(c["pieces"]))
        st.enable_buffering(c["size"])
        got = list(st)
        if got != c["expected"]:
            ck.violation(c, f"still differs: {got}", rec.get("fingerprint"))
    else:
        from . import c10_entry
        c10_entry.replay(ck, rec)
