"""C21 - undefined values behave as documented for every undefined type.

Spec: spec/Undefined.tla.  The documented operation table
`Result(base, logging, origin, op, side, other)` and the state machine for
chains of accesses live in TLA+; TLC checks the C21_* invariants over the full
cross product and prints every case with its documented outcome.

Binding
  * code->spec: the class bodies of the real Undefined classes (which special
    methods each body assigns, and whether to `_fail_with_undefined_error`) are
    read off jinja2.runtime and handed to the spec as the constant `Bodies`;
    TLC checks that Python's special-method dispatch over *these* bodies gives
    the documented table (C21_BodiesRefineTable).
  * spec->code: every case TLC prints is executed on real undefined objects
    obtained the way templates obtain them, through several Python-level
    realisations of the operation and through rendered templates (sync and
    async environments); outcome class, value, error message and log records
    are compared with what TLC printed.

Spec: spec/UndefinedEnvs.tla says WHICH undefined type governs a template (plain /
sandboxed / immutable environments, overlays with another type, every order of overlay
creation and template loading over per-environment template caches); TLC prints the
histories, `run_sessions` replays them on real environments and executes cases of the
table for the type TLC named in the last step.

Python holds no table of expected outcomes: it only knows how to *perform* an
operation and how to *recognise* an abstract value the spec names.
"""
from __future__ import annotations

import copy
import json
import logging
import operator
import pickle

from .. import core
from ..lit_util import load_local_findings, Watchdog

PID = "C21"

# concrete stand-ins for the names the spec uses (Undefined.tla: VarName, AttrName, ...)
VAR, ATTR, KEY, INTKEY = "x", "a", "k", 3
OTHER_VAR = "y"
DEFAULT = "dflt"
CHAIN_ATTR, CHAIN_KEY, CHAIN_IDX = "p", "q", 0

# every special method the spec's dispatch layer can ask for
DUNDERS = [
    "__add__", "__radd__", "__sub__", "__rsub__", "__mul__", "__rmul__", "__truediv__", "__rtruediv__",
    "__floordiv__", "__rfloordiv__", "__mod__", "__rmod__", "__pow__", "__rpow__", "__pos__", "__neg__",
    "__call__", "__getitem__", "__getattr__", "__lt__", "__le__", "__gt__", "__ge__", "__int__", "__float__",
    "__complex__", "__eq__", "__ne__", "__hash__", "__str__", "__len__", "__iter__", "__aiter__", "__bool__",
    "__contains__", "__html__",
]


class Holder:
    """An object without attribute `a` (module level so that pickling works)."""

    def __repr__(self):
        return "Holder()"


class ListHandler(logging.Handler):
    def __init__(self):
        super().__init__()
        self.records = []

    def emit(self, record):
        self.records.append(record.getMessage())


# --------------------------------------------------------------------------
# code -> spec: class bodies
# --------------------------------------------------------------------------

def class_bodies():
    from jinja2 import runtime

    fail = runtime.Undefined.__dict__["_fail_with_undefined_error"]
    classes = {
        "Undefined": runtime.Undefined,
        "Chainable": runtime.ChainableUndefined,
        "Debug": runtime.DebugUndefined,
        "Strict": runtime.StrictUndefined,
        "Logging": runtime.make_logging_undefined(logging.Logger("jv.c21.shape"), runtime.Undefined),
    }
    bodies = {}
    for name, cls in classes.items():
        f, o = [], []
        for m in DUNDERS:
            if m in cls.__dict__:
                (f if cls.__dict__[m] is fail else o).append(m)
        bodies[name] = {"fail": sorted(f), "own": sorted(o)}
    return bodies


def mc_module(bodies):
    def rec(b):
        return "[fail |-> {%s}, own |-> {%s}]" % (
            ", ".join(core.tla_str(m) for m in b["fail"]), ", ".join(core.tla_str(m) for m in b["own"]))

    body = ",\n    ".join(f"{k} |-> {rec(v)}" for k, v in bodies.items())
    return ("---- MODULE MC_Undefined ----\nEXTENDS Undefined\nMCBodies ==\n  [ " + body + " ]\n====\n")


def cfg(depth, deep_others, emit=True):
    return f"""CONSTANTS
  MaxDepth = {depth}
  Emit = {"TRUE" if emit else "FALSE"}
  DeepOthers = {{{", ".join(core.tla_str(o) for o in deep_others)}}}
  Bodies <- MCBodies
SPECIFICATION Spec
INVARIANT TypeOK
INVARIANT C21_StrictRaisesWhereDocumented
INVARIANT C21_ChainableOnlyDiffersInAttrItem
INVARIANT C21_OnlyChainableChains
INVARIANT C21_MessageNamesOrigin
INVARIANT C21_DebugOnlyDiffersInPrint
INVARIANT C21_LoggingKeepsBase
INVARIANT C21_TestsSeparateDefinedFromUndefined
INVARIANT C21_EqualityFollowsType
"""


# --------------------------------------------------------------------------
# performing operations on real objects
# --------------------------------------------------------------------------

def drive(coro):
    """Run a coroutine that never really suspends."""
    try:
        coro.send(None)
    except StopIteration as e:
        return e.value
    coro.close()
    raise core.MachineryError("coroutine suspended unexpectedly")


async def _acollect(u):
    return [i async for i in u]


async def _acollect_for(u):
    out = []
    async for i in u:
        out.append(i)
    return out


def _fstring(u):
    return f"{u}"


def _unescape(u):
    from markupsafe import escape

    return escape(u).unescape()


BIN = {"add": operator.add, "sub": operator.sub, "mul": operator.mul, "truediv": operator.truediv,
       "floordiv": operator.floordiv, "mod": operator.mod, "pow": operator.pow, "lt": operator.lt,
       "le": operator.le, "gt": operator.gt, "ge": operator.ge, "eq": operator.eq, "ne": operator.ne}


def direct_realisations(W):
    """op -> [(name, fn(u, other) -> value)].  W is the World of one class."""
    env = W.env
    R = {
        "print": [("str", lambda u, o: str(u)), ("format", lambda u, o: format(u)), ("fstring", lambda u, o: _fstring(u)),
                  ("percent_s", lambda u, o: "%s" % (u,)), ("escape", lambda u, o: str(_unescape(u))),
                  ("join", lambda u, o: "".join(map(str, [u])))],
        "bool": [("bool", lambda u, o: bool(u)), ("if", lambda u, o: True if u else False)],
        "not": [("not", lambda u, o: not u)],
        "iter": [("list", lambda u, o: list(u)), ("iter", lambda u, o: list(iter(u))), ("star", lambda u, o: [*u])],
        "aiter": [("async_comprehension", lambda u, o: drive(_acollect(u))),
                  ("async_for", lambda u, o: drive(_acollect_for(u)))],
        "len": [("len", lambda u, o: len(u))],
        "contains": [("in", lambda u, o: 1 in u), ("str_in", lambda u, o: "z" in u),
                     ("operator", lambda u, o: operator.contains(u, None))],
        "in_list": [("in_list", lambda u, o: u in [1])],
        "hash": [("hash", lambda u, o: hash(u))],
        "pos": [("pos", lambda u, o: +u)],
        "neg": [("neg", lambda u, o: -u)],
        "int": [("int", lambda u, o: int(u))],
        "float": [("float", lambda u, o: float(u))],
        "complex": [("complex", lambda u, o: complex(u))],
        "call": [("call", lambda u, o: u()), ("call_args", lambda u, o: u(1, k=2))],
        "getattr": [("dot", lambda u, o: getattr(u, CHAIN_ATTR)), ("env.getattr", lambda u, o: env.getattr(u, CHAIN_ATTR))],
        "getitem_str": [("subscript", lambda u, o: u[CHAIN_KEY]), ("env.getitem", lambda u, o: env.getitem(u, CHAIN_KEY))],
        "getitem_int": [("subscript", lambda u, o: u[CHAIN_IDX]), ("env.getitem", lambda u, o: env.getitem(u, CHAIN_IDX))],
        "defined": [("tests", lambda u, o: env.tests["defined"](u)), ("call_test", lambda u, o: env.call_test("defined", u))],
        "undefined": [("tests", lambda u, o: env.tests["undefined"](u)), ("call_test", lambda u, o: env.call_test("undefined", u))],
        "default": [("filters", lambda u, o: env.filters["default"](u, DEFAULT)), ("d", lambda u, o: env.filters["d"](u, DEFAULT)),
                    ("call_filter", lambda u, o: env.call_filter("default", u, [DEFAULT]))],
        "default_bool": [("filters", lambda u, o: env.filters["default"](u, DEFAULT, True)),
                         ("call_filter", lambda u, o: env.call_filter("default", u, [DEFAULT, True]))],
        "copy": [("copy", lambda u, o: copy.copy(u))],
        "deepcopy": [("deepcopy", lambda u, o: copy.deepcopy(u)), ("deepcopy_in_list", lambda u, o: copy.deepcopy([u])[0])],
        "pickle": [("pickle_default", lambda u, o: pickle.loads(pickle.dumps(u))),
                   ("pickle_2", lambda u, o: pickle.loads(pickle.dumps(u, 2))),
                   ("pickle_highest", lambda u, o: pickle.loads(pickle.dumps(u, pickle.HIGHEST_PROTOCOL)))],
    }
    for op, fn in BIN.items():
        R[op] = [("l", (lambda f: lambda u, o: f(u, o))(fn)), ("r", (lambda f: lambda u, o: f(o, u))(fn))]
    R["pow"] = R["pow"] + [("l:pow", lambda u, o: pow(u, o)), ("r:pow", lambda u, o: pow(o, u))]
    # a sequence looks for a value by asking `element == value` of every element that is not the value itself
    # (realisation names of binary operations start with the operand side they realise)
    R["eq"] = R["eq"] + [("r:in_list", lambda u, o: u in [o]), ("l:in_list", lambda u, o: o in [u]),
                         ("r:list_count", lambda u, o: [o].count(u) == 1), ("l:tuple_count", lambda u, o: (u,).count(o) == 1)]
    return R


ORIGIN_EXPR = {"name": VAR, "attr": f"o.{ATTR}", "item_str": f"d['{KEY}']", "item_int": f"d[{INTKEY}]", "hint": "h"}
ACCESS_SRC = {"getattr": f".{CHAIN_ATTR}", "getitem_str": f"['{CHAIN_KEY}']", "getitem_int": f"[{CHAIN_IDX}]"}
FOREIGN = {"u_Undefined": "Undefined", "u_Chainable": "Chainable", "u_Debug": "Debug", "u_Strict": "Strict"}
NOELSE_SRC = "('a' if false)"
OTHER_SRC = {"int": "42", "float": "1.5", "str": "'s'", "list": "[1]", "none": "none", "undef": OTHER_VAR, "none_": "",
             "noelse": NOELSE_SRC, **{k: f"f_{v}" for k, v in FOREIGN.items()}}
BIN_SRC = {"add": "+", "sub": "-", "mul": "*", "truediv": "/", "floordiv": "//", "mod": "%", "pow": "**",
           "lt": "<", "le": "<=", "gt": ">", "ge": ">=", "eq": "==", "ne": "!="}

# template realisations: op -> [(name, source with E / O placeholders, {abstract value: rendered text})]
TEMPLATE = {
    "print": [("out", "{{ <E> }}", None), ("concat", "{{ <E> ~ '' }}", None), ("string", "{{ <E>|string }}", None),
              ("escape", "{{ <E>|e|replace('&#39;', \"'\") }}", None), ("format", "{{ '%s'|format(<E>) }}", None),
              ("join", "{{ [<E>]|join }}", None), ("and", "{{ <E> and 1 }}", None)],
    "bool": [("if", "{% if <E> %}T{% else %}F{% endif %}", {"false": "F", "true": "T"}),
             ("cond", "{{ 'T' if <E> else 'F' }}", {"false": "F", "true": "T"}),
             ("or", "{{ <E> or 'F' }}", {"false": "F"}),
             ("elif", "{% if false %}{% elif <E> %}T{% else %}F{% endif %}", {"false": "F", "true": "T"})],
    "not": [("not", "{{ not <E> }}", {"true": "True", "false": "False"})],
    "iter": [("for", "{% for i in <E> %}I{% else %}EMPTY{% endfor %}", {"empty_iter": "EMPTY"}),
             ("list", "{{ <E>|list }}", {"empty_iter": "[]"}),
             ("join", "[{{ <E>|join(',') }}]", {"empty_iter": "[]"})],
    "len": [("length", "{{ <E>|length }}", {"zero": "0"}), ("count", "{{ <E>|count }}", {"zero": "0"})],
    "contains": [("in", "{{ 1 in <E> }}", {"false": "False"}), ("not_in", "{{ 1 not in <E> }}", {"false": "True"})],
    "in_list": [("in_list", "{{ <E> in [1] }}", {"false": "False"})],
    "hash": [("dict_key", "{{ {<E>: 1}|length }}", {"class_hash": "1"})],
    "pos": [("pos", "{{ +<E> }}", {})],
    "neg": [("neg", "{{ -<E> }}", {})],
    "call": [("call", "{{ <E>() }}", {}), ("call_args", "{{ <E>(1, k=2) }}", {})],
    "getattr": [("dot", "{{ (<E>.p) is undefined }}|{{ <E>.p|default('dflt') }}", {"self": "True|dflt"})],
    "getitem_str": [("subscript", "{{ (<E>['q']) is undefined }}|{{ <E>['q']|default('dflt') }}", {"self": "True|dflt"})],
    "getitem_int": [("subscript", "{{ (<E>[0]) is undefined }}|{{ <E>[0]|default('dflt') }}", {"self": "True|dflt"})],
    "defined": [("is", "{{ <E> is defined }}", {"false": "False", "true": "True"}),
                ("if_is", "{% if <E> is defined %}T{% else %}F{% endif %}", {"false": "F", "true": "T"})],
    "undefined": [("is", "{{ <E> is undefined }}", {"false": "False", "true": "True"}),
                  ("is_not_defined", "{{ <E> is not defined }}", {"false": "False", "true": "True"})],
    "default": [("default", "{{ <E>|default('dflt') }}", {"default_value": "dflt"}), ("d", "{{ <E>|d('dflt') }}", {"default_value": "dflt"})],
    "default_bool": [("default", "{{ <E>|default('dflt', true) }}", {"default_value": "dflt"}),
                     ("kw", "{{ <E>|default('dflt', boolean=true) }}", {"default_value": "dflt"})],
}
for _op, _sym in BIN_SRC.items():
    TEMPLATE[_op] = [("l", "{{ <E> %s <O> }}" % _sym, {"true": "True", "false": "False"}),
                     ("r", "{{ <O> %s <E> }}" % _sym, {"true": "True", "false": "False"})]
TEMPLATE["eq"] = TEMPLATE["eq"] + [("r:in_list", "{{ <E> in [<O>] }}", {"true": "True", "false": "False"}),
                                   ("l:in_list", "{{ <O> in [<E>] }}", {"true": "True", "false": "False"}),
                                   ("l:if", "{% if <E> == <O> %}True{% else %}False{% endif %}", {"true": "True", "false": "False"})]
TEMPLATE["ne"] = TEMPLATE["ne"] + [("r:not_in_list", "{{ <E> not in [<O>] }}", {"true": "True", "false": "False"}),
                                   ("l:not_in_tuple", "{{ <O> not in (<E>,) }}", {"true": "True", "false": "False"})]
SEQUENCE_FORMS = ("eq", "ne")
# the async iteration protocol is what an async environment uses for the same syntax
TEMPLATE_ASYNC_ONLY = {"aiter": TEMPLATE["iter"]}


class World:
    """One undefined class (base x logging) with its environments."""

    def __init__(self, base, is_logging):
        import jinja2
        from jinja2 import runtime

        cls = {"Undefined": runtime.Undefined, "Chainable": runtime.ChainableUndefined,
               "Debug": runtime.DebugUndefined, "Strict": runtime.StrictUndefined}[base]
        self.base, self.logging = base, is_logging
        self.handler = ListHandler()
        if is_logging:
            lg = logging.Logger(f"jv.c21.{base}")
            lg.propagate = False
            lg.addHandler(self.handler)
            cls = runtime.make_logging_undefined(lg, cls)
        self.cls = cls
        self.env = jinja2.Environment(undefined=cls)
        self.aenv = jinja2.Environment(undefined=cls, enable_async=True)
        self.direct = direct_realisations(self)
        self.tcache = {}
        self.ecache = {}

    def make(self, origin, env=None):
        env = env or self.env
        if origin == "name":
            return env.compile_expression(VAR, undefined_to_none=False)()
        if origin == "attr":
            return env.getattr(Holder(), ATTR)
        if origin == "item_str":
            return env.getitem({}, KEY)
        if origin == "item_int":
            return env.getitem({}, INTKEY)
        if origin == "hint":
            return env.undefined(hint=self.hint)
        raise KeyError(origin)

    def other(self, kind):
        if kind == "undef":
            return self.expression(self.env, OTHER_VAR)()
        if kind == "noelse":
            # evaluated in the environment under test, whatever its undefined type
            return self.expression(self.env, NOELSE_SRC)()
        if kind in FOREIGN:
            return self.expression(foreign_env(FOREIGN[kind]), OTHER_VAR)()
        return {"int": 42, "float": 1.5, "str": "s", "list": [1], "none": None}.get(kind)

    def expression(self, env, src):
        """The compiled expression `src` of `env` (compiled once); calling it evaluates it afresh."""
        key = (id(env), src)
        ex = self.ecache.get(key)
        if ex is None:
            ex = self.ecache[key] = env.compile_expression(src, undefined_to_none=False)
        return ex

    def context(self, env, other=None):
        ctx = {"o": Holder(), "d": {}, "h": env.undefined(hint=self.hint)}
        if other in FOREIGN:
            ctx[OTHER_SRC[other]] = self.other(other)
        return ctx


_FOREIGN_ENV = {}


def foreign_env(base):
    """A second environment whose undefined type is the plain class `base`."""
    import jinja2
    from jinja2 import runtime

    env = _FOREIGN_ENV.get(base)
    if env is None:
        cls = {"Undefined": runtime.Undefined, "Chainable": runtime.ChainableUndefined,
               "Debug": runtime.DebugUndefined, "Strict": runtime.StrictUndefined}[base]
        env = _FOREIGN_ENV[base] = jinja2.Environment(undefined=cls)
    return env


_CODE = {}


def compiled(is_async, src):
    """Compile a template source once per mode; the code does not depend on the undefined class."""
    import jinja2

    key = (is_async, src)
    code = _CODE.get(key)
    if code is None:
        cenv = _CODE.setdefault(("env", is_async), jinja2.Environment(enable_async=is_async))
        code = _CODE[key] = cenv.compile(src)
    return code


def template(W, is_async, src):
    from jinja2 import Template

    key = (is_async, src)
    t = W.tcache.get(key)
    if t is None:
        env = W.aenv if is_async else W.env
        t = W.tcache[key] = Template.from_code(env, compiled(is_async, src), env.make_globals(None), None)
    return t


# --------------------------------------------------------------------------
# recognising the abstract outcomes the spec names
# --------------------------------------------------------------------------

def msg_ok(msg, text):
    return text == msg["frag"] if msg["mode"] == "exact" else msg["frag"] in text


def value_ok(W, case, val, got, u0):
    """Is `got` the abstract value `val` (a name from Undefined.tla)?"""
    res = case["res"]
    if val == "empty_str":
        return isinstance(got, str) and got == ""
    if val == "debug_str":
        return isinstance(got, str) and msg_ok(res["shown"], got)
    if val == "false":
        return got is False
    if val == "true":
        return got is True
    if val == "empty_iter":
        return got == []
    if val == "zero":
        return type(got) is int and got == 0
    if val == "class_hash":
        twin = W.make("name")
        return type(got) is int and got == hash(twin) and {u0: 1}[u0] == 1
    if val == "default_value":
        return got == DEFAULT
    if val == "self":
        return got is u0
    if val == "equivalent_undefined":
        if type(got) is not type(u0):
            return False
        try:
            got + 1
        except Exception as e:  # noqa
            return type(e).__name__ == "UndefinedError" and msg_ok(res["msg"], str(e))
        return False
    raise core.MachineryError(f"unknown abstract value {val!r}")


def describe(outcome):
    kind, v = outcome
    if kind == "raises":
        return f"raises {type(v).__name__}({v})"
    return f"value {v!r}"


def judge(ck, W, case, via, outcome, u0, logs, text_map=None):
    """Compare one executed realisation with the outcome TLC printed."""
    from jinja2.exceptions import UndefinedError

    res = case["res"]
    kind, v = outcome
    problem = None
    if res["kind"] == "raises":
        if kind != "raises":
            problem = ("value", f"documented to raise UndefinedError, but gave {describe(outcome)}")
        elif not isinstance(v, UndefinedError):
            problem = (type(v).__name__, f"documented to raise UndefinedError, raised {describe(outcome)}")
        else:
            ok = msg_ok(res["msg"], str(v))
            if not ok and res["blame"] == "either":
                ok = f"'{OTHER_VAR}'" in str(v)
            if not ok:
                problem = ("message", f"UndefinedError message {str(v)!r} does not name the origin ({res['msg']})")
    else:
        if kind == "raises":
            problem = (type(v).__name__, f"documented to give {res['val']}, but {describe(outcome)}")
        elif text_map is not None:
            if res["val"] == "debug_str" or (res["val"] == "empty_str"):
                ok = value_ok(W, case, res["val"], v, u0)
            elif res["val"] in text_map:
                ok = v == text_map[res["val"]]
            else:
                raise core.MachineryError(f"template realisation {via} cannot show {res['val']}")
            if not ok:
                problem = ("value", f"documented to give {res['val']}, rendered {v!r}")
        elif not value_ok(W, case, res["val"], v, u0):
            problem = ("value", f"documented to give {res['val']}, gave {v!r}")
    label = f"{W.cls.__name__}[{case['base']}{'+logging' if case['logging'] else ''}] from {case['origin']}" \
            f"{''.join(ACCESS_SRC[a] for a in case['path'])} {case['op']}/{via}" \
            f"{'(' + case['side'] + ',' + case['other'] + ')' if case['other'] != 'none' else ''}"
    n = 0
    if problem:
        ck.violation(dict(case, via=via), f"{label}: {problem[1]}",
                     {"kind": "undefined-op", "op": case["op"], "base": case["base"], "got": problem[0],
                      "expected": res["kind"], "logging": case["logging"]})
        n += 1
    if res["log"] == "required" and not any(res["msg"]["frag"] in m for m in logs):
        ck.violation(dict(case, via=via, check="log"),
                     f"{label}: the logging undefined is documented to log printing and iteration, "
                     f"no record naming the origin was emitted (records: {logs[:3]})",
                     {"kind": "undefined-log", "op": case["op"], "base": case["base"]})
        n += 1
    return n


def apply_path(u, path):
    for a in path:
        u = {"getattr": lambda v: getattr(v, CHAIN_ATTR), "getitem_str": lambda v: v[CHAIN_KEY],
             "getitem_int": lambda v: v[CHAIN_IDX]}[a](u)
    return u


CONTROL_VALUES = {"none": None, "zero": 0, "empty_str": "", "empty_list": [], "false": False, "one": 1, "text": "text",
                  "object": Holder()}
CONTROL_TEMPLATES = {
    "defined": [("is", "{{ v is defined }}", {"true": "True", "false": "False"}),
                ("if", "{% if v is defined %}T{% else %}F{% endif %}", {"true": "T", "false": "F"})],
    "undefined": [("is", "{{ v is undefined }}", {"true": "True", "false": "False"}),
                  ("is_not", "{{ v is not defined }}", {"true": "True", "false": "False"})],
    "default": [("default", "{{ (v|default('dflt')) is sameas v }}", {"the_value": "True", "default_value": "False"}),
                ("d", "{{ (v|d('dflt')) is sameas v }}", {"the_value": "True", "default_value": "False"})],
    "default_bool": [("default", "{{ v|default('dflt', true) == 'dflt' }}|{{ (v|default('dflt', true)) is sameas v }}",
                      {"the_value": "False|True", "default_value": "True|False"})],
}


def run_control(ck, W, case):
    """Defined values through the defined / undefined tests and the default filter."""
    v = CONTROL_VALUES[case["origin"]]
    want = case["res"]["val"]
    n = 0

    def ok(got):
        return {"true": got is True, "false": got is False, "the_value": got is v, "default_value": got == DEFAULT and got is not v}[want]

    for via, fn in W.direct[case["op"]]:
        try:
            got = fn(v, None)
        except Exception as e:  # noqa
            got = e
        n += 1
        if not ok(got):
            ck.violation(dict(case, via=via), f"defined value {v!r}: {case['op']}/{via} documented to give {want}, gave {got!r}",
                         {"kind": "defined-control", "op": case["op"], "value": case["origin"]})
    for via, src, tmap in CONTROL_TEMPLATES[case["op"]]:
        for is_async in (False, True):
            t = template(W, is_async, src)
            try:
                got = drive(t.render_async(v=v)) if is_async else t.render(v=v)
            except Exception as e:  # noqa
                got = repr(e)
            n += 1
            if got != tmap[want]:
                ck.violation(dict(case, via=f"template:{via}", source=src),
                             f"defined value {v!r}: {src} documented to show {want} ({tmap[want]!r}), rendered {got!r}",
                             {"kind": "defined-control", "op": case["op"], "value": case["origin"]})
    return n


def run_direct(ck, W, case, only=None):
    n = 0
    for via, fn in W.direct[case["op"]]:
        if case["op"] in BIN and via.split(":")[0] != case["side"]:
            continue
        if case["op"] in SEQUENCE_FORMS and ":" in via and case["path"]:
            continue  # equality through sequence containment: for the undefined a missing thing gives directly
        if only and via != only:
            continue
        u0 = W.make(case["origin"])
        try:
            u = apply_path(u0, case["path"])
        except Exception as e:  # the spec only emits paths of accesses that succeed
            ck.violation(dict(case, via="path"), f"access chain {case['path']} on {W.cls.__name__} raised {e!r}",
                         {"kind": "undefined-op", "op": case["path"][-1], "base": case["base"], "got": type(e).__name__,
                          "expected": "self", "logging": case["logging"]})
            return n + 1
        if u is not u0:
            ck.violation(dict(case, via="path"), f"access chain {case['path']} on {W.cls.__name__} did not return the undefined itself",
                         {"kind": "undefined-op", "op": case["path"][-1], "base": case["base"], "got": "value",
                          "expected": "self", "logging": case["logging"]})
            return n + 1
        o = W.other(case["other"])
        del W.handler.records[:]
        try:
            outcome = ("value", fn(u, o))
        except Exception as e:  # noqa
            outcome = ("raises", e)
        judge(ck, W, case, via, outcome, u0, list(W.handler.records))
        n += 1
    return n


def template_forms(case, is_async):
    op = case["op"]
    if is_async and op == "aiter":
        forms = TEMPLATE_ASYNC_ONLY["aiter"]
    elif op == "aiter" or (is_async and op == "iter"):
        return []  # sync syntax uses __iter__, async environments use __aiter__ for the same syntax
    else:
        forms = TEMPLATE.get(op, [])
    E = ORIGIN_EXPR[case["origin"]] + "".join(ACCESS_SRC[a] for a in case["path"])
    out = []
    for via, src, tmap in forms:
        if op in BIN and via.split(":")[0] != case["side"]:
            continue
        if op in SEQUENCE_FORMS and ":" in via and case["path"]:
            continue
        s = src.replace("<E>", E).replace("<O>", OTHER_SRC.get(case["other"], ""))
        out.append((via, s, tmap))
    return out


def run_templates(ck, W, case, is_async, entry="auto", only=None):
    n = 0
    for via, src, tmap in template_forms(case, is_async):
        name = f"template{'-async' if is_async else ''}:{via}"
        if only and name != only:
            continue
        env = W.aenv if is_async else W.env
        t = template(W, is_async, src)
        ctx = W.context(env, case["other"])
        del W.handler.records[:]
        try:
            if is_async and entry != "render":
                outcome = ("value", drive(t.render_async(**ctx)))
            else:
                outcome = ("value", t.render(**ctx))
        except Exception as e:  # noqa
            outcome = ("raises", e)
        judge(ck, W, dict(case, source=src), name + (":render" if is_async and entry == "render" else ""),
              outcome, None, list(W.handler.records), text_map=tmap or {})
        n += 1
    return n


# --------------------------------------------------------------------------
# which undefined type governs: environments, overlays, load order (spec/UndefinedEnvs.tla)
# --------------------------------------------------------------------------

TYPE_NAMES = {f"{b}{'+log' if lg else ''}": (b, lg) for b in ("Undefined", "Chainable", "Debug", "Strict") for lg in (False, True)}
ENV_KINDS = ("plain", "sandbox", "immutable")


def envs_cfg(kinds, overlay_kinds, max_envs, max_steps, warm=False, emit=True):
    def s(xs):
        return "{" + ", ".join(core.tla_str(x) for x in xs) + "}"

    return f"""CONSTANTS
  Kinds = {s(kinds)}
  OverlayKinds = {s(overlay_kinds)}
  Types = {s(sorted(TYPE_NAMES))}
  MaxEnvs = {max_envs}
  MaxSteps = {max_steps}
  WarmOverlay = {"TRUE" if warm else "FALSE"}
  Emit = {"TRUE" if emit else "FALSE"}
SPECIFICATION Spec
INVARIANT TypeOK
INVARIANT C21_OverlayKeepsKind
INVARIANT C21_TemplateBehavesAsItsEnvironment
INVARIANT C21_CachesAreOwn
"""


def session_loader():
    """A loader whose templates are named by their source (the code is compiled once per compiler mode)."""
    import jinja2

    class SourceLoader(jinja2.BaseLoader):
        def get_source(self, environment, name):
            return name, None, None

        def load(self, environment, name, globals=None):
            key = ("session", bool(environment.sandboxed), name)
            code = _CODE.get(key)
            if code is None:
                code = _CODE[key] = environment.compile(name)
            return environment.template_class.from_code(environment, code, environment.make_globals(globals), None)

    return SourceLoader()


def env_class(kind):
    import jinja2
    from jinja2 import sandbox

    return {"plain": jinja2.Environment, "sandbox": sandbox.SandboxedEnvironment,
            "immutable": sandbox.ImmutableSandboxedEnvironment}[kind]


def case_key(cs):
    return (cs["origin"], cs["op"], cs["side"], cs["other"])


def session_keys(sess, index, keys_full, keys_probe, seed, stride):
    """Which cases of the table the last Get of a history executes (a sampling policy, not an expectation):
    a fresh sandboxed environment runs the whole depth-0 slice, every other history a rotating probe."""
    if len(sess) == 2 and sess[0]["kind"] != "plain":
        return keys_full
    off = (index * 7 + seed) % stride
    return keys_probe[off::stride]


def run_session(ck, ws, table, sess, keys, only=None):
    """Replay one history of UndefinedEnvs.tla on real environments; the last step (a Get) is judged with the
    cases the table of Undefined.tla has for the type TLC named in that step."""
    loader = session_loader()
    envs = []
    n = 0
    for i, st in enumerate(sess):
        W = ws[TYPE_NAMES[st["ty"]]]
        if st["act"] == "new":
            envs.append(env_class(st["kind"])(undefined=W.cls, loader=loader))
            continue
        if st["act"] == "overlay":
            envs.append(envs[st["parent"] - 1].overlay(undefined=W.cls))
            continue
        env = envs[st["env"] - 1]
        final = i == len(sess) - 1
        for key in keys:
            case = table[TYPE_NAMES[st["ty"]]].get(key)
            if case is None:
                case = next((table[t][key] for t in table if key in table[t]), None)  # only to name the templates
                if case is None or final:
                    continue
            for via, src, tmap in template_forms(case, False):
                name = f"session:{via}"
                if only and name != only:
                    continue
                try:
                    t = env.get_template(src)
                except Exception as e:  # noqa
                    raise core.MachineryError(f"template {src!r} did not load: {e!r}")
                if not final:
                    continue  # an earlier Get of the history: the template is in the cache of that environment now
                ctx = W.context(env, case["other"])
                del W.handler.records[:]
                try:
                    outcome = ("value", t.render(**ctx))
                except Exception as e:  # noqa
                    outcome = ("raises", e)
                judge(ck, W, dict(case, source=src, session=sess, env=f"{st['kind']} environment #{st['env']}"), name,
                      outcome, None, list(W.handler.records), text_map=tmap or {})
                n += 1
    return n


def session_table(cases):
    table = {t: {} for t in TYPE_NAMES.values()}
    for cs in cases:
        if cs["base"] != "Defined" and not cs["path"]:
            table[(cs["base"], cs["logging"])][case_key(cs)] = cs
    return table


def run_sessions(ck, ws, cases, quick, dog):
    """spec/UndefinedEnvs.tla: TLC enumerates the histories (root environment of every kind and type, overlays with
    another type before / after / between loads) and names the governing type; the real environments replay them."""
    kinds = list(ENV_KINDS)
    okinds = ["plain", "sandbox"] if quick else kinds
    steps = 4 if quick else 5
    r = core.run_tlc(PID, "UndefinedEnvs", envs_cfg(kinds, okinds, 2, steps), name="envs", coverage=quick, workers=1)
    ck.add_tlc(r, "UndefinedEnvs: which undefined type governs (environment kinds, overlays, load order)")
    if quick:
        ck.require_coverage(r, ["New", "Overlay", "Get"])
    # negative control: an overlay that inherits its parent's cache entries must break the invariant
    rn = core.run_tlc(PID, "UndefinedEnvs", envs_cfg(["plain"], ["plain"], 2, 4, warm=True, emit=False).replace("INVARIANT C21_CachesAreOwn\n", ""), name="envs-warm", workers=1)
    ck.add_tlc(rn, "UndefinedEnvs: negative control (overlay starts with the parent's cache entries)", expect_ok=False)
    if rn.ok or "C21_TemplateBehavesAsItsEnvironment" not in str(rn.invariant_violated):
        raise core.MachineryError("vacuous model: a warm overlay cache does not violate C21_TemplateBehavesAsItsEnvironment")
    sessions = [json.loads(l) for l in sorted(set(r.printed()))]
    if len(sessions) < 100:
        raise core.MachineryError(f"UndefinedEnvs.tla printed only {len(sessions)} histories")
    table = session_table(cases)
    allkeys = sorted({k for t in table.values() for k in t})
    keys_full = [k for k in allkeys if k[3] in ("none", "int")]
    keys_probe = [k for k in allkeys if k[3] == "none"]
    stride = 31 if quick else 7
    n = 0
    for i, sess in enumerate(sessions):
        if len(ck.violations) > 200:
            ck.extra["stopped_early"] = f"more than 200 violations after {i} of {len(sessions)} environment histories"
            break
        last = sess[-1]
        b, lg = TYPE_NAMES[last["ty"]]
        dog.arm({"session": sess}, f"environment history {[s['act'] for s in sess]} ending in {last['kind']}/{last['ty']}",
                {"kind": "undefined-op", "op": "session", "base": b, "got": "hang", "expected": "value", "logging": lg})
        n += run_session(ck, ws, table, sess, session_keys(sess, i, keys_full, keys_probe, ck.seed or 0, stride))
        if i % 499 == 0:
            ck.sample({"history": [f"{s['act']}({s['env']},{s['kind']},{s['ty']})" for s in sess]})
    ck.extra["environment_histories"] = len(sessions)
    ck.extra["history_renders"] = n
    return n


# --------------------------------------------------------------------------

def worlds():
    ws = {}
    for base in ("Undefined", "Chainable", "Debug", "Strict"):
        for lg in (False, True):
            ws[(base, lg)] = World(base, lg)
    return ws


def set_hint(ws, hint):
    for w in ws.values():
        w.hint = hint


def run(ck):
    load_local_findings(ck)
    quick = ck.tier == "quick"
    bodies = class_bodies()
    gen = core.workdir(PID, "gen")
    (gen / "MC_Undefined.tla").write_text(mc_module(bodies))
    depth = 2 if quick else 3
    deep = ["int"] if quick else ["int", "str", "undef"]
    c = cfg(depth, deep)
    r = core.run_tlc(PID, "MC_Undefined", c, extra_modules=[gen / "MC_Undefined.tla"], name="table", coverage=quick, workers=1)
    ck.add_tlc(r, "Undefined: documented table + chains")
    if quick:
        ck.require_coverage(r, ["Access", "Final"])

    # code->spec: do the real class bodies, dispatched by Python's protocol rules, give the table?
    r2 = core.run_tlc(PID, "MC_Undefined", cfg(1, deep, emit=False).replace("INVARIANT TypeOK\n", "INVARIANT C21_BodiesRefineTable\n", 1),
                      extra_modules=[gen / "MC_Undefined.tla"], name="bodies", workers=1)
    ck.tlc_runs.append({"spec": "Undefined: real class bodies refine the table", "distinct_states": r2.distinct,
                        "states_generated": r2.generated, "depth": r2.depth, "wall_s": round(r2.wall, 2)})
    ck.states += r2.distinct
    ck.transitions += r2.generated
    ck.extra["class_bodies"] = bodies
    ck.extra["bodies_refine_table"] = not r2.invariant_violated

    cases = [json.loads(l) for l in sorted(set(r.printed()))]
    if len(cases) < 1000:
        raise core.MachineryError(f"Undefined.tla printed only {len(cases)} cases")
    hint = None
    ws = worlds()
    # the hint text is the spec's; read it from any hint case
    for cs in cases:
        if cs["origin"] == "hint" and cs["res"]["kind"] == "raises":
            hint = cs["res"]["msg"]["frag"]
            break
    set_hint(ws, hint)
    n_direct = n_tpl = 0
    before = len(ck.violations) + sum(h["count"] for h in ck.known_hits.values())
    dog = Watchdog(ck, 30)
    for i, cs in enumerate(cases):
        dog.arm(cs, f"{cs['base']}{'+logging' if cs['logging'] else ''} from {cs['origin']}: operation {cs['op']}",
                {"kind": "undefined-op", "op": cs["op"], "base": cs["base"], "got": "hang", "expected": cs["res"]["kind"],
                 "logging": cs["logging"]})
        if len(ck.violations) > 200:
            ck.extra["stopped_early"] = f"more than 200 violations after {i} of {len(cases)} cases"
            break
        if cs["base"] == "Defined":
            for W in ws.values():
                n_direct += run_control(ck, W, cs)
            continue
        W = ws[(cs["base"], cs["logging"])]
        n_direct += run_direct(ck, W, cs)
        n_tpl += run_templates(ck, W, cs, False)
        n_tpl += run_templates(ck, W, cs, True)
        if not cs["path"] and (not quick or i % 7 == 0):
            n_tpl += run_templates(ck, W, cs, True, entry="render")
        if i % 4001 == 0:
            ck.sample({k: cs[k] for k in ("base", "logging", "origin", "path", "op", "side", "other")} | {"documented": cs["res"]["kind"] + ":" + cs["res"]["val"]})
    if len(ck.violations) <= 200:
        n_tpl += run_sessions(ck, ws, cases, quick, dog)
    dog.disarm()
    ck.traces += n_direct + n_tpl
    ck.evaluations += n_direct + n_tpl
    ck.extra["cases_from_tlc"] = len(cases)
    ck.extra["direct_executions"] = n_direct
    ck.extra["template_renders"] = n_tpl
    ck.extra["template_sources_compiled"] = sum(1 for k in _CODE if k[0] != "env")
    after = len(ck.violations) + sum(h["count"] for h in ck.known_hits.values())
    if r2.invariant_violated and after == before:
        # the dispatch model disagrees with the table but no execution does: the model of
        # Python's protocol rules (not jinja2) is off - report as drift, not as a verdict
        ck.extra.setdefault("drift", []).append("C21_BodiesRefineTable violated by the introspected class bodies "
                                                "although every executed case matched the table")
    elif not r2.invariant_violated and after != before:
        ck.extra.setdefault("drift", []).append("executions deviate from the table although the class bodies refine it")
    ck.extra["excluded_shapes"] = [
        "'s' % undefined (str formatting decides, the undefined operand is never asked)",
        "pickling instances of the function-local class made by make_logging_undefined",
        "<, +, ... (the operations that simply fail) with a second undefined of a *different* class",
        "v == s / v != s with a strict undefined s to the right of a non-strict undefined v of a type StrictUndefined "
        "does not derive from (Python asks v only; s == v and plain-Undefined == s are covered)",
        "operators Undefined does not define (@, <<, &, divmod, abs, round, ~x, index): TypeError from Python itself",
        "int/float *filters* on undefined (filter documentation, C23)",
        "undefined values whose exception class is not UndefinedError (sandbox unsafe_undefined)",
    ]
    ck.assumptions += [
        "environment histories (UndefinedEnvs.tla): one root environment and one overlay, one loader, sync rendering; a fresh "
        "sandboxed environment executes the whole depth-0 table (other operands none / int), every other history a rotating "
        "probe of it (sampled)",
        "other operands are int, float, str, list, None, a second undefined of the same class and, for == / !=, a second "
        "undefined of each plain class (made by a second environment) and the value of an else-less inline if",
        "log records are observed through a logging.Handler attached to the logger given to make_logging_undefined",
    ]


def replay(ck, rec):
    load_local_findings(ck)
    c = rec["case"]
    if c["base"] == "Defined":
        W = World("Undefined", False)
        W.hint = "h"
        run_control(ck, W, {k: v for k, v in c.items() if k not in ("via", "source")})
        return
    W = World(c["base"], c["logging"])
    W.hint = c["res"]["msg"]["frag"] if c["origin"] == "hint" else "custom hint h1 for the missing thing"
    via = c.get("via", "")
    case = {k: v for k, v in c.items() if k not in ("via", "check", "source", "session", "env")}
    if via.startswith("session:"):
        ws = worlds()
        set_hint(ws, W.hint)
        table = {t: {case_key(case): case} for t in TYPE_NAMES.values()}
        run_session(ck, ws, table, c["session"], [case_key(case)], only=via)
        return
    if via.startswith("template"):
        is_async = via.startswith("template-async")
        entry = "render" if via.endswith(":render") else "auto"
        name = via[:-len(":render")] if entry == "render" else via
        run_templates(ck, W, case, is_async, entry=entry, only=name)
    elif via == "path":
        run_direct(ck, W, case)
    else:
        run_direct(ck, W, case, only=via)
