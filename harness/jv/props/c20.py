"""C20 - sandbox operator interception sees every intercepted operator application.

Spec: spec/SandboxOpsSem.tla (semantics of arithmetic expressions under the
operator configuration of an environment: intercepted sets + callback tables;
an executed application goes through the hook iff its operator is intercepted
and then yields what the environment's callback returns; no compile-time
evaluation), spec/SandboxOps.tla (every case x intercepted set, hook result =
native + 1000), spec/SandboxOpsEnvs.tla (several environments: new / install /
icept / render steps, callback tables are per environment), spec/SandboxGate.tla
(OpHook / NativeOp actions, invariant C20_AllAndOnlyIntercepted on the state
machine).

Binding (spec -> code): the harness generates arithmetic-heavy expressions
(constants, variables, nesting, conditional / and / or) in several template
contexts (output, filter argument, set, call argument, macro default evaluated
per call, loop filter evaluated per item); TLC evaluates every (case, subset
of intercepted operators) and prints the expected hook log, values and status;
the real template is rendered in a SandboxedEnvironment subclass whose
call_binop / call_unop log (op, operands) and return super() + 1000, and hook
log + rendered text are compared with TLC's.  Scenarios over several plain
SandboxedEnvironment instances (created, given callbacks through
env.binop_table / env.unop_table, re-configured and rendering in generated
orders) are walked by TLC (SandboxOpsEnvs) and replayed step by step.
"""
from __future__ import annotations

import itertools
import json
import operator
import random
import threading
from concurrent.futures import ProcessPoolExecutor

from .. import core
from .. import sandbox_util as su

PID = "C20"
BIN = ["+", "-", "*", "/", "//", "%", "**"]
UN = ["+", "-"]

ONCE = ["{{ %s }}", "{{ nope_|default(%s) }}", "{%% set y_ = %s %%}{{ y_ }}", "{{ ident(%s) }}",
        "{%% if true %%}{{ %s }}{%% endif %%}", "{{ [%s][0] }}", "{%% with w = %s %%}{{ w }}{%% endwith %%}",
        "{{ {'k': %s}.k }}", "{%% macro m(a) %%}{{ a }}{%% endmacro %%}{{ m(%s) }}", "{{ (%s)|string }}",
        "{%% for q in [%s] %%}{{ q }}{%% endfor %%}", "{{ ident(v=%s) }}"]
TWICE = ["{%% macro m(a=%s) %%}{{ a }}|{%% endmacro %%}{{ m() }}{{ m() }}",
         "{%% for q_ in [1, 2] %%}{{ %s }}|{%% endfor %%}",
         "{%% macro m() %%}{{ %s }}|{%% endmacro %%}{{ m() }}{{ m() }}"]
LOOP = ["{%% for i in items if %s %%}{{ i }}|{%% endfor %%}",
        "{{ items|length }}:{%% for i in items if (%s) %%}{{ i }}|{%% endfor %%}"]


def gen_expr(rnd, depth, names):
    r = rnd.random()
    if depth == 0 or r < 0.18:
        if rnd.random() < 0.55:
            return {"t": "c", "v": rnd.choice([0, 1, 2, 2, 3, 4, 5, 6, 7, 10, 12])}
        return {"t": "v", "n": rnd.choice(names)}
    if r < 0.72:
        return {"t": "b", "op": rnd.choice(BIN), "l": gen_expr(rnd, depth - 1, names),
                "r": gen_expr(rnd, depth - 1, names)}
    if r < 0.86:
        return {"t": "u", "op": rnd.choice(UN), "e": gen_expr(rnd, depth - 1, names)}
    if r < 0.93:
        return {"t": "if", "c": gen_expr(rnd, depth - 1, names), "a": gen_expr(rnd, depth - 1, names),
                "b": gen_expr(rnd, depth - 1, names)}
    return {"t": rnd.choice(["and", "or"]), "l": gen_expr(rnd, depth - 1, names),
            "r": gen_expr(rnd, depth - 1, names)}


def unparse(e):
    t = e["t"]
    if t == "c":
        return str(e["v"])
    if t == "v":
        return e["n"]
    if t == "b":
        return f"({unparse(e['l'])} {e['op']} {unparse(e['r'])})"
    if t == "u":
        return f"({e['op']}{unparse(e['e'])})"
    if t == "if":
        return f"({unparse(e['a'])} if {unparse(e['c'])} else {unparse(e['b'])})"
    return f"({unparse(e['l'])} {t} {unparse(e['r'])})"


def count_ops(e):
    if e["t"] in ("c", "v"):
        return 0
    return (1 if e["t"] in ("b", "u") else 0) + sum(count_ops(v) for v in e.values() if isinstance(v, dict))


FIXED = [
    # constants the optimizer could fold
    {"t": "b", "op": "+", "l": {"t": "c", "v": 1}, "r": {"t": "c", "v": 2}},
    {"t": "b", "op": "*", "l": {"t": "b", "op": "+", "l": {"t": "c", "v": 1}, "r": {"t": "c", "v": 2}},
     "r": {"t": "c", "v": 3}},
    {"t": "u", "op": "-", "e": {"t": "c", "v": 1}},
    {"t": "u", "op": "+", "e": {"t": "c", "v": 4}},
    {"t": "u", "op": "-", "e": {"t": "u", "op": "-", "e": {"t": "c", "v": 5}}},
    {"t": "b", "op": "**", "l": {"t": "c", "v": 2}, "r": {"t": "c", "v": 3}},
    {"t": "b", "op": "/", "l": {"t": "c", "v": 6}, "r": {"t": "c", "v": 3}},
    {"t": "b", "op": "//", "l": {"t": "c", "v": 7}, "r": {"t": "c", "v": 2}},
    {"t": "b", "op": "%", "l": {"t": "c", "v": 7}, "r": {"t": "c", "v": 3}},
    {"t": "b", "op": "-", "l": {"t": "c", "v": 7}, "r": {"t": "c", "v": 3}},
    {"t": "b", "op": "/", "l": {"t": "c", "v": 1}, "r": {"t": "c", "v": 0}},
    {"t": "b", "op": "+", "l": {"t": "v", "n": "x"}, "r": {"t": "b", "op": "*", "l": {"t": "c", "v": 2}, "r": {"t": "c", "v": 3}}},
    {"t": "if", "c": {"t": "c", "v": 0}, "a": {"t": "b", "op": "+", "l": {"t": "c", "v": 1}, "r": {"t": "c", "v": 1}},
     "b": {"t": "b", "op": "-", "l": {"t": "c", "v": 5}, "r": {"t": "c", "v": 1}}},
    {"t": "and", "l": {"t": "c", "v": 0}, "r": {"t": "b", "op": "+", "l": {"t": "c", "v": 1}, "r": {"t": "c", "v": 1}}},
    {"t": "or", "l": {"t": "b", "op": "-", "l": {"t": "c", "v": 1}, "r": {"t": "c", "v": 1}},
     "r": {"t": "b", "op": "*", "l": {"t": "c", "v": 2}, "r": {"t": "c", "v": 2}}},
    {"t": "b", "op": "%", "l": {"t": "u", "op": "-", "e": {"t": "c", "v": 7}}, "r": {"t": "c", "v": 3}},
    {"t": "b", "op": "//", "l": {"t": "v", "n": "z"}, "r": {"t": "u", "op": "-", "e": {"t": "c", "v": 2}}},
]


def gen_cases(tier, seed):
    rnd = random.Random(seed)
    quick = tier == "quick"
    n = 160 if quick else 350
    cases = []
    exprs = list(FIXED)
    while len(exprs) < n:
        e = gen_expr(rnd, rnd.choice([1, 2, 2, 3, 3, 4]), ["x", "y", "z"])
        if 1 <= count_ops(e) <= 6:
            exprs.append(e)
    for k, e in enumerate(exprs):
        w = "once" if k < len(FIXED) or rnd.random() < 0.7 else "twice"
        cases.append({"w": w, "e": e, "vars": {"x": rnd.choice([3, 5, -4, 0, 1]), "y": rnd.choice([2, -3, 7, 1]),
                                              "z": rnd.choice([-7, 9, 0, 4]), "i": 0},
                      "items": [], "syn": rnd.randrange(100)})
    for _ in range(n // 5):
        e = gen_expr(rnd, rnd.choice([1, 2, 3]), ["i", "i", "x", "y"])
        if count_ops(e) < 1:
            continue
        cases.append({"w": "loop", "e": e, "vars": {"x": rnd.choice([3, -4, 0]), "y": rnd.choice([2, -3]), "z": 1, "i": 0},
                      "items": rnd.choice([[1, 2, 3], [0, 4], [5], [2, 0, -1, 3]]), "syn": rnd.randrange(100)})
    for k, c in enumerate(cases, 1):
        c["id"] = k
    return cases


def gen_subsets(tier, seed):
    rnd = random.Random(seed + 1)
    if tier == "quick":
        subs = [([], [])] + [([b], []) for b in BIN] + [([], [u]) for u in UN]
        subs += [(sorted(rnd.sample(BIN, 2)), []) for _ in range(4)] + [([rnd.choice(BIN)], [rnd.choice(UN)]) for _ in range(3)]
        subs.append((list(BIN), list(UN)))
    else:
        subs = []
        for k in range(len(BIN) + 1):
            for b in itertools.combinations(BIN, k):
                for ku in range(len(UN) + 1):
                    for u in itertools.combinations(UN, ku):
                        subs.append((list(b), list(u)))
    out, seen = [], set()
    for b, u in subs:
        key = (tuple(b), tuple(u))
        if key not in seen:
            seen.add(key)
            out.append({"b": list(b), "u": list(u)})
    return out


def template_of(case, is_async=False):
    src = unparse(case["e"])
    forms = {"once": ONCE, "twice": TWICE, "loop": LOOP}[case["w"]]
    return forms[case["syn"] % len(forms)] % src


def encv(x):
    if isinstance(x, bool) or not isinstance(x, (int, float)) or x != int(x):
        return ["?", repr(x)]
    return [int(x), isinstance(x, float)]


def fmt(v):
    return f"{v['n']}.0" if v["f"] else str(v["n"])


def render_batch(job):
    """Render a list of (case, subset, expected) under one intercepted set per env."""
    core.use_repo()
    from jinja2.sandbox import SandboxedEnvironment

    sub, items = job
    log = []

    class Env(SandboxedEnvironment):
        intercepted_binops = frozenset(sub["b"])
        intercepted_unops = frozenset(sub["u"])

        def call_binop(self, context, operator, left, right):
            log.append({"op": operator, "u": False, "l": encv(left), "r": encv(right)})
            return super().call_binop(context, operator, left, right) + 1000

        def call_unop(self, context, operator, arg):
            log.append({"op": operator, "u": True, "l": encv(arg), "r": encv(arg)})
            return super().call_unop(context, operator, arg) + 1000

    out = []
    envs = {False: Env(), True: Env(enable_async=True)}
    for case, is_async in items:
        env = envs[is_async]
        del log[:]
        ctx = dict(case["vars"])
        ctx.pop("i", None)
        ctx["items"] = list(case["items"])
        ctx["ident"] = lambda v=None: v
        src = template_of(case)
        outcome, text = su.render(env, src, ctx, is_async)
        out.append((case["id"], is_async, src, outcome, text, list(log)))
    return out


def compare(case, exp, got, want_log=None):
    """Project TLC's expectation to the observable form and compare."""
    cid, is_async, src, outcome, text, log = got
    if want_log is None:
        want_log = [{"op": a["op"], "u": a["u"], "l": [a["l"]["n"], a["l"]["f"]], "r": [a["r"]["n"], a["r"]["f"]]}
                    for a in exp["log"]]
    problems = []
    if log != want_log:
        problems.append("hook log")
    if exp["st"] == "ok":
        vals = [fmt(v) for v in exp["out"]]
        if case["w"] == "once":
            want = vals[0]
        else:
            want = "".join(v + "|" for v in vals)
            if case["w"] == "loop" and template_of(case).startswith("{{ items|length }}"):
                want = f"{len(case['items'])}:" + want
        if outcome != "ok" or text != want:
            problems.append("rendered result")
    else:
        want = exp["st"]
        if outcome != exp["st"]:
            problems.append("outcome")
    return problems, want_log, want


# ---------------------------------------------------------------------------
# several environments, callbacks installed through binop_table / unop_table
# ---------------------------------------------------------------------------

NATIVE_B = {"+": operator.add, "-": operator.sub, "*": operator.mul, "/": operator.truediv,
            "//": operator.floordiv, "%": operator.mod, "**": operator.pow}
NATIVE_U = {"+": operator.pos, "-": operator.neg}
MAX_ENVS = 3


def ops_of(e, acc=None):
    acc = set() if acc is None else acc
    if e["t"] in ("b", "u"):
        acc.add((e["op"], e["t"] == "u"))
    for v in e.values():
        if isinstance(v, dict):
            ops_of(v, acc)
    return acc


def step(t, e, b=(), u=(), op="", un=False, tag=0, c=0, is_async=False):
    return {"t": t, "e": e, "b": list(b), "u": list(u), "op": op, "un": un, "tag": tag, "c": c, "async": is_async}


def gen_scenarios(tier, seed, cases):
    """Sequences of new / install / icept / render steps over 2-3 environments.  The operators
    that are intercepted and given callbacks are drawn (mostly) from those of the rendered
    expressions, so that the callbacks matter; callback numbers are unique per scenario, so
    that the log tells whose callback ran."""
    rnd = random.Random(seed + 3)
    n = 150 if tier == "quick" else 1500
    pool = [k for k, c in enumerate(cases, 1) if 1 <= count_ops(c["e"]) <= 4]
    out = []
    for _ in range(n):
        nenv = rnd.choice([2, 2, 3])
        picked = [rnd.choice(pool) for _ in range(rnd.choice([1, 2, 2]))]
        used = sorted(set().union(*(ops_of(cases[k - 1]["e"]) for k in picked)))

        def some_sets():
            b = {op for op, un in used if not un and rnd.random() < 0.75}
            u = {op for op, un in used if un and rnd.random() < 0.75}
            if rnd.random() < 0.3:
                b.add(rnd.choice(BIN))
            if rnd.random() < 0.2:
                u.add(rnd.choice(UN))
            return sorted(b), sorted(u)

        steps, live, tag = [], [], 0
        length = rnd.randint(5, 10)
        while len(steps) < length:
            r = rnd.random()
            if len(live) < nenv and (not live or r < 0.3):
                e = len(live) + 1
                live.append(e)
                b, u = some_sets()
                steps.append(step("new", e, b, u, is_async=rnd.random() < 0.15))
            elif r < 0.6 and tag < 4:
                op, un = rnd.choice(used) if rnd.random() < 0.85 else (rnd.choice(BIN), False)
                if rnd.random() < 0.15:
                    k = 0                      # the builtin operator is put back
                else:
                    tag += 1
                    k = tag
                steps.append(step("install", rnd.choice(live), op=op, un=un, tag=k))
            elif r < 0.68:
                b, u = some_sets()
                steps.append(step("icept", rnd.choice(live), b, u))
            else:
                steps.append(step("render", rnd.choice(live), c=rnd.choice(picked)))
        # what every environment does after all of this
        order = list(live)
        rnd.shuffle(order)
        steps += [step("render", e, c=rnd.choice(picked)) for e in order]
        out.append(steps)
    return out


def scenario_tlc(ck_like, tier, cases, scenarios, name="envs"):
    d = core.workdir(PID, f"{name}_in")
    f = d / "scenarios.json"
    f.write_text(json.dumps({"cases": [{k: c[k] for k in ("id", "w", "e", "vars", "items")} for c in cases],
                             "scenarios": scenarios, "nenv": MAX_ENVS}))
    r = core.run_tlc(PID, "SandboxOpsEnvs",
                     "SPECIFICATION Spec\nINVARIANT C20_AllAndOnlyIntercepted\nINVARIANT C20_ResultIsOwnHooks\n"
                     "INVARIANT C20_FreshEnvironmentHasBuiltins\nPROPERTY C20_StepsAreLocal\n",
                     env={"SCEN_FILE": str(f)}, name=name, timeout=3000, workers=4, coverage=tier == "quick")
    ck_like.add_tlc(r, f"SandboxOpsEnvs: {len(scenarios)} scenarios over up to {MAX_ENVS} environments")
    expected = {}
    for line in set(r.printed()):
        j = json.loads(line)
        expected[(j["scn"], j["pc"])] = j
    want = sum(1 for sc in scenarios for st in sc if st["t"] == "render")
    if len(expected) != want:
        raise core.MachineryError(f"SandboxOpsEnvs printed {len(expected)} results for {want} render steps")
    return r, expected


def replay_scenarios(job):
    """Perform the steps of scenarios on real environments; returns per render step what happened."""
    core.use_repo()
    from jinja2.sandbox import SandboxedEnvironment

    cases, items = job
    log = []

    class Env(SandboxedEnvironment):      # the hook only logs: what it returns is what the tables give
        jv_id = 0

        def call_binop(self, context, operator, left, right):
            log.append({"k": "call", "e": self.jv_id, "op": operator, "u": False, "l": encv(left), "r": encv(right)})
            return super().call_binop(context, operator, left, right)

        def call_unop(self, context, operator, arg):
            log.append({"k": "call", "e": self.jv_id, "op": operator, "u": True, "l": encv(arg), "r": encv(arg)})
            return super().call_unop(context, operator, arg)

    def callback(tag, op, un):
        fn = (NATIVE_U if un else NATIVE_B)[op]

        def cb(*args):
            log.append({"k": "cb", "tag": tag, "op": op, "u": un, "l": encv(args[0]), "r": encv(args[-1])})
            return fn(*args) + 1000 * tag
        return cb

    out = []
    for sno, steps, skip in items:
        envs = {}
        for pc, st in enumerate(steps, 1):
            t = st["t"]
            if t == "new":
                env = envs[st["e"]] = Env(enable_async=st["async"])
                env.jv_id = st["e"]
            env = envs[st["e"]]
            if t in ("new", "icept"):
                env.intercepted_binops = frozenset(st["b"])
                env.intercepted_unops = frozenset(st["u"])
            elif t == "install":
                table = env.unop_table if st["un"] else env.binop_table
                table[st["op"]] = callback(st["tag"], st["op"], st["un"]) if st["tag"] else \
                    (NATIVE_U if st["un"] else NATIVE_B)[st["op"]]
            elif t == "render" and pc not in skip:
                case = cases[st["c"] - 1]
                del log[:]
                ctx = dict(case["vars"])
                ctx.pop("i", None)
                ctx["items"] = list(case["items"])
                ctx["ident"] = lambda v=None: v
                src = template_of(case)
                outcome, text = su.render(env, src, ctx, env.is_async)
                out.append((sno, pc, (case["id"], env.is_async, src, outcome, text, list(log))))
    return out


def scenario_want_log(exp, e):
    """TLC's applications that go through the hook -> the events the harness logs: the hook of the
    rendering environment, then (unless the builtin operator is in the table) the callback."""
    want = []
    for a in exp["log"]:
        lr = {"op": a["op"], "u": a["u"], "l": [a["l"]["n"], a["l"]["f"]], "r": [a["r"]["n"], a["r"]["f"]]}
        want.append(dict(lr, k="call", e=e))
        if a["tag"]:
            want.append(dict(lr, k="cb", tag=a["tag"]))
    return want


def describe(steps, upto):
    out = []
    for st in steps[:upto]:
        if st["t"] in ("new", "icept"):
            out.append(f"{st['t']}(env{st['e']}, binops {st['b']}, unops {st['u']})")
        elif st["t"] == "install":
            out.append(f"env{st['e']}.{'unop' if st['un'] else 'binop'}_table[{st['op']!r}] = "
                       + (f"callback{st['tag']}" if st["tag"] else "builtin"))
        else:
            out.append(f"render(env{st['e']}, case {st['c']})")
    return "; ".join(out)


def check_scenarios(ck, cases, scenarios, expected, require_hooks=True):
    items = []
    for sno, steps in enumerate(scenarios, 1):
        skip = [pc for pc, st in enumerate(steps, 1)
                if st["t"] == "render" and expected[(sno, pc)]["st"] == "skip"]
        items.append((sno, steps, skip))
    if len(items) > 400:
        with ProcessPoolExecutor(max_workers=12) as ex:
            results = [x for part in ex.map(replay_scenarios, [(cases, ch) for ch in core.chunks(items, 50)]) for x in part]
    else:
        results = replay_scenarios((cases, items))
    n = hooks = 0
    for sno, pc, got in results:
        steps = scenarios[sno - 1]
        st, exp = steps[pc - 1], expected[(sno, pc)]
        case = cases[st["c"] - 1]
        n += 1
        hooks += len(got[5])
        want_log = scenario_want_log(exp, st["e"])
        problems, _, want = compare(case, exp, got, want_log)
        if problems:
            foreign = [a for a in got[5] if a not in want_log]
            ck.violation({"kind": "envs", "steps": steps, "pc": pc,
                          "cases": {str(s["c"]): cases[s["c"] - 1] for s in steps if s["c"]},
                          "expected": {"log": want_log, "result": want},
                          "actual": {"log": got[5], "outcome": got[3], "text": got[4]}},
                         f"several environments: after {describe(steps, pc - 1)}: env{st['e']} renders `{got[2]}` with "
                         f"{case['vars']} items {case['items']}: {' and '.join(problems)} differ; expected hook / callback "
                         f"events {[(a['k'], a.get('tag', a.get('e')), a['op'], a['l'][0], a['r'][0]) for a in want_log]} "
                         f"result {want!r}, got "
                         f"{[(a['k'], a.get('tag', a.get('e')), a['op'], a['l'][0], a['r'][0]) for a in got[5]]} "
                         f"{got[3]} {got[4]!r}",
                         {"kind": "operator-interception-environments", "what": problems[0],
                          "foreign_callback": any(a["k"] == "cb" for a in foreign)})
        elif n % 211 == 1:
            ck.sample({"steps": describe(steps, pc), "template": got[2], "events": got[5], "text": got[4]})
    if require_hooks and not hooks:
        raise core.MachineryError("scenarios: no hook / callback event was recorded at all")
    ck.traces += n
    ck.evaluations += n
    ck.extra["environment_scenarios"] = len(scenarios)
    ck.extra["scenario_renders_compared"] = n
    ck.extra["scenario_hook_and_callback_events_compared"] = hooks


def design_model(ck):
    quick = ck.tier == "quick"
    confs = [su.conf_tla("sandbox", "abstract", "default", ic) for ic in ([], ["+"], ["+", "-", "u-"])]
    r = su.gate_model(PID, "gate_model", confs, 2 if quick else 4, [], ["+", "-", "u-"],
                      ["TypeOK", "C20_AllAndOnlyIntercepted"], coverage=quick, timeout=3000)
    ck.add_tlc(r, "SandboxGate: OpHook / NativeOp")
    if quick:
        su.require_cov(ck, r, ["MOp"])


def run(ck):
    su.load_own_findings(ck, PID)
    bg = su.Background(design_model, ck)      # TLC on the design model runs while the engine is exercised
    cases = gen_cases(ck.tier, ck.seed)
    subsets = gen_subsets(ck.tier, ck.seed)
    scenarios = gen_scenarios(ck.tier, ck.seed, cases)
    # TLC walks the scenarios while the single-environment cases are evaluated and rendered
    bg2 = su.Background(lambda rec: rec.extra.update(
        _scen=scenario_tlc(rec, ck.tier, cases, scenarios)), ck)
    d = core.workdir(PID, "cases_in")
    f = d / "cases.json"
    f.write_text(json.dumps({"cases": [{k: c[k] for k in ("id", "w", "e", "vars", "items")} for c in cases],
                             "subsets": subsets}))
    r = core.run_tlc(PID, "SandboxOps",
                     "SPECIFICATION Spec\nINVARIANT C20_AllAndOnlyIntercepted\n"
                     "INVARIANT C20_IrrelevantInterceptionIsInvisible\n",
                     env={"CASES_FILE": str(f)}, name="ops", timeout=3000, workers=8)
    ck.add_tlc(r, f"SandboxOps: {len(cases)} expressions x {len(subsets)} intercepted sets")
    expected = {}
    for line in set(r.printed()):
        j = json.loads(line)
        expected[(j["id"], j["sid"])] = j
    if len(expected) != len(cases) * len(subsets):
        raise core.MachineryError(f"SandboxOps printed {len(expected)} results for {len(cases) * len(subsets)} cases")
    rnd = random.Random(ck.seed + 2)
    by_id = {c["id"]: c for c in cases}
    jobs = []
    skipped = 0
    for sid, sub in enumerate(subsets, 1):
        items = []
        for c in cases:
            if expected[(c["id"], sid)]["st"] == "skip":
                skipped += 1
                continue
            items.append((c, False))
            if rnd.random() < 0.1:
                items.append((c, True))
        jobs.append((sub, items))
    if len(jobs) > 40:
        with ProcessPoolExecutor(max_workers=12) as ex:
            results = list(ex.map(render_batch, jobs, chunksize=4))
    else:
        results = [render_batch(j) for j in jobs]
    n = hooks = 0
    status = {}
    for sid, (sub, res) in enumerate(zip(subsets, results), 1):
        for got in res:
            cid, is_async, src, outcome, text, log = got
            case, exp = by_id[cid], expected[(cid, sid)]
            n += 1
            hooks += len(log)
            status[exp["st"]] = status.get(exp["st"], 0) + 1
            problems, want_log, want = compare(case, exp, got)
            if problems:
                missed = [a for a in want_log if a not in log]
                extra = [a for a in log if a not in want_log]
                ops = sorted({a["op"] + ("u" if a["u"] else "") for a in missed + extra}) or ["-"]
                ck.violation({"kind": "ops", "case": case, "subset": sub, "async": is_async, "src": src,
                              "expected": {"log": want_log, "result": want}, "actual": {"log": log, "outcome": outcome,
                                                                                          "text": text}},
                             f"intercepted binops {sub['b']} unops {sub['u']}{' (async)' if is_async else ''}: `{src}` "
                             f"with {case['vars']} items {case['items']}: {' and '.join(problems)} differ; expected hook "
                             f"calls {[(a['op'], a['l'][0], a['r'][0]) for a in want_log]} result {want!r}, got "
                             f"{[(a['op'], a['l'][0], a['r'][0]) for a in log]} {outcome} {text!r}",
                             {"kind": "operator-interception", "what": problems[0],
                              "missed": bool(missed), "extra": bool(extra), "context": case["w"]})
            elif n % 997 == 1:
                ck.sample({"template": src, "intercepted": sub, "vars": case["vars"],
                           "hook_calls": [(a["op"], a["l"], a["r"]) for a in log], "text": text})
    if not hooks:
        raise core.MachineryError("no hook call was recorded at all")
    ck.traces += n
    ck.evaluations += n
    ck.extra["expressions"] = len(cases)
    ck.extra["intercepted_sets"] = len(subsets)
    ck.extra["renders_compared"] = n
    ck.extra["hook_calls_compared"] = hooks
    ck.extra["expected_status"] = status
    ck.extra["cases_outside_value_space_skipped"] = skipped
    bg2.join()
    r2, expected2 = ck.extra.pop("_scen")
    if ck.tier == "quick":
        su.require_cov(ck, r2, ["New", "Install", "Icept", "Render"])
    check_scenarios(ck, cases, scenarios, expected2)
    bg.join()
    ck.exhaustive = False
    ck.extra["exhaustive_note"] = ("seeded random expressions (<= 6 operators) plus fixed constant-only expressions; "
                                   + ("all 512 subsets of the 7 binary x 2 unary operators" if ck.tier != "quick" else
                                      "empty set, singletons, sampled pairs and the full set"))
    ck.extra["excluded_shapes"] = [
        "inexact true division, negative exponents, |values| > 30000, float zero (TLC evaluates them as `skip`; "
        "printing of such floats is not determined by the property)",
        "operators on non-numeric operands (string concatenation through +, list repetition)",
    ]
    ck.assumptions += ["the harness' hook returns super()'s result + 1000, as modelled by SandboxOps.Perturb"]


def replay(ck, rec):
    su.load_own_findings(ck, PID)
    c = rec["case"]
    if c.get("kind") == "envs":
        idxs = sorted(int(k) for k in c["cases"])
        renum = {old: new for new, old in enumerate(idxs, 1)}
        cases = [c["cases"][str(o)] for o in idxs]
        steps = [dict(st, c=renum.get(st["c"], 0)) for st in c["steps"]]
        _, expected = scenario_tlc(ck, "replay", cases, [steps], name="replay_envs")
        check_scenarios(ck, cases, [steps], expected, require_hooks=False)
        return
    case, sub = c["case"], c["subset"]
    d = core.workdir(PID, "replay_in")
    f = d / "cases.json"
    f.write_text(json.dumps({"cases": [{k: case[k] for k in ("id", "w", "e", "vars", "items")}], "subsets": [sub]}))
    r = core.run_tlc(PID, "SandboxOps", "SPECIFICATION Spec\nINVARIANT C20_AllAndOnlyIntercepted\n",
                     env={"CASES_FILE": str(f)}, name="replay", workers=1)
    exp = [json.loads(x) for x in set(r.printed())][0]
    got = render_batch((sub, [(case, c["async"])]))[0]
    problems, _, _ = compare(case, exp, got)
    if problems:
        ck.violation(c, f"still differs: {problems}", rec.get("fingerprint"))
