"""C26 - the LRU cache behaves like a least-recently-used map under any use.

Spec:  spec/LRU.tla (sequential meaning, invariants), spec/LRUConc.tla (threads
at primitive-step granularity, linearizability decided by TLC),
spec/LRULin.tla (trace validation of recorded concurrent histories).

Binding:
  * spec->code: every transition of LRU.tla's state graph (per capacity) is
    replayed on a real jinja2.utils.LRUCache through its public API; return
    value and full observable projection compared after every step.
  * code->spec: real threads run LRUCache operations under a controlled
    scheduler that preempts at every line of every LRUCache method; the
    recorded call/return histories are validated by TLC (LRULin.tla).
"""
from __future__ import annotations

import copy
import itertools
import json
import pickle
import random
from concurrent.futures import ProcessPoolExecutor

from .. import core, sched

KEYS = ["k1", "k2", "k3"]
VALS = ["v1", "v2"]


def cfg_lru(cap, maxhist, graph):
    s = f"""CONSTANTS
  Keys = {{k1, k2, k3}}
  Vals = {{v1, v2}}
  Cap = {cap}
  NoVal = NoVal
  MaxHist = {maxhist}
SPECIFICATION Spec
"""
    if graph:
        s += "VIEW View\nINVARIANT C26_Capacity\n"
    else:
        s += ("CONSTRAINT HistBound\nINVARIANT TypeOK\nINVARIANT C26_Capacity\n"
              "INVARIANT C26_OrderMatchesKeys\nINVARIANT C26_OrderIsRecency\nPROPERTY C26_EvictsLRU\n")
    return s


# ---------------------------------------------------------------------------
# sequential: replay the state graph on the real object
# ---------------------------------------------------------------------------

def project(c):
    """Observable abstract state of a real LRUCache, through the public API only."""
    items = list(c.items())
    keys = list(c.keys())
    vals = list(c.values())
    it = list(iter(c))
    rev = list(reversed(c))
    return {
        "items": items, "keys": keys, "values": vals, "iter": it, "reversed": rev,
        "len": len(c), "contains": {k: (k in c) for k in KEYS},
    }


def expected_projection(st):
    order = list(st["order"])
    m = st["mapping"]
    mru = list(reversed(order))
    return {
        "items": [(k, m[k]) for k in mru], "keys": mru, "values": [m[k] for k in mru],
        "iter": mru, "reversed": order, "len": len(order),
        "contains": {k: (m[k] != "NoVal") for k in KEYS},
    }


OPNAME = {"getitem": "GetItem", "get": "Get", "setitem": "SetItem", "delitem": "DelItem",
          "setdefault": "SetDefault", "contains": "Contains", "len": "LenOp", "clear": "Clear",
          "keys": "KeysOp", "copy": "Copy", "pickle": "Pickle"}


def norm_label(label):
    """TLC labels edges with the innermost action definition: Step(<<"getitem", k1>>)."""
    act, args = core.parse_label(label)
    if act == "Step":
        op = args[0]
        return OPNAME[op[0]], tuple(op[1:])
    return act, args


def apply_real(c, action, args):
    """Apply one spec action to the real object; returns (object, result-as-spec-tuple)."""
    try:
        if action == "GetItem":
            return c, ("val", c[args[0]])
        if action == "Get":
            sentinel = object()
            r = c.get(args[0], sentinel)
            r2 = ("default",) if r is sentinel else ("val", r)
            return c, r2
        if action == "SetItem":
            c[args[0]] = args[1]
            return c, ("none",)
        if action == "DelItem":
            del c[args[0]]
            return c, ("none",)
        if action == "SetDefault":
            return c, ("val", c.setdefault(args[0], args[1]))
        if action == "Contains":
            return c, ("bool", args[0] in c)
        if action == "LenOp":
            return c, ("int", len(c))
        if action == "Clear":
            r = c.clear()
            return c, ("none",) if r is None else ("raise", repr(r))
        if action == "KeysOp":
            return c, ("items", tuple((k, v) for k, v in c.items()))
        if action == "Copy":
            c2 = c.copy()
            c3 = copy.copy(c)
            if list(c3.items()) != list(c2.items()) or c3.capacity != c.capacity:
                return c2, ("raise", "copy.copy differs from .copy()")
            # the copy must be independent of the original
            probe = c.copy()
            probe["k1"] = "v2"
            probe.clear()
            return c2, ("copied",)
        if action == "Pickle":
            outs = [pickle.loads(pickle.dumps(c, proto)) for proto in range(0, pickle.HIGHEST_PROTOCOL + 1)]
            for o in outs[1:]:
                if list(o.items()) != list(outs[0].items()) or o.capacity != outs[0].capacity:
                    return outs[0], ("raise", "pickle protocols disagree")
            return outs[-1], ("pickled",)
    except KeyError as e:
        return c, ("KeyError", e.args[0] if e.args else None)
    except Exception as e:  # noqa
        return c, ("raise", type(e).__name__)
    raise core.MachineryError(f"unknown action {action}")


def replay_walks(ck, cap, states, edges, inits, nwalks, length, rnd):
    """Long random walks through the same state graph, state compared after every step.  Shortest paths reach every
    abstract state by inserting keys in recency order, so they never separate what the object remembers besides
    the abstract state (e.g. the insertion order of its dict) from the recency order; walks with promotions,
    overwrites, copies and pickle round trips in the middle do."""
    from jinja2.utils import LRUCache
    out = {}
    for (src, dst, label) in edges:
        out.setdefault(src, []).append((dst, label))
    n = 0
    for _ in range(nwalks):
        cur = rnd.choice(sorted(inits))
        c = LRUCache(cap)
        hist = []
        for _ in range(length):
            if cur not in out:
                break
            # prefer steps that change or copy the object over pure reads
            cand = out[cur]
            heavy = [e for e in cand if norm_label(e[1])[0] in ("GetItem", "Get", "SetItem", "SetDefault", "DelItem", "Copy", "Pickle")]
            dst, label = rnd.choice(heavy if heavy and rnd.random() < 0.85 else cand)
            act, args = norm_label(label)
            c, res = apply_real(c, act, args)
            hist.append(label)
            n += 1
            proj, want = project(c), expected_projection(states[dst])
            if proj != want:
                ck.violation({"kind": "walk", "cap": cap, "path": list(hist), "expected_state": want, "actual_state": proj},
                             f"LRUCache(cap={cap}) after the history {hist}: expected state {want['items']}, got {proj['items']}",
                             {"kind": "lru-sequential", "action": act})
                break
            cur = dst
    return n


def replay_graph(ck, cap, states, edges, inits):
    from jinja2.utils import LRUCache

    paths, out = core.shortest_paths(states, edges, inits)
    n = 0
    for sid, eds in out.items():
        if sid not in paths:
            continue
        for (src, dst, label) in eds:
            c = LRUCache(cap)
            hist = []
            for (_, _, lab) in paths[src] + [(src, dst, label)]:
                act, args = norm_label(lab)
                c, res = apply_real(c, act, args)
                hist.append((lab, res))
            n += 1
            exp = states[dst]
            exp_ret = tuple(exp["ret"])
            got = hist[-1][1]
            got_n = tuple(tuple(x) if isinstance(x, (list, tuple)) else x for x in got)
            exp_n = tuple(tuple(tuple(y) if isinstance(y, (list, tuple)) else y for y in x)
                          if isinstance(x, (list, tuple)) else x for x in exp_ret)
            got_n = tuple(tuple(tuple(y) if isinstance(y, (list, tuple)) else y for y in x)
                          if isinstance(x, (list, tuple)) else x for x in got_n)
            proj = project(c)
            want = expected_projection(exp)
            if got_n != exp_n or proj != want:
                ck.violation(
                    {"kind": "seq", "cap": cap, "path": [h[0] for h in hist],
                     "expected_ret": exp_n, "actual_ret": got_n,
                     "expected_state": want, "actual_state": proj},
                    f"LRUCache(cap={cap}) after {[h[0] for h in hist]}: expected ret {exp_n} state {want['items']}, "
                    f"got ret {got_n} state {proj['items']}",
                    {"kind": "lru-sequential", "action": norm_label(label)[0]},
                )
            elif n % 997 == 0:
                ck.sample({"cap": cap, "history": [h[0] for h in hist], "ret": list(map(str, got_n)),
                           "items": proj["items"]})
    return n


# ---------------------------------------------------------------------------
# concurrent: real threads under the controlled scheduler
# ---------------------------------------------------------------------------

def lru_codes():
    from jinja2.utils import LRUCache
    import types

    codes = []
    for name, v in vars(LRUCache).items():
        f = v
        if isinstance(f, (staticmethod, classmethod)):
            f = f.__func__
        if isinstance(f, types.FunctionType):
            codes.append(f.__code__)
            for c in f.__code__.co_consts:  # nested comprehensions etc.
                if isinstance(c, types.CodeType):
                    codes.append(c)
    return codes


def do_op(c, op):
    kind = op[0]
    try:
        if kind == "get":
            s = object()
            r = c.get(op[1], s)
            return ["default"] if r is s else ["val", r]
        if kind == "getitem":
            return ["val", c[op[1]]]
        if kind == "setitem":
            c[op[1]] = op[2]
            return ["none"]
        if kind == "delitem":
            del c[op[1]]
            return ["none"]
        if kind == "contains":
            return ["bool", op[1] in c]
        if kind == "clear":
            c.clear()
            return ["none"]
    except KeyError as e:
        if kind in ("getitem", "delitem") and e.args and e.args[0] == op[1]:
            return ["KeyError", op[1]]
        return ["raise", "KeyError"]
    except sched.Deadlock:
        raise
    except Exception as e:  # noqa
        return ["raise", type(e).__name__]
    raise core.MachineryError(op)


def explore_case(case):
    """Explore all schedules (up to the preemption bound) of one concurrent
    scenario; returns the set of distinct recorded histories (as JSON strings)
    and the number of schedules."""
    core.use_repo()
    from jinja2.utils import LRUCache

    cap, init, progs, bound, maxsched = case
    s = sched.Scheduler(traced_codes=lru_codes(), watchdog=10.0)
    hists = {}
    box = {}

    def run_once(prefix):
        c = LRUCache(cap)
        for k, v in init:
            c[k] = v
        if not hasattr(c, "_wlock"):
            raise core.MachineryError("LRUCache has no _wlock attribute; cannot attach cooperative lock")
        c._wlock = sched.CoopLock(s)
        H = []

        def body(t, prog):
            def fn():
                for op in prog:
                    H.append(("call", t, op))
                    r = do_op(c, op)
                    H.append(("ret", t, r))
            return fn

        log = s.run([body(t, p) for t, p in enumerate(progs)], prefix)
        box["c"], box["H"] = c, H
        return log

    n = 0
    for prefix, log in sched.explore(run_once, bound, maxsched):
        n += 1
        c, H = box["c"], box["H"]
        ops = []
        open_ = {}
        for i, ev in enumerate(H, 1):
            if ev[0] == "call":
                open_[ev[1]] = (i, ev[2])
            else:
                ci, op = open_.pop(ev[1])
                ops.append({"t": ev[1], "op": list(op), "r": ev[2], "c": ci, "d": i})
        try:
            final = [[k, v] for k, v in c.items()]
            if len(c) != len(final):
                final = ["inconsistent-len", len(c), len(final)]
        except Exception as e:  # noqa
            final = ["raise", type(e).__name__]
        h = {"cap": cap, "init": [list(x) for x in init], "ops": ops, "final": final}
        key = json.dumps(h, sort_keys=True)
        if key not in hists:
            hists[key] = [c for _, c, _ in log]
    return case, hists, n


OPS_T1 = [("setitem", "k3", "v2"), ("setitem", "k1", "v2"), ("delitem", "k1"), ("clear",),
          ("getitem", "k1"), ("get", "k2"), ("getitem", "k3")]
OPS_T2 = [("contains", "k1"), ("contains", "k3"), ("get", "k1"), ("getitem", "k2"),
          ("setitem", "k3", "v1"), ("delitem", "k1")]
ALL_OPS = sorted(set(OPS_T1 + OPS_T2 + [("contains", "k2"), ("get", "k3"), ("setitem", "k2", "v2"),
                                         ("delitem", "k2"), ("delitem", "k3")]))


def scenarios(tier, seed):
    rnd = random.Random(seed)
    inits = [(2, (("k1", "v1"), ("k2", "v1"))), (2, (("k1", "v1"),)), (1, (("k1", "v1"),))]
    cases = []
    quick = tier == "quick"
    bound = 2 if quick else 3
    readers = [("contains", "k1"), ("contains", "k3"), ("get", "k1"), ("getitem", "k2")]
    t2progs = [(o,) for o in OPS_T2]
    t2progs += [(a, b) for a in (readers if quick else OPS_T2) for b in (readers if quick else OPS_T2)]
    for cap, init in inits[: 2 if quick else 3]:
        for p1 in OPS_T1:
            for p2 in t2progs:
                cases.append((cap, init, ((p1,), p2), bound, 150 if quick else 1200))
    # random larger scenarios
    nrand = 60 if quick else 500
    for _ in range(nrand):
        cap, init = rnd.choice(inits)
        nthreads = rnd.choice([2, 2, 3])
        progs = tuple(tuple(rnd.choice(ALL_OPS) for _ in range(rnd.choice([1, 2, 2, 3] if nthreads == 2 else [1, 1, 2])))
                      for _ in range(nthreads))
        cases.append((cap, init, progs, bound, 150 if quick else 1000))
    return cases


def validate_histories(ck, hists_by_cap):
    """code->spec: TLC (LRULin.tla) decides linearizability of every recorded history."""
    total = 0
    for cap, hs in sorted(hists_by_cap.items()):
        keys = []
        for k in hs.keys():
            # a result outside the specification's return alphabet (an exception other than KeyError escaping an
            # operation, or the final projection raising) cannot be a step of LRULin.tla: rejected here, because
            # TLC cannot even fingerprint such a record next to well-formed ones
            h = json.loads(k)
            alien = [o for o in h["ops"] if o["r"][0] == "raise"] or (h["final"] and h["final"][0] == "raise")
            if alien:
                total += 1
                ck.violation({"kind": "conc", "history": h, "schedule": hs[k]},
                             f"concurrent LRUCache history is not linearizable / raised: cap={h['cap']} init={h['init']} "
                             f"ops={[(o['t'], o['op'], o['r']) for o in h['ops']]} final={h['final']}",
                             {"kind": "lru-nonlinearizable", "ops": sorted({o["op"][0] for o in h["ops"]}),
                              "raised": sorted({o["r"][1] for o in h["ops"] if o["r"][0] == "raise"})})
            else:
                keys.append(k)
        for batch_no, batch in enumerate(core.chunks(keys, 4000)):
            d = core.workdir("C26", f"lin{cap}_{batch_no}")
            tf = d / "hist.json"
            tf.write_text("[" + ",".join(batch) + "]")
            cfg = f"""CONSTANTS
  Keys = {{"k1", "k2", "k3"}}
  Vals = {{"v1", "v2"}}
  Cap = {cap}
  NoVal = "NoVal"
  MaxHist = 0
SPECIFICATION Spec
CONSTRAINT Collect
POSTCONDITION Post
"""
            r = core.run_tlc("C26", "LRULin", cfg, workers=1, env={"TRACE_FILE": str(tf)},
                             name=f"lin{cap}_{batch_no}_tlc", timeout=1200)
            ck.add_tlc(r, f"LRULin cap={cap} batch={batch_no}")
            m = None
            for line in r.out.splitlines():
                if line.startswith('<<"REJECTED"'):
                    m = core.parse_tla(line)
            if m is None:
                raise core.MachineryError("LRULin: no REJECTED line in TLC output")
            rejected = sorted(m[1])
            total += len(batch)
            for idx in rejected:
                h = json.loads(batch[idx - 1])
                kinds = sorted({o["op"][0] for o in h["ops"]})
                raised = sorted({o["r"][1] for o in h["ops"] if o["r"][0] == "raise"})
                ck.violation(
                    {"kind": "conc", "history": h, "schedule": hs[batch[idx - 1]]},
                    f"concurrent LRUCache history is not linearizable / raised: cap={h['cap']} init={h['init']} "
                    f"ops={[(o['t'], o['op'], o['r']) for o in h['ops']]} final={h['final']}",
                    {"kind": "lru-nonlinearizable", "ops": kinds, "raised": raised},
                )
    return total


def conc_model(ck, tier):
    """LRUConc.tla: the design (all five methods under the lock) is linearizable
    for every interleaving; and, as a detection self-test, removing the lock from
    __setitem__ must produce a counter-example."""
    ops = ('{<<"get","a">>, <<"getitem","b">>, <<"setitem","c","2">>, <<"setitem","a","2">>, '
           '<<"delitem","a">>, <<"contains","a">>, <<"contains","c">>, <<"clear">>}')
    progset = "{<<x>> : x \\in Ops1} \\cup {<<x, y>> : x \\in Ops1, y \\in Ops1}"
    mc = f"""---- MODULE MCLRUConc ----
EXTENDS LRUConc
MCKeys == {{"a", "b", "c"}}
MCVals == {{"1", "2"}}
Ops1 == {ops}
MCProgSet == {progset}
MCProgSet1 == {{<<x>> : x \\in Ops1}}
MCInit == << <<"a", "1">>, <<"b", "1">> >>
MCLocked == {{"getitem", "setitem", "delitem", "clear", "contains"}}
MCLockedNoSet == {{"getitem", "delitem", "clear", "contains"}}
====
"""
    d = core.workdir("C26", "mcsrc")
    (d / "MCLRUConc.tla").write_text(mc)

    def cfg(threads, progset, locked):
        return f"""CONSTANTS
  Keys <- MCKeys
  Vals <- MCVals
  Cap = 2
  NoVal = "NoVal"
  MaxHist = 0
  Threads = {threads}
  ProgSet <- {progset}
  InitItems <- MCInit
  LockedOps <- {locked}
SPECIFICATION Spec
INVARIANT C26_Linearizable
INVARIANT C26_NoRaise
INVARIANT C26_QuiescentConsistent
"""
    r = core.run_tlc("C26", "MCLRUConc", cfg('{"t1", "t2"}', "MCProgSet", "MCLocked"),
                     extra_modules=[d / "MCLRUConc.tla"], name="conc2", timeout=1500, coverage=(tier == "quick"))
    ck.add_tlc(r, "LRUConc 2 threads x <=2 ops")
    if tier == "quick":
        ck.require_coverage(r, ["Call", "Acquire", "G1", "G3", "G4", "S2", "S3", "S5", "D2", "C2", "K1"])
    if tier == "thorough":
        r = core.run_tlc("C26", "MCLRUConc", cfg('{"t1", "t2", "t3"}', "MCProgSet1", "MCLocked"),
                         extra_modules=[d / "MCLRUConc.tla"], name="conc3", timeout=3000)
        ck.add_tlc(r, "LRUConc 3 threads x 1 op")
    # detection self-test: lock removed from __setitem__ => TLC must find a bad schedule
    r = core.run_tlc("C26", "MCLRUConc", cfg('{"t1", "t2"}', "MCProgSet1", "MCLockedNoSet"),
                     extra_modules=[d / "MCLRUConc.tla"], name="conc_selftest", timeout=600)
    ck.extra["selftest_lock_removed_from_setitem_detected_by_TLC"] = not r.ok
    if r.ok:
        raise core.MachineryError("self-test failed: LRUConc with unlocked __setitem__ showed no violation")


def run(ck):
    quick = ck.tier == "quick"
    # 1. model checking of the sequential spec
    for cap in (1, 2, 3):
        r = core.run_tlc("C26", "LRU", cfg_lru(cap, (5 if cap == 2 else 4) if quick else 7, False), name=f"inv{cap}",
                         coverage=quick, timeout=3000)
        ck.add_tlc(r, f"LRU invariants cap={cap}")
    # 2. spec->code replay of every transition
    replayed = 0
    for cap in (1, 2, 3):
        r = core.run_tlc("C26", "LRU", cfg_lru(cap, 0, True), name=f"graph{cap}", workers=1,
                         args=["-dump", "dot,actionlabels", "graph.dot"])
        ck.add_tlc(r, f"LRU graph cap={cap}")
        states, edges, inits = core.parse_dot(r.dir / "graph.dot")
        replayed += replay_graph(ck, cap, states, edges, inits)
        if cap > 1:
            replayed += replay_walks(ck, cap, states, edges, inits, 400 if quick else 6000, 14, random.Random(ck.seed * 13 + cap))
        labels = {norm_label(e[2])[0] for e in edges}
        missing = {"GetItem", "Get", "SetItem", "DelItem", "SetDefault", "Contains", "LenOp", "Clear", "KeysOp",
                   "Copy", "Pickle"} - labels
        if missing:
            raise core.MachineryError(f"vacuous graph: actions never taken: {missing}")
    ck.extra["sequential_transitions_replayed"] = replayed
    # 3. concurrent design model
    conc_model(ck, ck.tier)
    # 4. concurrent real executions, validated by TLC
    cases = scenarios(ck.tier, ck.seed)
    hists_by_cap = {}
    nsched = 0
    with ProcessPoolExecutor(max_workers=16) as ex:
        for case, hists, n in ex.map(explore_case, cases, chunksize=8):
            nsched += n
            hists_by_cap.setdefault(case[0], {}).update(hists)
    nh = validate_histories(ck, hists_by_cap)
    ck.extra["concurrent_scenarios"] = len(cases)
    ck.extra["schedules_executed"] = nsched
    ck.extra["distinct_histories_validated"] = nh
    ck.traces = replayed + nh
    ck.evaluations = replayed + nsched
    for cap, hs in hists_by_cap.items():
        k = next(iter(hs))
        ck.sample({"concurrent_history": json.loads(k), "schedule": hs[k]})
        break
    ck.exhaustive = True
    ck.extra["exhaustive_note"] = ("sequential graph: every transition replayed; concurrent: all schedules up to the "
                                   "preemption bound for the enumerated scenario set, capped per scenario")
    ck.assumptions += [
        "CPython executes one bytecode line of LRUCache atomically w.r.t. the controlled scheduler's yield points "
        "(line granularity); dict/deque primitives are atomic under the GIL",
        "cooperative lock substituted for LRUCache._wlock has threading.Lock semantics",
    ]


def replay(ck, rec):
    case = rec["case"]
    if case["kind"] == "seq":
        from jinja2.utils import LRUCache
        c = LRUCache(case["cap"])
        res = None
        for lab in case["path"]:
            act, args = norm_label(lab)
            c, res = apply_real(c, act, args)
        proj = project(c)
        ok = json.loads(json.dumps(proj)) == json.loads(json.dumps(case["expected_state"])) and \
            json.loads(json.dumps(res)) == json.loads(json.dumps(case["expected_ret"]))
        if not ok:
            ck.violation(case, "sequential replay still differs", rec.get("fingerprint"))
    else:
        h = case["history"]
        progs = {}
        for o in sorted(h["ops"], key=lambda o: o["c"]):
            progs.setdefault(o["t"], []).append(tuple(o["op"]))
        c = (h["cap"], tuple(tuple(x) for x in h["init"]), tuple(tuple(progs[t]) for t in sorted(progs)), 3, 5000)
        _, hists, _ = explore_case(c)
        validate_histories(ck, {h["cap"]: hists})
