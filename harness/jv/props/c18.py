"""C18 - a sandboxed template never calls a callable the sandbox deems unsafe.

Specs: spec/SandboxRules.tla (UnsafeCallable: marked unsafe, alters_data, or
rejected by an overridden safety check), spec/SandboxGate.tla (CallGate before
Run; a refused CallGate raises SecurityError at once; invariant
C18_UnsafeNeverRuns), spec/SandboxTrace.tla (trace validation).

Binding (code -> spec): generated sandboxed templates route recording callables
(safe, @unsafe, alters_data, denied-by-policy; functions, bound methods,
callable instances, async functions) from a source (name, dict / list item,
attribute) through 0-2 aliasing steps (set, with, macro parameter, loop
variable, call-block parameter) to one call site (plain, with arguments,
*args / **kwargs, {% call %}, inside filter / test arguments, conditions, loop
sources, macro defaults, caller bodies, recursive loops ...), sync and async,
with the default and with an overridden is_safe_callable.  The environment
subclass logs is_safe_callable's verdict, the callables log that they ran; TLC
validates every trace: an unsafe callable that ran, or a refusal that did not
surface as SecurityError, is rejected.
"""
from __future__ import annotations

import itertools
import random
import warnings
from concurrent.futures import ProcessPoolExecutor

from .. import core
from .. import sandbox_util as su

PID = "C18"

# name -> (kind, family); kind decides how the template reaches it ("func": by name, "method":
# as obj.<name>, "async": by name, async mode only); family "basic" is swept densely in the
# quick tier, "wrapped" (decorated / wrapping / delegating callables) with fewer alias shapes
CALLABLES = [
    ("run", "func", "basic"),              # plain function
    ("delete", "func", "basic"),           # @unsafe
    ("save", "func", "basic"),             # alters_data = True
    ("denied", "func", "basic"),           # unsafe only for the deny-by-name policy
    ("destroy", "method", "basic"),        # @unsafe method
    ("fine", "method", "basic"),
    ("inst", "func", "basic"),             # callable instance, alters_data on the class
    ("adelete", "async", "basic"),
    ("arun", "async", "basic"),
    # functools.wraps wrappers: mark on the wrapper, on the wrapped function, on both, nowhere
    ("w_outer_unsafe", "func", "wrapped"),
    ("w_outer_alters", "func", "wrapped"),
    ("w_inner_unsafe", "func", "wrapped"),
    ("w_both", "func", "wrapped"),
    ("w_plain", "func", "wrapped"),
    # functools.lru_cache
    ("lru_outer_unsafe", "func", "wrapped"),
    ("lru_outer_alters", "func", "wrapped"),
    ("lru_inner_unsafe", "func", "wrapped"),
    ("lru_plain", "func", "wrapped"),
    # functools.partial
    ("part_outer_unsafe", "func", "wrapped"),
    ("part_plain", "func", "wrapped"),
    # bound methods of decorated functions
    ("wm_outer_unsafe", "method", "wrapped"),
    ("wm_plain", "method", "wrapped"),
    # callable objects and classes
    ("cobj_inst_unsafe", "func", "wrapped"),   # mark on the instance only
    ("cobj_plain", "func", "wrapped"),
    ("cls_unsafe", "func", "wrapped"),         # class called as a constructor, mark on the class
    ("cls_plain", "func", "wrapped"),
    ("aw_outer_unsafe", "async", "wrapped"),   # async wrapper marked on the outside
    ("aw_plain", "async", "wrapped"),
]
NAMES_ = [c[0] for c in CALLABLES]
KIND = {c[0]: c[1] for c in CALLABLES}
FAMILY = {c[0]: c[2] for c in CALLABLES}
# objects the application puts on its deny list under the "denyobj" policy (by identity)
# (bound methods are created afresh by every attribute access, so they cannot be listed by identity)
DENY_LIST = {"run", "w_plain", "lru_plain", "part_plain", "cobj_plain", "cls_plain", "aw_plain"}


def make_callables(rec):
    """Recording callables.  What is reported to the specification (header) is read off the
    very object the template calls: its unsafe_callable / alters_data attributes, its name,
    whether it is on the deny list."""
    import functools

    from jinja2.sandbox import unsafe

    out = {}
    index = {n: i for i, n in enumerate(NAMES_, 1)}

    def ran(i):
        rec.emit("ran", v=i)

    def body(name, is_async=False):
        i = index[name]
        if is_async:
            async def f(*a, **kw):
                ran(i)
                return f"R{i}"
        else:
            def f(*a, **kw):
                ran(i)
                return f"R{i}"
        f.__name__ = name
        return f

    def silent(name):
        def f(*a, **kw):
            return f"R{index[name]}"
        f.__name__ = name
        return f

    def wrap(name, inner, is_async=False):
        """a functools.wraps decorator whose wrapper records the run"""
        i = index[name]
        if is_async:
            @functools.wraps(inner)
            async def wrapper(*a, **kw):
                ran(i)
                return await inner(*a, **kw)
        else:
            @functools.wraps(inner)
            def wrapper(*a, **kw):
                ran(i)
                return inner(*a, **kw)
        return wrapper

    def alters(f):
        f.alters_data = True
        return f

    class Obj:
        pass

    # -- basic family
    out["run"] = body("run")
    out["delete"] = unsafe(body("delete"))
    out["save"] = alters(body("save"))
    out["denied"] = body("denied")
    for name, mark in (("destroy", unsafe), ("fine", lambda f: f)):
        f = mark(body(name))

        def meth(self, *a, _f=f, **kw):
            return _f(*a, **kw)
        meth.__name__ = name
        for k, v in vars(f).items():
            setattr(meth, k, v)
        setattr(Obj, name, meth)

    class Inst:
        alters_data = True

        def __call__(self, *a, **kw):
            ran(index["inst"])
            return "R"
    out["inst"] = Inst()
    out["adelete"] = unsafe(body("adelete", True))
    out["arun"] = body("arun", True)
    # -- wrapped family
    out["w_outer_unsafe"] = unsafe(wrap("w_outer_unsafe", silent("w_outer_unsafe")))
    out["w_outer_alters"] = alters(wrap("w_outer_alters", silent("w_outer_alters")))
    out["w_inner_unsafe"] = wrap("w_inner_unsafe", unsafe(silent("w_inner_unsafe")))
    out["w_both"] = unsafe(wrap("w_both", unsafe(silent("w_both"))))
    out["w_plain"] = wrap("w_plain", silent("w_plain"))
    out["lru_outer_unsafe"] = unsafe(functools.lru_cache(maxsize=None)(body("lru_outer_unsafe")))
    out["lru_outer_alters"] = alters(functools.lru_cache(maxsize=None)(body("lru_outer_alters")))
    out["lru_inner_unsafe"] = functools.lru_cache(maxsize=None)(unsafe(body("lru_inner_unsafe")))
    out["lru_plain"] = functools.lru_cache(maxsize=None)(body("lru_plain"))
    out["part_outer_unsafe"] = unsafe(functools.partial(body("part_outer_unsafe")))
    out["part_plain"] = functools.partial(body("part_plain"))
    setattr(Obj, "wm_outer_unsafe", unsafe(wrap("wm_outer_unsafe", lambda self, *a, **kw: "R")))
    setattr(Obj, "wm_plain", wrap("wm_plain", lambda self, *a, **kw: "R"))

    class CObj:
        def __init__(self, name):
            self._name = name

        def __call__(self, *a, **kw):
            ran(index[self._name])
            return "R"
    out["cobj_inst_unsafe"] = CObj("cobj_inst_unsafe")
    out["cobj_inst_unsafe"].unsafe_callable = True
    out["cobj_plain"] = CObj("cobj_plain")

    def mk_class(name, marked):
        class K:
            if marked:
                unsafe_callable = True

            def __init__(self, *a, **kw):
                ran(index[name])

            def __str__(self):
                return "K"
        K.__name__ = name
        return K
    out["cls_unsafe"] = mk_class("cls_unsafe", True)
    out["cls_plain"] = mk_class("cls_plain", False)
    out["aw_outer_unsafe"] = unsafe(wrap("aw_outer_unsafe", body_silent_async(), True))
    out["aw_plain"] = wrap("aw_plain", body_silent_async(), True)

    obj = Obj()
    out["obj"] = obj
    targets, header, deny = {}, [], []
    for name in NAMES_:
        t = getattr(obj, name) if KIND[name] == "method" else out[name]
        targets[name] = t
        # the harness' own index is attached to the called object only, after any decoration
        # (functools.wraps copied the wrapped function's attributes when the wrapper was built)
        try:
            t._jv_callable_index = index[name]
        except AttributeError:          # bound methods: attach to the function they bind
            t.__func__._jv_callable_index = index[name]
        header.append({"unsafe": bool(getattr(t, "unsafe_callable", False)),
                       "alters": bool(getattr(t, "alters_data", False)),
                       "name": str(getattr(t, "__name__", type(t).__name__)),
                       "denied": name in DENY_LIST})
        if name in DENY_LIST and KIND[name] != "method":
            deny.append(t)
    return out, targets, header, deny


def body_silent_async():
    async def f(*a, **kw):
        return "R"
    return f


# ---------------------------------------------------------------------------
# grammar: source -> alias steps -> call site
# ---------------------------------------------------------------------------

def sources(name, kind):
    if kind == "method":
        return {"attr": f"obj.{name}", "attr_sub": f"obj['{name}']", "attr_filter": f"(obj|attr('{name}'))",
                "dict_item": "fd.k", "list_item": "fl[0]"}
    return {"name": name, "dict_item": "fd.k", "dict_sub": "fd['k']", "list_item": "fl[0]",
            "nested": "fd.inner.k2"}


ALIASES = {
    "set": lambda e, body, n: "{%% set a%d = %s %%}%s" % (n, e, body(f"a{n}")),
    "with": lambda e, body, n: "{%% with a%d = %s %%}%s{%% endwith %%}" % (n, e, body(f"a{n}")),
    "macro_param": lambda e, body, n: "{%% macro m%d(h%d) %%}%s{%% endmacro %%}{{ m%d(%s) }}" % (
        n, n, body(f"h{n}"), n, e),
    "loop_var": lambda e, body, n: "{%% for h%d in [%s] %%}%s{%% endfor %%}" % (n, e, body(f"h{n}")),
    "call_param": lambda e, body, n: "{%% macro c%d() %%}{{ caller(%s) }}{%% endmacro %%}"
                                     "{%% call(h%d) c%d() %%}%s{%% endcall %%}" % (n, e, n, n, body(f"h{n}")),
    "tuple_unpack": lambda e, body, n: "{%% set a%d, b%d = %s, 1 %%}%s" % (n, n, e, body(f"a{n}")),
    "dict_literal": lambda e, body, n: "{%% set g%d = {'f': %s} %%}%s" % (n, e, body(f"g{n}.f")),
}

SITES = {
    "plain": "{{ %s() }}",
    "args": "{{ %s(1, k=2) }}",
    "star_args": "{{ %s(*[1, 2]) }}",
    "star_kwargs": "{{ %s(**{'a': 1}) }}",
    "call_block": "{%% call %s() %%}x{%% endcall %%}",
    "call_block_args": "{%% call(p) %s(1) %%}{{ p }}{%% endcall %%}",
    "filter_arg": "{{ 1|default(%s()) }}",
    "filter_arg_join": "{{ [1]|join(%s()) }}",
    "filter_kwarg": "{{ [3]|batch(2, fill_with=%s())|list|length }}",
    "test_arg": "{{ 1 is eq(%s()) }}",
    "if_cond": "{%% if %s() %%}y{%% endif %%}",
    "loop_source": "{%% for i in [%s()] %%}{{ i }}{%% endfor %%}",
    "loop_filter": "{%% for i in [1, 2] if %s() %%}{{ i }}{%% endfor %%}",
    "set_value": "{%% set r = %s() %%}{{ r }}",
    "macro_default": "{%% macro dm(a=%s()) %%}{{ a }}{%% endmacro %%}{{ dm() }}",
    "cond_expr": "{{ (%s() if true else 0) }}",
    "list_literal": "{{ [%s()]|length }}",
    "filter_block": "{%% filter upper %%}{{ %s() }}{%% endfilter %%}",
    "caller_body": "{%% macro cm() %%}{{ caller() }}{%% endmacro %%}{%% call cm() %%}{{ %s() }}{%% endcall %%}",
    "recursive_loop": "{%% for i in [1] recursive %%}{{ %s() }}{%% endfor %%}",
    "after_safe_call": "{{ run() }}{{ %s() }}",
    "twice": "{{ %s() }}{{ %s() }}",
    "chained_result": "{{ %s()|string|length }}",
    "operand": "{{ %s() ~ 'x' }}",
    "dead_branch": "{%% if false %%}{{ %s() }}{%% endif %%}ok",
    "set_block": "{%% set t %%}{{ %s() }}{%% endset %%}{{ t }}",
    "with_value": "{%% with w = %s() %%}{{ w }}{%% endwith %%}",
}


def build(src_expr, aliases, site):
    def at(i, e):
        if i == len(aliases):
            t = SITES[site]
            return t % ((e,) * t.count("%s"))
        return ALIASES[aliases[i]](e, lambda v: at(i + 1, v), i + 1)
    return at(0, src_expr)


def gen_cases(tier, seed):
    rnd = random.Random(seed)
    quick = tier == "quick"
    cases = []
    alias_seqs = [()] + [(a,) for a in ALIASES]
    alias2 = [(a, b) for a in ALIASES for b in ALIASES]
    for name, kind, family in CALLABLES:
        is_async_callable = kind == "async"
        srcs = sources(name, kind)
        for site in SITES:
            if quick and family == "wrapped":
                combos = [(rnd.choice(list(srcs)), rnd.choice(alias_seqs[:4]))]
            elif quick:
                combos = [(rnd.choice(list(srcs)), ())] + \
                         [(rnd.choice(list(srcs)), a) for a in rnd.sample(alias_seqs[1:], 2)] + \
                         [(rnd.choice(list(srcs)), rnd.choice(alias2))]
            else:
                # basic family: every alias sequence of length <= 1 with every source, every sequence
                # of length 2 with one seeded source; wrapped family: length <= 1 with two sources
                if family == "basic":
                    combos = [(s, a) for s in srcs for a in alias_seqs] + \
                             [(rnd.choice(list(srcs)), a) for a in alias2]
                else:
                    combos = [(s, a) for a in alias_seqs for s in rnd.sample(list(srcs), 2)]
            for s, a in combos:
                if not a and srcs[s].startswith("(") and site.startswith("call_block"):
                    continue     # `{% call (expr)() %}` is read as a caller signature: not a call of expr
                modes = [True] if is_async_callable else ([False, True] if (not quick or rnd.random() < 0.2) else [False])
                for is_async in modes:
                    pols = ["default"]
                    if not quick or name == "denied" or rnd.random() < 0.15:
                        pols.append("denyname")
                    if (name in DENY_LIST and (not quick or not a or rnd.random() < 0.3)) or rnd.random() < 0.05:
                        pols.append("denyobj")
                    for pol in pols:
                        cases.append((name, kind, s, a, site, is_async, pol))
    return cases


def run_case(case):
    core.use_repo()
    name, kind, s, aliases, site, is_async, policy = case
    rec = su.Recorder()
    deny = []
    env = su.make_env(rec, policy=policy, deny=deny, enable_async=is_async)
    objs, targets, header, denied = make_callables(rec)
    deny.extend(denied)
    target = targets[name]
    ctx = dict(objs)
    ctx["fd"] = {"k": target, "inner": {"k2": target}}
    ctx["fl"] = [target]
    src = build(sources(name, kind)[s], aliases, site)
    with warnings.catch_warnings():
        warnings.simplefilter("ignore")
        outcome, text = su.render(env, src, ctx, is_async)
    rec.emit("end", s=outcome)
    return {"env": "sandbox", "policy": policy, "path": [], "callables": header, "ev": rec.ev}, src, text


def design_model(ck):
    quick = ck.tier == "quick"
    r = su.gate_model(PID, "gate_model",
                      [su.conf_tla("sandbox", "abstract", "default"), su.conf_tla("sandbox", "abstract", "denyname"),
                       su.conf_tla("sandbox", "abstract", "denyobj")],
                      2 if quick else 3, ["plain"], [],
                      ["TypeOK", "C18_UnsafeNeverRuns", "C18_GrantedAreSafe"], coverage=quick, timeout=3000)
    ck.add_tlc(r, "SandboxGate: CallGate before Run, default and deny-by-name policy")
    if quick:
        su.require_cov(ck, r, ["MFetch", "MCallGate", "MRun"])


def run(ck):
    su.load_own_findings(ck, PID)
    bg = su.Background(design_model, ck)      # TLC on the design model runs while the engine is exercised
    cases = gen_cases(ck.tier, ck.seed)
    if len(cases) > 2500:
        with ProcessPoolExecutor(max_workers=12) as ex:
            results = list(ex.map(run_case, cases, chunksize=200))
    else:
        results = [run_case(c) for c in cases]
    traces = [r[0] for r in results]
    stats = {k: sum(1 for t in traces for e in t["ev"] if e["e"] == k) for k in ("callgate", "ran")}
    stats["refused"] = sum(1 for t in traces for e in t["ev"] if e["e"] == "callgate" and not e["ok"])
    stats["outcomes"] = {}
    for t in traces:
        o = t["ev"][-1]["s"]
        stats["outcomes"][o] = stats["outcomes"].get(o, 0) + 1
    ck.extra["events"] = stats
    if not (stats["callgate"] and stats["ran"] and stats["refused"]):
        raise core.MachineryError(f"vacuous traces: {stats}")
    bad = {o: n for o, n in stats["outcomes"].items() if o in ("TemplateSyntaxError", "TemplateAssertionError")}
    if bad:
        raise core.MachineryError(f"generator produced templates Jinja rejects: {bad}")
    for idx, stuck in su.validate(ck, PID, traces, "traces", batch=8000, parallel=1 if ck.tier == "quick" else 6):
        case = cases[idx]
        t, src, text = results[idx]
        ev = t["ev"][stuck - 1] if stuck else {"e": "?"}
        name, kind, s, aliases, site, is_async, policy = case
        ck.violation({"kind": "call", "case": list(case), "src": src, "events": t["ev"], "stuck": stuck, "output": text},
                     f"sandbox ({'async' if is_async else 'sync'}, policy {policy}): `{src}` with callable {name} "
                     f"({kind}, marks {t['callables'][NAMES_.index(name)]}): event {ev['e']}"
                     f"(callable={ev.get('v')}, ok={ev.get('ok')}, s={ev.get('s')!r}) is not allowed by SandboxGate "
                     f"(an unsafe callable ran, or the refusal did not raise SecurityError); events "
                     f"{[(e['e'], e['v'], e['ok'], e['s']) for e in t['ev']]}",
                     {"kind": "unsafe-callable", "callable": name, "site": site, "event": ev["e"], "policy": policy})
    ck.traces += len(traces)
    ck.evaluations += len(traces)
    ck.extra["call_cases"] = len(traces)
    ck.extra["sites"] = sorted(SITES)
    ck.extra["aliases"] = sorted(ALIASES)
    for i in (0, len(cases) // 2, len(cases) - 1):
        ck.sample({"template": results[i][1], "callable": cases[i][0], "policy": cases[i][6],
                   "events": [(e["e"], e["v"], e["ok"], e["s"]) for e in traces[i]["ev"]]})
    bg.join()
    ck.exhaustive = False
    ck.extra["exhaustive_note"] = ("thorough: every callable x call site x alias sequence of length <= 2 x sync/async x "
                                   "policy (basic callables: every source for length <= 1, one sampled source for length 2; "
                                   "wrapped / decorated callables: length <= 1, two sampled sources); quick: a "
                                   "seeded sample of sources / aliases per callable x site")
    ck.extra["excluded_shapes"] = [
        "callables invoked by Python code the application supplies (custom filters / tests calling their arguments)",
        "callables reached only through private or internal attributes (C17)",
    ]
    ck.assumptions += [
        "recording callables log `ran` as the first thing their body does",
        "the marks reported to the specification (unsafe_callable / alters_data / __name__) are the ones set on the "
        "callables",
    ]


def replay(ck, rec):
    su.load_own_findings(ck, PID)
    c = rec["case"]["case"]
    c[3] = tuple(c[3])
    t, src, text = run_case(tuple(c))
    if su.validate(ck, PID, [t], "replay"):
        ck.violation(rec["case"], "trace still rejected by SandboxTrace", rec.get("fingerprint"))
