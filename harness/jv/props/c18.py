"""C18 - a sandboxed template never calls a callable the sandbox deems unsafe.

Specs: spec/SandboxRules.tla (UnsafeCallable: marked unsafe, alters_data, or
rejected by an overridden safety check), spec/SandboxGate.tla (CallGate before
Run; a refused CallGate raises SecurityError at once; invariant
C18_UnsafeNeverRuns), spec/SandboxTrace.tla (trace validation).

Binding (code -> spec): generated sandboxed templates route recording callables
(safe, @unsafe, alters_data, denied-by-policy; functions, bound methods,
callable instances, async functions) from a source (name, dict / list item,
attribute, a context variable under a name the engine gives a meaning to)
through 0-2 aliasing steps (set, with, macro parameter / default, loop
variable, call-block parameter, namespace, the implicit macro arguments
caller= / varargs / kwargs; the bound variables optionally named caller, loop,
varargs, self, range ...) to one call site (plain, with arguments, *args /
**kwargs, {% call %}, inside filter / test arguments, conditions, loop
sources, macro defaults, caller bodies, recursive loops ...), sync and async,
the bound variable optionally having a history (spec/SandboxNames.tla: bound
before by a macro definition / set / with / for / parameter to something safe),
with the default and with an overridden is_safe_callable.  Sessions: ONE
environment serves a sequence of renders (SandboxGate.NewRender) whose
callables are built afresh per render and dropped, are methods of one class
bound to different receivers (some frozen: policy "denyrecv"), or are one
long-lived object the application marks / unmarks between renders; the
specification is told the marks of the called object as they are when the
render starts.  The environment subclass logs is_safe_callable's verdict, the
callables log that they ran; TLC validates every trace: an unsafe callable that
ran, or a refusal that did not surface as SecurityError, is rejected.
"""
from __future__ import annotations

import itertools
import random
import warnings
from concurrent.futures import ProcessPoolExecutor

from .. import core
from .. import sandbox_util as su

PID = "C18"

# name -> (kind, family); kind decides how the template reaches it ("func": by name, "method":
# as obj.<name>, "async": by name, async mode only); family "basic" is swept densely in the
# quick tier, "wrapped" (decorated / wrapping / delegating callables) with fewer alias shapes
CALLABLES = [
    ("run", "func", "basic"),              # plain function
    ("delete", "func", "basic"),           # @unsafe
    ("save", "func", "basic"),             # alters_data = True
    ("denied", "func", "basic"),           # unsafe only for the deny-by-name policy
    ("destroy", "method", "basic"),        # @unsafe method
    ("fine", "method", "basic"),
    ("inst", "func", "basic"),             # callable instance, alters_data on the class
    ("adelete", "async", "basic"),
    ("arun", "async", "basic"),
    # functools.wraps wrappers: mark on the wrapper, on the wrapped function, on both, nowhere
    ("w_outer_unsafe", "func", "wrapped"),
    ("w_outer_alters", "func", "wrapped"),
    ("w_inner_unsafe", "func", "wrapped"),
    ("w_both", "func", "wrapped"),
    ("w_plain", "func", "wrapped"),
    # functools.lru_cache
    ("lru_outer_unsafe", "func", "wrapped"),
    ("lru_outer_alters", "func", "wrapped"),
    ("lru_inner_unsafe", "func", "wrapped"),
    ("lru_plain", "func", "wrapped"),
    # functools.partial
    ("part_outer_unsafe", "func", "wrapped"),
    ("part_plain", "func", "wrapped"),
    # bound methods of decorated functions
    ("wm_outer_unsafe", "method", "wrapped"),
    ("wm_plain", "method", "wrapped"),
    # callable objects and classes
    ("cobj_inst_unsafe", "func", "wrapped"),   # mark on the instance only
    ("cobj_plain", "func", "wrapped"),
    ("cls_unsafe", "func", "wrapped"),         # class called as a constructor, mark on the class
    ("cls_plain", "func", "wrapped"),
    ("aw_outer_unsafe", "async", "wrapped"),   # async wrapper marked on the outside
    ("aw_plain", "async", "wrapped"),
]
NAMES_ = [c[0] for c in CALLABLES]
KIND = {c[0]: c[1] for c in CALLABLES}
FAMILY = {c[0]: c[2] for c in CALLABLES}
# objects the application puts on its deny list under the "denyobj" policy (by identity)
# (bound methods are created afresh by every attribute access, so they cannot be listed by identity)
DENY_LIST = {"run", "w_plain", "lru_plain", "part_plain", "cobj_plain", "cls_plain", "aw_plain"}


def make_callables(rec):
    """Recording callables.  What is reported to the specification (header) is read off the
    very object the template calls: its unsafe_callable / alters_data attributes, its name,
    whether it is on the deny list."""
    import functools

    from jinja2.sandbox import unsafe

    out = {}
    index = {n: i for i, n in enumerate(NAMES_, 1)}

    def ran(i):
        rec.emit("ran", v=i)

    def body(name, is_async=False):
        i = index[name]
        if is_async:
            async def f(*a, **kw):
                ran(i)
                return f"R{i}"
        else:
            def f(*a, **kw):
                ran(i)
                return f"R{i}"
        f.__name__ = name
        return f

    def silent(name):
        def f(*a, **kw):
            return f"R{index[name]}"
        f.__name__ = name
        return f

    def wrap(name, inner, is_async=False):
        """a functools.wraps decorator whose wrapper records the run"""
        i = index[name]
        if is_async:
            @functools.wraps(inner)
            async def wrapper(*a, **kw):
                ran(i)
                return await inner(*a, **kw)
        else:
            @functools.wraps(inner)
            def wrapper(*a, **kw):
                ran(i)
                return inner(*a, **kw)
        return wrapper

    def alters(f):
        f.alters_data = True
        return f

    class Obj:
        pass

    # -- basic family
    out["run"] = body("run")
    out["delete"] = unsafe(body("delete"))
    out["save"] = alters(body("save"))
    out["denied"] = body("denied")
    for name, mark in (("destroy", unsafe), ("fine", lambda f: f)):
        f = mark(body(name))

        def meth(self, *a, _f=f, **kw):
            return _f(*a, **kw)
        meth.__name__ = name
        for k, v in vars(f).items():
            setattr(meth, k, v)
        setattr(Obj, name, meth)

    class Inst:
        alters_data = True

        def __call__(self, *a, **kw):
            ran(index["inst"])
            return "R"
    out["inst"] = Inst()
    out["adelete"] = unsafe(body("adelete", True))
    out["arun"] = body("arun", True)
    # -- wrapped family
    out["w_outer_unsafe"] = unsafe(wrap("w_outer_unsafe", silent("w_outer_unsafe")))
    out["w_outer_alters"] = alters(wrap("w_outer_alters", silent("w_outer_alters")))
    out["w_inner_unsafe"] = wrap("w_inner_unsafe", unsafe(silent("w_inner_unsafe")))
    out["w_both"] = unsafe(wrap("w_both", unsafe(silent("w_both"))))
    out["w_plain"] = wrap("w_plain", silent("w_plain"))
    out["lru_outer_unsafe"] = unsafe(functools.lru_cache(maxsize=None)(body("lru_outer_unsafe")))
    out["lru_outer_alters"] = alters(functools.lru_cache(maxsize=None)(body("lru_outer_alters")))
    out["lru_inner_unsafe"] = functools.lru_cache(maxsize=None)(unsafe(body("lru_inner_unsafe")))
    out["lru_plain"] = functools.lru_cache(maxsize=None)(body("lru_plain"))
    out["part_outer_unsafe"] = unsafe(functools.partial(body("part_outer_unsafe")))
    out["part_plain"] = functools.partial(body("part_plain"))
    setattr(Obj, "wm_outer_unsafe", unsafe(wrap("wm_outer_unsafe", lambda self, *a, **kw: "R")))
    setattr(Obj, "wm_plain", wrap("wm_plain", lambda self, *a, **kw: "R"))

    class CObj:
        def __init__(self, name):
            self._name = name

        def __call__(self, *a, **kw):
            ran(index[self._name])
            return "R"
    out["cobj_inst_unsafe"] = CObj("cobj_inst_unsafe")
    out["cobj_inst_unsafe"].unsafe_callable = True
    out["cobj_plain"] = CObj("cobj_plain")

    def mk_class(name, marked):
        class K:
            if marked:
                unsafe_callable = True

            def __init__(self, *a, **kw):
                ran(index[name])

            def __str__(self):
                return "K"
        K.__name__ = name
        return K
    out["cls_unsafe"] = mk_class("cls_unsafe", True)
    out["cls_plain"] = mk_class("cls_plain", False)
    out["aw_outer_unsafe"] = unsafe(wrap("aw_outer_unsafe", body_silent_async(), True))
    out["aw_plain"] = wrap("aw_plain", body_silent_async(), True)

    obj = Obj()
    out["obj"] = obj
    targets, header, deny = {}, [], []
    for name in NAMES_:
        t = getattr(obj, name) if KIND[name] == "method" else out[name]
        targets[name] = t
        # the harness' own index is attached to the called object only, after any decoration
        # (functools.wraps copied the wrapped function's attributes when the wrapper was built)
        try:
            t._jv_callable_index = index[name]
        except AttributeError:          # bound methods: attach to the function they bind
            t.__func__._jv_callable_index = index[name]
        header.append({"unsafe": bool(getattr(t, "unsafe_callable", False)),
                       "alters": bool(getattr(t, "alters_data", False)),
                       "name": str(getattr(t, "__name__", type(t).__name__)),
                       "denied": name in DENY_LIST, "recv": False})
        if name in DENY_LIST and KIND[name] != "method":
            deny.append(t)
    return out, targets, header, deny


def body_silent_async():
    async def f(*a, **kw):
        return "R"
    return f


# ---------------------------------------------------------------------------
# grammar: source -> alias steps -> call site
# ---------------------------------------------------------------------------

def sources(name, kind):
    if kind == "method":
        return {"attr": f"obj.{name}", "attr_sub": f"obj['{name}']", "attr_filter": f"(obj|attr('{name}'))",
                "dict_item": "fd.k", "list_item": "fl[0]"}
    return {"name": name, "dict_item": "fd.k", "dict_sub": "fd['k']", "list_item": "fl[0]",
            "nested": "fd.inner.k2"}


# alias step -> (default variable name, template(e, body, n, v)); v = the variable the step binds (None: the
# step binds a name the engine fixes).  n numbers the steps so that helper macros do not collide.
ALIASES = {
    "set": ("a%d", lambda e, body, n, v: "{%% set %s = %s %%}%s" % (v, e, body(v))),
    "with": ("a%d", lambda e, body, n, v: "{%% with %s = %s %%}%s{%% endwith %%}" % (v, e, body(v))),
    "macro_param": ("h%d", lambda e, body, n, v: "{%% macro m%d(%s) %%}%s{%% endmacro %%}{{ m%d(%s) }}" % (
        n, v, body(v), n, e)),
    "loop_var": ("h%d", lambda e, body, n, v: "{%% for %s in [%s] %%}%s{%% endfor %%}" % (v, e, body(v))),
    "call_param": ("h%d", lambda e, body, n, v: "{%% macro c%d() %%}{{ caller(%s) }}{%% endmacro %%}"
                                                "{%% call(%s) c%d() %%}%s{%% endcall %%}" % (n, e, v, n, body(v))),
    "tuple_unpack": ("a%d", lambda e, body, n, v: "{%% set %s, b%d = %s, 1 %%}%s" % (v, n, e, body(v))),
    "dict_literal": ("g%d", lambda e, body, n, v: "{%% set %s = {'f': %s} %%}%s" % (v, e, body(f"{v}.f"))),
    # the value arrives as the default of a macro parameter
    "macro_default": ("h%d", lambda e, body, n, v: "{%% macro d%d(%s=%s) %%}%s{%% endmacro %%}{{ d%d() }}" % (
        n, v, e, body(v), n)),
    "namespace": ("g%d", lambda e, body, n, v: "{%% set %s = namespace(f=%s) %%}%s" % (v, e, body(f"{v}.f"))),
    # the implicit arguments of a macro: `caller` handed in explicitly instead of by a call block,
    # surplus positional / keyword arguments
    "macro_caller_kw": (None, lambda e, body, n, v: "{%% macro k%d() %%}%s{%% endmacro %%}{{ k%d(caller=%s) }}" % (
        n, body("caller"), n, e)),
    "macro_varargs": (None, lambda e, body, n, v: "{%% macro v%d() %%}%s{%% endmacro %%}{{ v%d(%s) }}" % (
        n, body("varargs[0]"), n, e)),
    "macro_kwargs": (None, lambda e, body, n, v: "{%% macro w%d() %%}%s{%% endmacro %%}{{ w%d(f=%s) }}" % (
        n, body("kwargs.f"), n, e)),
}
ORIGINAL_ALIASES = ["set", "with", "macro_param", "loop_var", "call_param", "tuple_unpack", "dict_literal"]

# Variable names the engine itself gives a meaning to (implicit macro arguments, the loop object, the template
# reference, default globals, names of the generated code): a template may bind every one of them like any other
# name, and what the name holds is called through the same gate.
ENGINE_NAMES = ["caller", "loop", "varargs", "kwargs", "self", "super", "range", "dict", "lipsum", "cycler",
                "joiner", "namespace", "context", "environment", "_"]
NAMEABLE = [a for a, (d, _) in ALIASES.items() if d is not None]


def name_allowed(binder, v, nxt=None):
    """Bindings Jinja refuses at compile time (not calls of anything), and one shape that never ends."""
    if v == "caller" and binder in ("macro_param", "call_param"):
        return False      # "caller" as a macro / call-block parameter needs a default: TemplateAssertionError
    if v == "loop" and binder == "loop_var":
        return False      # the loop variable cannot be the target of its own loop: TemplateAssertionError
    if v == "self" and binder == "ctx_name":
        return False      # render(self=...) is not expressible through keyword arguments
    if nxt == "call_param" and (v in ("caller", "varargs", "kwargs") or binder.startswith("macro_") and
                                binder != "macro_param" and binder != "macro_default"):
        # the next step reads the variable inside a helper macro, where these three names are the helper's own
        # implicit arguments (`caller(caller)` hands the call block to itself: endless recursion)
        return False
    return True


SITES = {
    "plain": "{{ %s() }}",
    "args": "{{ %s(1, k=2) }}",
    "star_args": "{{ %s(*[1, 2]) }}",
    "star_kwargs": "{{ %s(**{'a': 1}) }}",
    "call_block": "{%% call %s() %%}x{%% endcall %%}",
    "call_block_args": "{%% call(p) %s(1) %%}{{ p }}{%% endcall %%}",
    "filter_arg": "{{ 1|default(%s()) }}",
    "filter_arg_join": "{{ [1]|join(%s()) }}",
    "filter_kwarg": "{{ [3]|batch(2, fill_with=%s())|list|length }}",
    "test_arg": "{{ 1 is eq(%s()) }}",
    "if_cond": "{%% if %s() %%}y{%% endif %%}",
    "loop_source": "{%% for i in [%s()] %%}{{ i }}{%% endfor %%}",
    "loop_filter": "{%% for i in [1, 2] if %s() %%}{{ i }}{%% endfor %%}",
    "set_value": "{%% set r = %s() %%}{{ r }}",
    "macro_default": "{%% macro dm(a=%s()) %%}{{ a }}{%% endmacro %%}{{ dm() }}",
    "cond_expr": "{{ (%s() if true else 0) }}",
    "list_literal": "{{ [%s()]|length }}",
    "filter_block": "{%% filter upper %%}{{ %s() }}{%% endfilter %%}",
    "caller_body": "{%% macro cm() %%}{{ caller() }}{%% endmacro %%}{%% call cm() %%}{{ %s() }}{%% endcall %%}",
    "recursive_loop": "{%% for i in [1] recursive %%}{{ %s() }}{%% endfor %%}",
    "after_safe_call": "{{ run() }}{{ %s() }}",
    "twice": "{{ %s() }}{{ %s() }}",
    "chained_result": "{{ %s()|string|length }}",
    "operand": "{{ %s() ~ 'x' }}",
    "dead_branch": "{%% if false %%}{{ %s() }}{%% endif %%}ok",
    "set_block": "{%% set t %%}{{ %s() }}{%% endset %%}{{ t }}",
    "with_value": "{%% with w = %s() %%}{{ w }}{%% endwith %%}",
}


# History of a name (added after seed C18-5): the variable an alias step binds was bound BEFORE (or is bound
# later in the source, or in a sibling scope) by another construct to something harmless -- a macro of the
# template, the safe method obj.fine -- and possibly called there.  What a name held earlier, and by which kind of
# binding, says nothing about what it holds when the call happens: SandboxNames.tla (the gate is asked about the
# value of the innermost live binding at the time of the call), SandboxGate.CallGate (decides by the object).
PRIORS = {
    "macro": "{%% macro %(v)s() %%}m{%% endmacro %%}",
    "macro_called": "{%% macro %(v)s() %%}m{%% endmacro %%}{{ %(v)s() }}",
    "macro_args": "{%% macro %(v)s(x=1) %%}{{ x }}{%% endmacro %%}{{ %(v)s(2) }}",
    "macro_nested": "{%% if true %%}{%% macro %(v)s() %%}m{%% endmacro %%}{%% endif %%}",
    "macro_call_block": "{%% macro %(v)s() %%}{{ caller() }}{%% endmacro %%}{%% call %(v)s() %%}x{%% endcall %%}",
    "set_safe": "{%% set %(v)s = obj.fine %%}{{ %(v)s() }}",
    "with_safe": "{%% with %(v)s = obj.fine %%}{{ %(v)s() }}{%% endwith %%}",
    "loop_safe": "{%% for %(v)s in [obj.fine] %%}{{ %(v)s() }}{%% endfor %%}",
    "param_safe": "{%% macro pm(%(v)s) %%}{{ %(v)s() }}{%% endmacro %%}{{ pm(obj.fine) }}",
}
# where the earlier binding stands: at the start of the template, just before the step that rebinds the name
# (in whatever scope that step is), or after everything else (the name is a macro's only further down the source)
PRIOR_POS = ["top", "here", "after"]


def build(src_expr, aliases, site, vn=(), base=0, prior=()):
    """vn[i] = variable name of alias step i ("" = the default name); base shifts the step numbers;
    prior = (kind, position, step): the variable of alias step `step` has a history (PRIORS)"""
    pre = post = ""

    def at(i, e):
        nonlocal pre, post
        if i == len(aliases):
            t = SITES[site]
            return t % ((e,) * t.count("%s"))
        default, tmpl = ALIASES[aliases[i]]
        n = base + i + 1
        v = (vn[i] if i < len(vn) and vn[i] else default % n) if default is not None else None
        out = tmpl(e, lambda w: at(i + 1, w), n, v)
        if prior and prior[2] == i and v is not None:
            p = PRIORS[prior[0]] % {"v": v}
            if prior[1] == "here":
                out = p + out
            elif prior[1] == "top":
                pre = p
            else:
                post = p
        return out
    body = at(0, src_expr)
    return pre + body + post


def pick_names(rnd, aliases):
    """engine names for the steps of an alias sequence (distinct; "" where none is allowed)"""
    out, used = [], set()
    for i, a in enumerate(aliases):
        nxt = aliases[i + 1] if i + 1 < len(aliases) else None
        ok = [v for v in ENGINE_NAMES if v not in used and name_allowed(a, v, nxt)] if a in NAMEABLE else []
        if "loop_var" in aliases[:i] and a in ("set", "tuple_unpack", "dict_literal", "namespace"):
            ok = [v for v in ok if v != "loop"]     # {% set loop = ... %} inside a for loop: TemplateAssertionError
        v = rnd.choice(ok) if ok else ""
        used.add(v)
        out.append(v)
    return tuple(out)


def seq_allowed(aliases):
    return all(name_allowed(a, "", b) for a, b in zip(aliases, aliases[1:]))


UNSAFE_BASIC = ["delete", "save", "destroy", "inst"]      # marked callables of the basic family (sync)


def gen_cases(tier, seed):
    rnd = random.Random(seed)
    quick = tier == "quick"
    cases = []
    alias_seqs = [()] + [(a,) for a in ALIASES]
    alias2 = [(a, b) for a in ALIASES for b in ALIASES if seq_allowed((a, b))]
    # thorough: every pair of the first seven steps, the later ones paired once in each position
    alias2_thorough = [(a, b) for a in ORIGINAL_ALIASES for b in ORIGINAL_ALIASES]
    for a in ALIASES:
        if a not in ORIGINAL_ALIASES:
            alias2_thorough += [p for p in ((a, rnd.choice(list(ALIASES))), (rnd.choice(list(ALIASES)), a))
                                if seq_allowed(p)]

    def modes_pols(name, kind, a, dense):
        modes = [True] if kind == "async" else ([False, True] if (dense or rnd.random() < 0.2) else [False])
        for is_async in modes:
            pols = ["default"]
            if dense or name == "denied" or rnd.random() < 0.15:
                pols.append("denyname")
            if (name in DENY_LIST and (dense or not a or rnd.random() < 0.3)) or rnd.random() < 0.05:
                pols.append("denyobj")
            for pol in pols:
                yield is_async, pol

    for name, kind, family in CALLABLES:
        srcs = sources(name, kind)
        for site in SITES:
            if quick and family == "wrapped":
                combos = [(rnd.choice(list(srcs)), rnd.choice(alias_seqs[:4]))]
            elif quick:
                combos = [(rnd.choice(list(srcs)), ())] + \
                         [(rnd.choice(list(srcs)), a) for a in rnd.sample(alias_seqs[1:], 2)] + \
                         [(rnd.choice(list(srcs)), rnd.choice(alias2))]
            else:
                # basic family: every alias sequence of length <= 1 with every source, the sequences
                # of length 2 with one seeded source; wrapped family: length <= 1 with two sources
                if family == "basic":
                    combos = [(s, a) for s in srcs for a in alias_seqs] + \
                             [(rnd.choice(list(srcs)), a) for a in alias2_thorough]
                else:
                    combos = [(s, a) for a in alias_seqs for s in rnd.sample(list(srcs), 2)]
            for s, a in combos:
                if not a and srcs[s].startswith("(") and site.startswith("call_block"):
                    continue     # `{% call (expr)() %}` is read as a caller signature: not a call of expr
                # the variables of the alias steps carry names the engine gives a meaning to
                vn = pick_names(rnd, a) if a and family == "basic" and rnd.random() < (0.25 if quick else 0.1) else ()
                for is_async, pol in modes_pols(name, kind, a, not quick):
                    cases.append((name, kind, s, a, site, is_async, pol, ("",) + vn if vn else ()))

    # -- name sweep: every engine name x every construct that can bind it (incl. the application passing the
    # callable under that name) x a marked and an arbitrary callable
    all_names = [c for c in CALLABLES]
    for v in ENGINE_NAMES:
        for binder in ["ctx_name"] + NAMEABLE:
            if not name_allowed(binder, v):
                continue
            picks = [rnd.choice(UNSAFE_BASIC), rnd.choice(all_names)[0]]
            if not quick:
                picks.append(rnd.choice(all_names)[0])
            for name in picks:
                kind = KIND[name]
                for site in ([rnd.choice(list(SITES))] if quick else list(SITES)):
                    if binder == "ctx_name":
                        s, a, vn = "ctx_name", (), (v,)
                    else:
                        s, a, vn = rnd.choice(list(sources(name, kind))), (binder,), ("", v)
                        if rnd.random() < 0.25:         # a second step after the named one
                            nxt = rnd.choice([b for b in ALIASES if name_allowed(binder, v, b)])
                            a, vn = (binder, nxt), ("", v, "")
                    modes = [True] if kind == "async" else ([False, True] if not quick else [rnd.random() < 0.25])
                    for is_async in modes:
                        cases.append((name, kind, s, a, site, is_async, "denyname" if name == "denied" else "default", vn))
    # -- history of a name: every construct that binds a variable x every earlier binding of that name x where
    # the earlier binding stands x a marked and an arbitrary callable (quick: one sampled site, thorough: 6)
    for binder in NAMEABLE:
        for pk in PRIORS:
            for pos in PRIOR_POS:
                picks = [rnd.choice(UNSAFE_BASIC), rnd.choice(all_names)[0]]
                for k, name in enumerate(picks):
                    kind = KIND[name]
                    for site in rnd.sample(list(SITES), 1 if quick else 6):
                        s = rnd.choice(list(sources(name, kind)))
                        a, step = (binder,), 0
                        if rnd.random() < 0.3:          # the rebinding step is one of two
                            other = rnd.choice(list(ALIASES))
                            a, step = ((binder, other), 0) if rnd.random() < 0.5 else ((other, binder), 1)
                            if not seq_allowed(a):
                                a, step = (binder,), 0
                        modes = [True] if kind == "async" else ([False, True] if not quick else [rnd.random() < 0.25])
                        for is_async in modes:
                            pol = "denyname" if name == "denied" else ("denyobj" if name in DENY_LIST and k else "default")
                            cases.append((name, kind, s, a, site, is_async, pol, (), (pk, pos, step)))
    cases += gen_sessions(tier, rnd)
    return cases


# ---------------------------------------------------------------------------
# sessions: ONE environment serves a sequence of renders
# ---------------------------------------------------------------------------
# A session is ("session", theme, policy, is_async, renders); a render is a list of calls; a call is
# [factory, key, marks, source, aliases, site]: the callable is built by `factory` -- afresh for this render
# (key "") or once per session (same key = same object; for "method": same receiver) --, given the marks
# (a subset of MARKS; marks of earlier renders are taken back), routed through the grammar above and called.
FACTORIES = ["closure", "partial", "cobj", "wrapper", "method"]
MARKS = ["unsafe", "alters", "named", "listed", "frozen"]
#   unsafe / alters: unsafe_callable / alters_data on the object;  named: its __name__ is on the name deny list;
#   listed: the object is on the identity deny list;  frozen: the receiver of the method is frozen


def session_sources(factory, slot):
    if factory == "method":
        return {"attr": f"ob{slot}.save", "attr_sub": f"ob{slot}['save']", "attr_filter": f"(ob{slot}|attr('save'))",
                "dict_item": f"fd{slot}.k", "list_item": f"fl{slot}[0]", "name": f"t{slot}"}
    return {"name": f"t{slot}", "dict_item": f"fd{slot}.k", "dict_sub": f"fd{slot}['k']", "list_item": f"fl{slot}[0]",
            "nested": f"fd{slot}.inner.k2"}


def gen_sessions(tier, rnd):
    quick = tier == "quick"
    per_theme = 30 if quick else 400
    length = 6 if quick else 8
    sites = list(SITES)
    short_aliases = [()] + [(a,) for a in ALIASES]

    def marks_for(policy, factory, p_bad=0.5):
        if rnd.random() >= p_bad:
            # marks another policy would reject are not marks for this one
            spare = {"default": ["named", "listed", "frozen"], "denyname": ["listed", "frozen"],
                     "denyobj": ["named", "frozen"], "denyrecv": ["named", "listed"]}[policy]
            return [rnd.choice(spare)] if rnd.random() < 0.3 else []
        pool = ["unsafe", "alters"] + {"default": [], "denyname": ["named"] * 2, "denyobj": ["listed"] * 2,
                                        "denyrecv": ["frozen"] * 4}[policy]
        return [rnd.choice(pool)]

    def legal(factory, marks):
        out = [m for m in marks if not (m == "frozen" and factory != "method") and not (m == "listed" and factory == "method")]
        return out

    def call(factory, key, marks, slot, shape=None):
        srcs = session_sources(factory, slot)
        s, a, site = shape or (rnd.choice(list(srcs)), rnd.choice(short_aliases if rnd.random() < 0.5 else [()]),
                               rnd.choice(sites))
        if s not in srcs:
            s = rnd.choice(list(srcs))
        if not a and srcs[s].startswith("(") and site.startswith("call_block"):
            site = "plain"
        return [factory, key, legal(factory, marks), s, list(a), site]

    out = []
    for theme in ("fresh", "receiver", "remark", "mixed"):
        for n in range(per_theme):
            is_async = rnd.random() < 0.25
            policy = rnd.choice(["default", "denyname", "denyobj", "denyrecv"])
            renders = []
            if theme == "fresh":
                # every request builds its helpers anew and drops them afterwards; same template shape
                factory = rnd.choice(FACTORIES)
                srcs = session_sources(factory, 0)
                shape = (rnd.choice(list(srcs)), rnd.choice(short_aliases[:4]) if rnd.random() < 0.3 else (),
                         rnd.choice(["plain", "args", "filter_arg", "if_cond", "set_value", "twice", rnd.choice(sites)]))
                for i in range(length * 2):
                    renders.append([call(factory, "", marks_for(policy, factory), 0, shape)])
            elif theme == "receiver":
                # one method, several receivers, some of them frozen by the application
                policy = "denyrecv" if rnd.random() < 0.8 else policy
                order = rnd.sample("ABC", 3)      # at least one receiver whose method is granted, one frozen
                state = {order[0]: False, order[1]: True, order[2]: rnd.random() < 0.5}
                for i in range(length):
                    ks = rnd.sample("ABC", 2 if rnd.random() < 0.5 else 1)
                    if rnd.random() < 0.2:
                        ks[-1] = ""                         # a receiver made for this render only
                    if rnd.random() < 0.15:
                        k = rnd.choice("ABC")
                        state[k] = not state[k]             # the application (un)freezes a receiver
                    renders.append([call("method", k, ["frozen"] if (state[k] if k else rnd.random() < 0.5) else [], j)
                                    for j, k in enumerate(ks)])
            elif theme == "remark":
                # one long-lived object; the application marks / unmarks it between renders
                factory = rnd.choice(FACTORIES)
                bad = False
                for i in range(length):
                    renders.append([call(factory, "P", marks_for(policy, factory, 1.0 if bad else 0.0), 0)])
                    bad = not bad if rnd.random() < 0.7 else bad
            else:
                keys = ["", "", "P", "Q"]
                for i in range(length):
                    cs = []
                    for j in range(2 if rnd.random() < 0.4 else 1):
                        factory = rnd.choice(FACTORIES)
                        key = rnd.choice(keys)
                        cs.append(call(factory, (key + factory + str(j)) if key else "", marks_for(policy, factory, 0.4), j))
                    renders.append(cs)
            out.append(("session", theme, policy, is_async, renders))
    return out


class SessionRecorder(su.Recorder):
    def callable_index(self, obj):
        owner = getattr(obj, "__self__", None)
        if isinstance(owner, SessionReceiver):
            return owner._jv_method_index
        return getattr(obj, "_jv_callable_index", 0)


class SessionReceiver:
    """`save` is a method of every receiver: one function, many bound methods"""
    _jv_method_index = 0
    _jv_rec = None

    def save(self, *a, **kw):
        self._jv_rec.emit("ran", v=self._jv_method_index)
        return "R"


def make_session_callable(rec, factory, is_async, cls):
    """-> (the object the template calls or, for "method", the receiver; set_index(k))"""
    import functools

    box = [0]
    if is_async and factory in ("closure", "wrapper"):
        async def f(*a, **kw):
            rec.emit("ran", v=box[0])
            return "R"
    else:
        def f(*a, **kw):
            rec.emit("ran", v=box[0])
            return "R"
    f.__name__ = "helper"
    if factory == "closure":
        obj = f
    elif factory == "partial":
        obj = functools.partial(f, 0)
    elif factory == "wrapper":
        def inner(*a, **kw):
            return "R"
        inner.__name__ = "helper"
        if is_async:
            @functools.wraps(inner)
            async def obj(*a, **kw):
                return await f(*a, **kw)
        else:
            @functools.wraps(inner)
            def obj(*a, **kw):
                return f(*a, **kw)
    elif factory == "cobj":
        class Helper:
            def __call__(self, *a, **kw):
                return f(*a, **kw)
        obj = Helper()
    elif factory == "method":
        obj = cls()

        def set_index(k):
            obj._jv_method_index = k
        return obj, set_index
    else:
        raise ValueError(factory)

    def set_index(k):
        box[0] = k
        obj._jv_callable_index = k
    return obj, set_index


def set_marks(target, marks, deny, frozen, receiver):
    """make the marks of the called object exactly `marks` (taking earlier ones back)"""
    from jinja2.sandbox import unsafe

    holder = getattr(target, "__func__", target)          # a bound method shows the attributes of its function
    if "unsafe" in marks:
        unsafe(holder)
    elif "unsafe_callable" in vars(holder):
        del holder.unsafe_callable
    if "alters" in marks:
        holder.alters_data = True
    elif "alters_data" in vars(holder):
        del holder.alters_data
    holder.__name__ = "denied" if "named" in marks else "helper"
    deny[:] = [d for d in deny if d is not target]
    if "listed" in marks:
        deny.append(target)
    if receiver is not None:
        frozen[:] = [d for d in frozen if d is not receiver]
        if "frozen" in marks:
            frozen.append(receiver)


def describe(t, deny, frozen):
    """what the specification is told about a callable: read off the object the template calls"""
    return {"unsafe": bool(getattr(t, "unsafe_callable", False)), "alters": bool(getattr(t, "alters_data", False)),
            "name": str(getattr(t, "__name__", type(t).__name__)), "denied": any(t is d for d in deny),
            "recv": any(getattr(t, "__self__", None) is d for d in frozen)}


def run_session(case):
    core.use_repo()
    _, theme, policy, is_async, renders = case
    rec = SessionRecorder()
    deny, frozen = [], []
    env = su.make_env(rec, policy=policy, deny=deny, frozen=frozen, enable_async=is_async)

    class Receiver(SessionReceiver):          # the method's marks are per session
        _jv_rec = rec

        def save(self, *a, **kw):
            return SessionReceiver.save(self, *a, **kw)
    Receiver.save.__name__ = "helper"

    store, header, srcs, texts = {}, [], [], []
    for r, calls in enumerate(renders):
        if r:
            rec.emit("begin")
        ctx = {"run": lambda *a, **kw: "S"}
        parts, live = [], []
        for slot, (factory, key, marks, s, aliases, site) in enumerate(calls):
            made = store.get(key) if key else None
            if made is None:
                made = make_session_callable(rec, factory, is_async, Receiver)
                if key:
                    store[key] = made
            obj, set_index = made
            receiver = obj if factory == "method" else None
            target = obj.save if factory == "method" else obj
            set_marks(target, marks, deny, frozen, receiver)
            set_index(len(header) + len(live) + 1)
            live.append(target)
            ctx.update({f"t{slot}": target, f"fd{slot}": {"k": target, "inner": {"k2": target}}, f"fl{slot}": [target],
                        f"ob{slot}": obj})
            parts.append(build(session_sources(factory, slot)[s], tuple(aliases), site, (), base=2 * slot))
            del made, obj, target, receiver, set_index
        # the marks as they are when the render starts (methods of one class share the marks of the function)
        header += [describe(t, deny, frozen) for t in live]
        del live[:]
        src = "|".join(parts)
        with warnings.catch_warnings():
            warnings.simplefilter("ignore")
            outcome, text = su.render(env, src, ctx, is_async)
        rec.emit("end", s=outcome)
        # what was made for this render only is dropped now, as a request handler would
        deny[:] = [d for d in deny if any(d is m[0] for m in store.values())]
        frozen[:] = [d for d in frozen if any(d is m[0] for m in store.values())]
        ctx.clear()
        del ctx
        srcs.append(src)
        texts.append(text)
    return {"env": "sandbox", "policy": policy, "path": [], "callables": header, "ev": rec.ev}, srcs, texts


def run_case(case):
    if case[0] == "session":
        return run_session(case)
    core.use_repo()
    name, kind, s, aliases, site, is_async, policy, vn = case[:8]
    prior = tuple(case[8]) if len(case) > 8 else ()
    rec = su.Recorder()
    deny = []
    env = su.make_env(rec, policy=policy, deny=deny, enable_async=is_async)
    objs, targets, header, denied = make_callables(rec)
    deny.extend(denied)
    target = targets[name]
    ctx = dict(objs)
    ctx["fd"] = {"k": target, "inner": {"k2": target}}
    ctx["fl"] = [target]
    if s == "ctx_name":                      # the application passes the callable under this name
        ctx[vn[0]] = target
        expr = vn[0]
    else:
        expr = sources(name, kind)[s]
    src = build(expr, aliases, site, vn[1:], prior=prior)
    with warnings.catch_warnings():
        warnings.simplefilter("ignore")
        outcome, text = su.render(env, src, ctx, is_async)
    rec.emit("end", s=outcome)
    return {"env": "sandbox", "policy": policy, "path": [], "callables": header, "ev": rec.ev}, src, text


def design_model(ck):
    quick = ck.tier == "quick"
    r = su.gate_model(PID, "gate_model",
                      [su.conf_tla("sandbox", "abstract", pol, multi=True)
                       for pol in ("default", "denyname", "denyobj", "denyrecv")],
                      2 if quick else 3, ["plain"], [],
                      ["TypeOK", "C18_UnsafeNeverRuns", "C18_GrantedAreSafe"], coverage=quick, timeout=3000)
    ck.add_tlc(r, "SandboxGate: CallGate before Run, across renders of one environment; default, deny-by-name, "
                  "deny-by-identity and deny-by-receiver policy")
    if quick:
        su.require_cov(ck, r, ["MFetch", "MCallGate", "MRun", "MNewRender"])
    # names with a history (SandboxNames.tla): the rule holds; with the shortcut "a name some macro definition binds
    # needs no gate" (negative control) and for the reachability witness TLC must report a violation
    for label, trust, invs, expect in (("rule", "FALSE", ["NTypeOK", "C18_NamesUnsafeNeverRuns", "C18_EveryCallAsksTheGate"], True),
                                       ("shortcut", "TRUE", ["C18_NamesUnsafeNeverRuns"], False),
                                       ("witness", "FALSE", ["NoRefusalOfARebound"], False)):
        cfg = (f"CONSTANTS\n  Names = {{\"h\", \"a\"}}\n  MaxDepth = {2 if quick else 3}\n  MaxSteps = {5 if quick else 6}\n"
               f"  TrustMacroNames = {trust}\nSPECIFICATION NSpec\n" + "".join(f"INVARIANT {i}\n" for i in invs))
        rn = core.run_tlc(PID, "SandboxNames", cfg, name=f"names_{label}", workers=4, timeout=3000)
        if not expect and rn.ok:
            raise core.MachineryError(f"SandboxNames ({label}): TLC found no violation where one must exist")
        ck.add_tlc(rn, f"SandboxNames ({label}): a call asks the gate about the value the name holds when it is called, "
                       f"whatever bound the name before", expect_ok=expect)


def run(ck):
    su.load_own_findings(ck, PID)
    bg = su.Background(design_model, ck)      # TLC on the design model runs while the engine is exercised
    cases = gen_cases(ck.tier, ck.seed)
    if len(cases) > 6000:
        with ProcessPoolExecutor(max_workers=12) as ex:
            results = list(ex.map(run_case, cases, chunksize=200))
    else:
        results = [run_case(c) for c in cases]
    traces = [r[0] for r in results]
    stats = {k: sum(1 for t in traces for e in t["ev"] if e["e"] == k) for k in ("callgate", "ran")}
    stats["refused"] = sum(1 for t in traces for e in t["ev"] if e["e"] == "callgate" and not e["ok"])
    stats["outcomes"] = {}
    for t in traces:
        for e in t["ev"]:
            if e["e"] == "end":
                stats["outcomes"][e["s"]] = stats["outcomes"].get(e["s"], 0) + 1
    # sessions: renders after the first one, refusals that follow a grant on the same environment (per theme)
    stats["renders_after_first"] = sum(1 for t in traces for e in t["ev"] if e["e"] == "begin")
    stats["refused_after_grant"] = {}
    stats["named_variables"] = {}
    stats["name_history"] = {}         # earlier binding of the called name -> cases whose call reached the gate
    for c, t in zip(cases, traces):
        if c[0] == "session":
            seen_ok = False
            for e in t["ev"]:
                if e["e"] == "callgate" and e["ok"]:
                    seen_ok = True
                elif e["e"] == "callgate" and seen_ok:
                    stats["refused_after_grant"][c[1]] = stats["refused_after_grant"].get(c[1], 0) + 1
        else:
            if len(c) > 8:
                i = NAMES_.index(c[0]) + 1
                for k in (c[8][0], c[8][1], c[3][c[8][2]]):
                    stats["name_history"][k] = stats["name_history"].get(k, 0) + (
                        1 if any(e["e"] == "callgate" and e["v"] == i for e in t["ev"]) else 0)
            for v in c[7]:
                if v:
                    stats["named_variables"][v] = stats["named_variables"].get(v, 0) + (
                        1 if any(e["e"] == "callgate" for e in t["ev"]) else 0)
    ck.extra["events"] = stats
    if not (stats["callgate"] and stats["ran"] and stats["refused"]):
        raise core.MachineryError(f"vacuous traces: {stats}")
    bad = {o: n for o, n in stats["outcomes"].items() if o in ("TemplateSyntaxError", "TemplateAssertionError")}
    if bad:
        raise core.MachineryError(f"generator produced templates Jinja rejects: {bad}")
    rejected = su.validate(ck, PID, traces, "traces", batch=8000, parallel=1 if ck.tier == "quick" else 6)
    if not rejected:
        # vacuity of the two families below can only be judged on a tree that behaves (an engine that stops
        # asking the gate produces no refusals either -- and rejected traces)
        if any(not stats["refused_after_grant"].get(th) for th in ("fresh", "receiver", "remark", "mixed")):
            raise core.MachineryError(f"vacuous sessions: no refusal after a grant: {stats['refused_after_grant']}")
        if any(not stats["named_variables"].get(v) for v in ENGINE_NAMES):
            raise core.MachineryError(f"vacuous name sweep: {stats['named_variables']}")
        if any(not stats["name_history"].get(k) for k in list(PRIORS) + PRIOR_POS + NAMEABLE):
            raise core.MachineryError(f"vacuous name histories: {stats['name_history']}")
    for idx, stuck in rejected:
        case = cases[idx]
        t, src, text = results[idx]
        ev = t["ev"][stuck - 1] if stuck else {"e": "?"}
        what = (f"event {ev['e']}(callable={ev.get('v')}, ok={ev.get('ok')}, s={ev.get('s')!r}) is not allowed by "
                f"SandboxGate (an unsafe callable ran, or the refusal did not raise SecurityError)")
        if case[0] == "session":
            _, theme, policy, is_async, renders = case
            r = sum(1 for e in t["ev"][:stuck or 0] if e["e"] == "begin")
            v = ev.get("v") or 0
            marks = t["callables"][v - 1] if 0 < v <= len(t["callables"]) else None
            ck.violation({"kind": "session", "case": list(case), "src": src, "events": t["ev"], "stuck": stuck, "output": text},
                         f"sandbox ({'async' if is_async else 'sync'}, policy {policy}), one environment, render "
                         f"{r + 1} of {len(renders)} ({theme}): `{src[r]}` after {src[:r]} with call {v} = {renders[r]} "
                         f"(marks of the called object {marks}): {what}; events "
                         f"{[(e['e'], e['v'], e['ok'], e['s']) for e in t['ev']]}",
                         {"kind": "unsafe-callable-session", "theme": theme, "event": ev["e"], "policy": policy,
                          "render": renders[r]})
            continue
        name, kind, s, aliases, site, is_async, policy, vn = case[:8]
        ck.violation({"kind": "call", "case": list(case), "src": src, "events": t["ev"], "stuck": stuck, "output": text},
                     f"sandbox ({'async' if is_async else 'sync'}, policy {policy}): `{src}` with callable {name} "
                     f"({kind}, marks {t['callables'][NAMES_.index(name)]}): {what}; events "
                     f"{[(e['e'], e['v'], e['ok'], e['s']) for e in t['ev']]}",
                     {"kind": "unsafe-callable", "callable": name, "site": site, "event": ev["e"], "policy": policy})
    ck.traces += len(traces)
    ck.evaluations += len(traces)
    ck.extra["call_cases"] = len(traces)
    ck.extra["sites"] = sorted(SITES)
    ck.extra["aliases"] = sorted(ALIASES)
    for i in (0, len(cases) // 2, len(cases) - 1):
        ck.sample({"template": results[i][1], "callable": cases[i][0], "policy": cases[i][2 if cases[i][0] == "session" else 6],
                   "events": [(e["e"], e["v"], e["ok"], e["s"]) for e in traces[i]["ev"]]})
    bg.join()
    ck.exhaustive = False
    ck.extra["exhaustive_note"] = ("thorough: every callable x call site x alias sequence of length <= 1 (and the pairs of "
                                   "the first seven steps, the later steps paired once per position) x sync/async x "
                                   "policy (basic callables: every source for length <= 1, one sampled source for length 2; "
                                   "wrapped / decorated callables: length <= 1, two sampled sources); every engine name x "
                                   "binding construct x call site for three sampled callables; seeded sessions (400 per "
                                   "theme); quick: a seeded sample of sources / aliases per callable x site, one site per "
                                   "engine name x binding construct, 30 sessions per theme")
    ck.extra["engine_names"] = ENGINE_NAMES
    ck.extra["session_themes"] = ["fresh", "receiver", "remark", "mixed"]
    ck.extra["excluded_shapes"] = [
        "callables invoked by Python code the application supplies (custom filters / tests calling their arguments)",
        "callables reached only through private or internal attributes (C17)",
        "`caller` as a macro / call-block parameter without default, `loop` as the target of a for loop or of a "
        "{% set %} inside one (compile-time errors), an application context variable named `self`",
        "a variable named caller / varargs / kwargs read inside the helper macro of the call-block-parameter step "
        "(there the names are the helper's own implicit arguments)",
    ]
    ck.assumptions += [
        "recording callables log `ran` as the first thing their body does",
        "the marks reported to the specification (unsafe_callable / alters_data / __name__) are the ones set on the "
        "callables",
    ]


def replay(ck, rec):
    su.load_own_findings(ck, PID)
    c = rec["case"]["case"]
    if c[0] != "session":
        c[3] = tuple(c[3])
        c[7:] = [tuple(c[7]) if len(c) > 7 else ()] + ([tuple(c[8])] if len(c) > 8 else [])
    t, src, text = run_case(tuple(c))
    if su.validate(ck, PID, [t], "replay"):
        ck.violation(rec["case"], "trace still rejected by SandboxTrace", rec.get("fingerprint"))
