"""C30 - template compilation is deterministic.

Spec: spec/IdTrackOrder.tla - the passes of idtracking.py / compiler.py that iterate over Python
sets (branch_update, dump_stores, pull_dependencies, pop_assign_tracking, find_undeclared), every
iteration order an explicit nondeterministic choice, one switch per site for "the code sorts
first".  TLC proves C30_OrderIndependent for the switches as in the code, refutes it with a sorted
site switched off (negative controls), and prints for every program the canonical instruction list
and the sites the program exercises.

Binding (spec->code): every program TLC enumerates is unparsed to a Jinja template whose names
are chosen so that (a) their string order is the specification's numeric order and (b) their
set-iteration order really differs between the hash seeds used (verified in the subprocesses).
The templates are compiled with Environment.compile(src, raw=True) in one subprocess per
PYTHONHASHSEED (twice in each, with fresh environments); the generated sources must be
byte-identical across all of them, and the projection of the generated source on the modelled
instructions must be the canonical list TLC printed.  A corpus of larger templates (random
concatenations of the programs inside loops / blocks / macros, and the templates of the repository's
test-suite) is checked for byte-identity only.  The two compilations of a template in a process have a compilation
by an environment of the other mode (async) in between, and the async code is compared the same way.

Spec: spec/CompileSession.tla - one process compiling a sequence of templates with sync / async environments; what
could outlive a compilation (the module-level list runtime.exported, the generator's identifier counter) is explicit
state with a switch each.  TLC proves C30_HistoryIndependent for the code's switches, refutes it with a switch off,
and prints every session with the expected import line / t_N numbers of every step; each session is replayed in a
process of its own (forked from a hash-seed worker that has compiled nothing yet).
"""
from __future__ import annotations

import itertools
import json
import os
import random
import re
import subprocess
import sys
import time
from concurrent.futures import ThreadPoolExecutor

from .. import core

PID = "C30"

STMTS = (
    [{"k": "set", "a": [t]} for t in ([1], [2, 1], [3, 1, 2], [1, 4], [4, 3])]
    + [{"k": "if", "a": b} for b in ([[2], [3]], [[3, 2], []], [[2], [2, 3]], [[4], [3], [2]], [[1, 3], [2]])]
    + [{"k": "from", "a": [t]} for t in ([3, 2], [4])]
    + [{"k": "out", "a": a} for a in ([[2, 1], []], [[3, 1, 2], [2, 1]], [[1], [1]], [[], [2, 1]])]
    + [{"k": "include", "a": []}]
    + [{"k": "macro", "a": [u]} for u in ([], [1], [3, 2], [2, 1, 3])]
)
TRANS_STMTS = [{"k": "trans", "a": [t]} for t in ([3, 2], [2, 4, 3], [4])]
PRIVATE = [1]
SPECIALS = {1: "caller()", 2: "kwargs", 3: "varargs"}
SITES = ["branch", "dump", "deps", "assign", "public", "undecl", "trans"]

FILTER_POOL = ["abs", "capitalize", "escape", "first", "float", "int", "last", "length", "list", "lower", "max", "min",
               "reverse", "safe", "sort", "string", "striptags", "sum", "title", "trim", "unique", "upper"]
TEST_POOL = ["boolean", "callable", "defined", "even", "float", "integer", "iterable", "lower", "mapping", "none",
             "number", "odd", "sequence", "string", "undefined", "upper"]

WORKER = r"""
import json, os, sys
job = json.load(open(sys.argv[1]))
out = {"orders": [list(set(s)) for s in job.get("subsets", [])], "codes": [], "again": [], "acodes": [], "aagain": []}
if job.get("runtime_lists"):
    import jinja2.runtime as rt
    out["exported"], out["async_exported"] = list(rt.exported), list(rt.async_exported)


def compile_one(env, src):
    try:
        return env.compile(src, raw=True)
    except Exception as e:
        return "EXC " + type(e).__name__ + ": " + str(e)


if job.get("sessions"):
    # every session in a process of its own, forked here: jinja2 is imported and the lexer of the default
    # delimiters is built (its regular expressions cost more than all the compilations of a session); nothing has
    # been parsed or compiled yet
    from jinja2 import Environment
    Environment().lexer
    table, out["sessions"] = {}, []
    for sess in job["sessions"]:
        r, w = os.pipe()
        pid = os.fork()
        if pid == 0:
            status = 1
            try:
                os.close(r)
                envs, res = {}, []
                for ui, mode in sess:
                    if mode not in envs:
                        envs[mode] = Environment(enable_async=(mode == "async"))
                    res.append(compile_one(envs[mode], job["units"][ui]))
                with os.fdopen(w, "w") as f:
                    json.dump(res, f)
                status = 0
            finally:
                os._exit(status)
        os.close(w)
        with os.fdopen(r) as f:
            data = f.read()
        if os.waitpid(pid, 0)[1] != 0:
            raise SystemExit("session child failed")
        out["sessions"].append([table.setdefault(c, len(table)) for c in json.loads(data)])
    out["session_table"] = sorted(table, key=table.get)
if job.get("sources"):
    from jinja2 import Environment
    for src in job["sources"]:
        ext = ["jinja2.ext.i18n"] if "{% trans" in src else []
        # sync, async, sync, async: between two compilations of a template by environments of one configuration
        # the process compiles with an environment of the other configuration
        a = compile_one(Environment(extensions=ext), src)
        x = compile_one(Environment(extensions=ext, enable_async=True), src)
        b = compile_one(Environment(extensions=ext), src)
        y = compile_one(Environment(extensions=ext, enable_async=True), src)
        out["codes"].append(a)
        out["again"].append(a == b)
        out["acodes"].append(x)
        out["aagain"].append(x == y)
json.dump(out, open(sys.argv[2], "w"))
"""


def run_worker(seed, job, tag):
    d = core.workdir(PID, f"seed_{tag}_{seed}")
    (d / "worker.py").write_text(WORKER)
    (d / "job.json").write_text(json.dumps(job))
    env = dict(os.environ)
    env["PYTHONHASHSEED"] = str(seed)
    env["PYTHONPATH"] = str(core.REPO / "src")
    env["PYTHONDONTWRITEBYTECODE"] = "1"
    p = subprocess.run([sys.executable, str(d / "worker.py"), str(d / "job.json"), str(d / "out.json")],
                       env=env, capture_output=True, text=True, timeout=1800)
    if p.returncode != 0:
        raise core.MachineryError(f"compile worker (seed {seed}) failed: {p.stderr[-800:]}")
    return json.loads((d / "out.json").read_text())


def run_seeds(seeds, job, tag):
    with ThreadPoolExecutor(len(seeds)) as ex:
        return dict(zip(seeds, ex.map(lambda s: run_worker(s, job, tag), seeds)))


# ---------------------------------------------------------------------------
# names whose set order depends on the seed
# ---------------------------------------------------------------------------
def subsets(names):
    return [list(c) for k in range(2, len(names) + 1) for c in itertools.combinations(names, k)]


def choose_names(ck, seeds, rnd):
    """variables v[1..4] (v1 private), macro name, filters f[1..3], tests t[1..2]: string order = numeric
    order, and every subset of size >= 2 iterates in different orders under at least two of the seeds."""
    letters = "abcdefghijklmnopqrstuvwxyz"
    cands = []
    for _ in range(60):
        pub = sorted(rnd.sample([a + b for a in letters[1:] for b in letters], 3))
        cands.append({"vars": ["_" + rnd.choice(letters) + rnd.choice(letters)] + pub,
                      "filters": sorted(rnd.sample(FILTER_POOL, 3)), "tests": sorted(rnd.sample(TEST_POOL, 2))})
    groups = []
    for c in cands:
        groups.append(subsets(c["vars"] + ["zm"]) + subsets(c["filters"]) + subsets(c["tests"])
                      + [["caller", "kwargs", "varargs"]])
    flat = [s for g in groups for s in g]
    res = run_seeds(seeds, {"subsets": flat, "runtime_lists": True}, "names")
    lists = {k: res[seeds[0]][k] for k in ("exported", "async_exported")}
    if any({k: res[s][k] for k in lists} != lists for s in seeds):
        raise core.MachineryError("jinja2.runtime.exported / async_exported differ between fresh processes")
    pos = 0
    for c, g in zip(cands, groups):
        ok = True
        for k in range(len(g)):
            orders = {tuple(res[s]["orders"][pos + k]) for s in seeds}
            if len(orders) < 2 and len(g[k]) <= 4:
                ok = False
        pos += len(g)
        if ok:
            ck.extra["names"] = c
            ck.extra["name_subsets_with_seed_dependent_order"] = len(g)
            return c, lists
    raise core.MachineryError("no name tuple found whose set orders all vary between the seeds")


# ---------------------------------------------------------------------------
# unparse / project
# ---------------------------------------------------------------------------
class Namer:
    def __init__(self, c, suffix=""):
        self.v = {i + 1: n + suffix for i, n in enumerate(c["vars"])}
        self.f = {i + 1: n for i, n in enumerate(c["filters"])}
        self.t = {i + 1: n for i, n in enumerate(c["tests"])}
        self.macro = "zm" + suffix
        self.cond = "zcond"
        self.r = "zr"


def unparse_stmt(s, nm):
    k, a = s["k"], s["a"]
    if k == "set":
        t = a[0]
        return "{% set " + ", ".join(nm.v[n] for n in t) + " = " + ", ".join(str(i) for i in range(len(t))) + " %}"
    if k == "if":
        out = []
        for bi, b in enumerate(a):
            head = "{% if " + nm.cond + " %}" if bi == 0 else ("{% else %}" if bi == len(a) - 1 else "{% elif " + nm.cond + " %}")
            out.append(head + "".join("{% set " + nm.v[n] + " = 1 %}" for n in b))
        return "".join(out) + "{% endif %}"
    if k == "from":
        return '{% from "m" import ' + ", ".join(nm.v[n] for n in a[0]) + " %}"
    if k == "out":
        s1 = ("{{ " + nm.r + "".join("|" + nm.f[f] for f in a[0]) + " }}") if a[0] else ""
        return s1 + "".join("{{ " + nm.r + " is " + nm.t[t] + " }}" for t in a[1])
    if k == "include":
        return '{% include "inc" %}'
    if k == "trans":
        return "{% trans %}" + " ".join("{{ " + nm.v[n] + " }}" for n in a[0]) + "{% endtrans %}"
    if k == "macro":
        return "{% macro " + nm.macro + "() %}" + "".join("{{ " + SPECIALS[u] + " }}" for u in a[0]) + "{% endmacro %}"
    raise core.MachineryError(k)


def unparse(prog, nm):
    return "".join(unparse_stmt(s, nm) for s in prog)


_NAMES = r"'(\w+)': l_0_\w+"


def project(code, nm):
    """The modelled instructions of the generated root function, in textual order."""
    ev = []
    inv_v = {v: k for k, v in nm.v.items()}
    inv_v.update({nm.macro: 97, nm.cond: 98, nm.r: 99})
    inv_f = {v: k for k, v in nm.f.items()}
    inv_t = {v: k for k, v in nm.t.items()}

    def V(xs):
        return [inv_v[x] for x in xs]
    in_root = False
    for line in code.splitlines():
        if line.startswith("def root("):
            in_root = True
            continue
        if in_root and line and not line.startswith(" "):
            break
        if not in_root:
            continue
        s = line.strip()
        m = re.fullmatch(r"l_0_(\w+) = resolve\('(\w+)'\)", s)
        if m:
            if m.group(2) in inv_v:          # gettext / ngettext are loaded by the extension's own call node
                ev.append(["resolve", inv_v[m.group(2)]])
            continue
        if re.fullmatch(r"(l_0_\w+ = )+missing", s):
            ev.append(["missing", V(re.findall(r"l_0_(\w+) = ", s))])
            continue
        m = re.fullmatch(r"t_(\d+) = environment\.(filters|tests)\['(\w+)'\]", s)
        if m:
            inv = inv_f if m.group(2) == "filters" else inv_t
            ev.append(["dep", m.group(2), inv[m.group(3)], int(m.group(1))])
            continue
        m = re.fullmatch(r"context\.vars\['(\w+)'\] = l_0_\w+", s)
        if m:
            ev.append(["ctxvar", inv_v[m.group(1)]])
            continue
        m = re.fullmatch(r"context\.vars\.update\(\{(.*)\}\)", s)
        if m:
            ev.append(["ctxupdate", V(re.findall(_NAMES, m.group(1)))])
            continue
        m = re.fullmatch(r"context\.exported_vars\.add\('(\w+)'\)", s)
        if m:
            if m.group(1) != nm.macro:
                ev.append(["exportadd", inv_v[m.group(1)]])
            continue
        m = re.fullmatch(r"context\.exported_vars\.update\(\((.*)\)\)", s)
        if m:
            ev.append(["exportupdate", V(re.findall(r"'(\w+)'", m.group(1)))])
            continue
        if re.fullmatch(r"context\.exported_vars\.discard\('(\w+)'\)", s):
            ev[-1] = ["from", [ev[-1][1]]]
            continue
        if re.fullmatch(r"context\.exported_vars\.difference_update\(\((.*)\)\)", s):
            ev[-1] = ["from", ev[-1][1]]
            continue
        m = re.search(r"new_context\(context\.get_all\(\), True, \{(.*)\}\)", s)
        if m:
            ev.append(["localctx", V(re.findall(_NAMES, m.group(1)))])
            continue
        m = re.search(r"Macro\(environment, macro, '\w+', \(\), (True|False), (True|False), (True|False),", s)
        if m:
            ev.append(["macro"] + [g == "True" for g in m.groups()])
            continue
        if s.startswith("if (undefined(name='" + nm.cond) and line.startswith("    if "):
            ev.append(["if"])
            continue
        if s.startswith("yield ") and "gettext" in s:
            ev.append(["transvars", V(re.findall(r"'(\w+)': \(", s.split(" % {", 1)[1] if " % {" in s else ""))])
            continue
        if s.startswith("yield "):
            for tid in re.findall(r"t_(\d+)\(", s):
                ev.append(["use", int(tid)])
    return ev


# ---------------------------------------------------------------------------
# TLC
# ---------------------------------------------------------------------------
def sw(**kw):
    d = {"branch": False, "dump": True, "deps": True, "assign": True, "public": True, "trans": True}
    d.update(kw)
    return d


def mc_module(stmts, switches):
    return f"""---- MODULE MC_IdTrackOrder ----
EXTENDS IdTrackOrder
mc_Stmts == {{{", ".join(core.tla_str(s) for s in stmts)}}}
mc_Switches == {{{", ".join(core.tla_str(s) for s in switches)}}}
mc_Private == {{{", ".join(map(str, PRIVATE))}}}
====
"""


def mc_cfg(maxstmts, negative=False):
    s = f"""CONSTANTS
  Stmts <- mc_Stmts
  Switches <- mc_Switches
  Private <- mc_Private
  MaxStmts = {maxstmts}
SPECIFICATION Spec
"""
    if negative:
        return s + "INVARIANT C30_AnySwitches\n"
    return s + "INVARIANT C30_OrderIndependent\nINVARIANT C30_LoadsIndependent\nINVARIANT C30_BranchOverwritesOnly\n"


def run_tlc(name, stmts, switches, maxstmts, negative=False, coverage=False, workers=8):
    d = core.workdir(PID, name + "_mc")
    mc = d / "MC_IdTrackOrder.tla"
    mc.write_text(mc_module(stmts, switches))
    return core.run_tlc(PID, "MC_IdTrackOrder", mc_cfg(maxstmts, negative), name=name, extra_modules=[mc],
                        coverage=coverage, workers=workers, timeout=3000)


def tlc_programs(records):
    seen = {}
    for b in records:
        k = json.dumps(b["prog"], sort_keys=True)
        if k in seen and (seen[k]["canon"] != b["canon"] or seen[k]["sites"] != b["sites"]):
            raise core.MachineryError(f"IdTrackOrder printed two canonical outputs for {k}")
        seen[k] = b
    return [seen[k] for k in sorted(seen)]


def canon_events(canon):
    """TLC's canonical instruction list in the vocabulary of project()"""
    return [list(e) for e in canon]


# ---------------------------------------------------------------------------
# CompileSession.tla: sequences of compilations (sync / async environments) in one process
# ---------------------------------------------------------------------------
# a unit = statements of the alphabet above; deps = the temporaries t_N its compilation allocates (its filters and
# tests).  The third unit is used in the thorough tier only.
SESSION_UNITS = [{"prog": [{"k": "set", "a": [[2, 1]]}, {"k": "out", "a": [[2, 1], []]}], "deps": 2},
                 {"prog": [{"k": "out", "a": [[3, 1, 2], [2, 1]]}, {"k": "macro", "a": [[2, 1, 3]]}], "deps": 5},
                 {"prog": [{"k": "if", "a": [[2], [3]]}, {"k": "include", "a": []}], "deps": 0}]
SESSION_SWITCHES = [{"copy": True, "reset": True}, {"copy": False, "reset": True}, {"copy": True, "reset": False}]
IMPORT_LINE = "from jinja2.runtime import "


def name_ranks(lists):
    """the names of runtime.exported / async_exported (read in a process that has not compiled anything) as
    numbers: rank in string order"""
    allnames = sorted(set(lists["exported"]) | set(lists["async_exported"]))
    rank = {n: i + 1 for i, n in enumerate(allnames)}
    return rank, [rank[n] for n in lists["exported"]], [rank[n] for n in lists["async_exported"]]


def run_session_tlc(name, lists, maxlen, nunits):
    _rank, exp, aexp = name_ranks(lists)
    d = core.workdir(PID, name + "_mc")
    mc = d / "MC_CompileSession.tla"
    mc.write_text(f"""---- MODULE MC_CompileSession ----
EXTENDS CompileSession
mc_Units == {{{", ".join(f"[id |-> {i + 1}, deps |-> {u['deps']}]" for i, u in enumerate(SESSION_UNITS[:nunits]))}}}
mc_Modes == {{"sync", "async"}}
mc_Exported == {core.tla_str(exp)}
mc_Async == {core.tla_str(aexp)}
mc_Switches == {{{", ".join(core.tla_str(x) for x in SESSION_SWITCHES)}}}
====
""")
    cfg = f"""CONSTANTS
  Units <- mc_Units
  Modes <- mc_Modes
  ExportedList <- mc_Exported
  AsyncList <- mc_Async
  Switches <- mc_Switches
  MaxLen = {maxlen}
SPECIFICATION Spec
INVARIANT C30_HistoryIndependent
INVARIANT C30_Repeatable
INVARIANT C30_SharedUntouched
"""
    return core.run_tlc(PID, "MC_CompileSession", cfg, name=name, extra_modules=[mc], workers=2, timeout=1200)


def session_records(r):
    """-> (sessions with the expected record of every compilation, leaking sessions per switched-off switch)"""
    sessions, leaks = {}, {"copy": 0, "reset": 0}
    for x in set(r.printed()):
        b = json.loads(x)
        if "leak" in b:
            for k in leaks:
                if not b["leak"][k]:
                    leaks[k] += 1
        else:
            sessions[json.dumps(b["session"])] = b
    return [sessions[k] for k in sorted(sessions)], leaks


def project_head(code, rank):
    """the import line (as ranks) and the numbers of the t_N dependency lines of a generated module"""
    imp = None
    for line in code.splitlines():
        if line.startswith(IMPORT_LINE):
            imp = [rank.get(n.strip(), -1) for n in line[len(IMPORT_LINE):].split(",")]
            break
    return {"imp": imp, "deps": [int(n) for n in re.findall(r"^\s+t_(\d+) = environment\.(?:filters|tests)\[", code, re.M)]}


def session_job(sessions):
    return [[[u - 1, m] for u, m in b["session"]] for b in sessions]


def run_compile_jobs(seeds, sessions, unit_sources, sources, tag):
    """one worker process per hash seed: it replays its share of the sessions (each in a forked child of its own;
    session i goes to worker i mod #seeds) and then compiles all the sources"""
    jobs = {s: {"units": unit_sources, "sessions": session_job(sessions[k::len(seeds)]), "sources": sources}
            for k, s in enumerate(seeds)}
    with ThreadPoolExecutor(len(seeds)) as ex:
        return dict(zip(seeds, ex.map(lambda s: run_worker(s, jobs[s], tag), seeds)))


def check_sessions(ck, unit_sources, sessions, lists, res, seeds):
    """every session TLC enumerated, as replayed by a forked child of one of the hash-seed workers"""
    rank, _e, _a = name_ranks(lists)
    ref = {}
    n = 0
    for si, b in enumerate(sessions):
        reported = False
        for s in [seeds[si % len(seeds)]]:
            ids = res[s]["sessions"][si // len(seeds)]
            table = res[s]["session_table"]
            for k, ((u, m), want) in enumerate(zip(b["session"], b["expect"])):
                code = table[ids[k]]
                if code.startswith("EXC "):
                    raise core.MachineryError(f"session unit does not compile: {unit_sources[u - 1]!r} ({m}): {code}")
                n += 1
                got = project_head(code, rank)
                case = {"kind": "session", "units": unit_sources, "session": b["session"], "step": k, "seed": s,
                        "expected": want, "actual": got}
                before = [f"{unit_sources[x - 1]!r} ({y})" for x, y in b["session"][:k]]
                if got != want and not reported:
                    reported = True
                    instr = "import" if got["imp"] != want["imp"] else "deps"
                    inv = {v: k2 for k2, v in rank.items()}
                    shown = ([inv.get(x, "?") for x in got["imp"] or []], [inv.get(x, "?") for x in want["imp"]]) \
                        if instr == "import" else (got["deps"], want["deps"])
                    ck.violation(case, f"one process compiles {before} and then {unit_sources[u - 1]!r} with a {m} "
                                       f"environment: the {instr} line(s) of the generated code are {shown[0]}, the "
                                       f"specification (a process that compiled nothing before) has {shown[1]}",
                                 {"kind": "history-dependent-code", "instr": instr})
                key = (u, m)
                if key not in ref:
                    ref[key] = (code, b["session"], k, s)
                elif ref[key][0] != code and not reported:
                    reported = True
                    a, c2 = ref[key][0].splitlines(), code.splitlines()
                    j = next((i for i in range(min(len(a), len(c2))) if a[i] != c2[i]), min(len(a), len(c2)))
                    ck.violation(dict(case, other={"session": ref[key][1], "step": ref[key][2], "seed": ref[key][3]}),
                                 f"{unit_sources[u - 1]!r} ({m}) compiled after {before} differs at line {j + 1} from the same "
                                 f"compilation in another process / at another position: "
                                 f"{(c2[j].strip() if j < len(c2) else '<end>')!r} vs {(a[j].strip() if j < len(a) else '<end>')!r}",
                                 {"kind": "history-dependent-code", "instr": "bytes"})
    return n


# ---------------------------------------------------------------------------
# corpus for byte-identity only
# ---------------------------------------------------------------------------
def big_templates(rnd, names, n):
    out = []
    counter = itertools.count()
    wrappers = [
        lambda b: "{% for zi in zs %}" + b + "{% endfor %}",
        lambda b: "{% block zb" + str(next(counter)) + " %}" + b + "{% endblock %}",
        lambda b: "{% macro zouter(za, zb=1) %}" + b + "{{ varargs }}{{ kwargs }}{% endmacro %}",
        lambda b: "{% call zw() %}" + b + "{% endcall %}",
        lambda b: "{% with zq = 1 %}" + b + "{% endwith %}",
        lambda b: "{% filter upper %}" + b + "{% endfilter %}",
        lambda b: "{% set zcap %}" + b + "{% endset %}",
        lambda b: "{% if zcond %}" + b + "{% else %}" + b + "{% endif %}",
        lambda b: b,
    ]
    for _ in range(n):
        parts = []
        for j in range(rnd.randint(2, 4)):
            nm = Namer(names, suffix=rnd.choice(["", "x", "y"]))
            body = "".join(unparse_stmt(rnd.choice(STMTS), nm) for _ in range(rnd.randint(1, 4)))
            if rnd.random() < 0.1:
                body += "{% trans %}{{ " + nm.v[2] + " }}{% endtrans %}"      # one free name: no set order involved
            w1, w2 = rnd.choice(wrappers), rnd.choice(wrappers)
            cand = w1(w2(body)) if rnd.random() < 0.5 else w1(body)
            parts.append(cand)
        out.append("".join(parts))
    return out


def repo_templates():
    out = []
    for d in ("tests/res/templates", "tests/res/templates2"):
        p = core.REPO / d
        if p.is_dir():
            for f in sorted(p.rglob("*")):
                if f.is_file():
                    try:
                        out.append(f.read_text(encoding="utf-8"))
                    except (OSError, UnicodeDecodeError):
                        pass
    return out


# ---------------------------------------------------------------------------
def report_diff(ck, kind, src, codes, seeds, extra=None):
    base = codes[seeds[0]]
    for s in seeds[1:]:
        if codes[s] != base:
            a, b = base.splitlines(), codes[s].splitlines()
            k = next((i for i in range(min(len(a), len(b))) if a[i] != b[i]), min(len(a), len(b)))
            line_a = a[k].strip() if k < len(a) else "<end>"
            line_b = b[k].strip() if k < len(b) else "<end>"
            site = ("i18n-trans" if "{% trans" in src else
                    "pull_dependencies" if "environment.filters[" in line_a or "environment.tests[" in line_a else
                    "pop_assign_tracking" if "context.vars.update" in line_a or "exported_vars" in line_a else
                    "dump_stores" if "new_context(" in line_a or ".derived(" in line_a else
                    "loads" if " = missing" in line_a or "resolve(" in line_a else "other")
            ck.violation(dict({"kind": kind, "source": src, "seeds": [seeds[0], s], "line": k + 1,
                               "seed_a": line_a, "seed_b": line_b}, **(extra or {})),
                         f"generated code differs between PYTHONHASHSEED={seeds[0]} and {s} at line {k + 1}: "
                         f"{line_a!r} vs {line_b!r}  (template {src[:120]!r})",
                         {"kind": "seed-dependent-code", "site": site})
            return True
    return False


def load_own_findings(ck):
    """findings.d/C30.json holds the genuine defects this check found; until the maintainer has merged
    them into known_findings.json they are matched from there."""
    f = core.VERIF / "findings.d" / f"{PID}.json"
    if f.exists():
        have = {k["id"] for k in core.load_known()}      # merged entries (open or fixed) win
        ck._known += [k for k in json.loads(f.read_text())
                      if k["property"] == PID and k.get("status") == "open" and k["id"] not in have]


def run(ck):
    core.use_repo()
    load_own_findings(ck)
    quick = ck.tier == "quick"
    rnd = random.Random(ck.seed * 65537 + 30)
    seeds = [0, 1, 2, 3] if quick else [0, 1, 2, 3, 4, 5] + [rnd.randrange(6, 2 ** 32 - 1) for _ in range(2)]
    t0 = time.time()
    # --- names whose set order varies with the seed; runtime.exported as a fresh process sees it
    names, lists = choose_names(ck, seeds, rnd)
    nm = Namer(names)
    # --- model checking
    maxst = 2 if quick else 3
    # sequences of compilations in one process (CompileSession.tla), side by side with the runs below
    # (a process per session is what costs: about 0.2 CPU-s each; quick 16 sessions, thorough 216)
    maxlen = 2 if quick else 3
    pool = ThreadPoolExecutor(1)
    nunits = 2 if quick else 3
    f_sess = pool.submit(run_session_tlc, "session", lists, maxlen, nunits)
    # one run: the switches as in the code (branch site sorted or not), and - for programs of <= 2
    # statements as well - every sorted site switched off in turn (negative controls: the model
    # reports the orders that change the output)
    offs = [sw(**{site: False}) for site in ("dump", "deps", "assign", "public")]
    r = run_tlc("main", STMTS, [sw(), sw(branch=True)] + (offs if quick else []), maxst, coverage=quick,
                workers=8 if quick else 14)
    ck.add_tlc(r, f"IdTrackOrder: every program of <= {maxst} statements over {len(STMTS)} statements, every iteration order")
    if quick:
        ck.require_coverage(r, ["Pick", "Go", "Analyze", "EnterFrame", "Deps", "Emit", "Done"])
    printed = [json.loads(x) for x in set(r.printed())]
    if not quick:
        rn = run_tlc("neg", STMTS, offs, 2, workers=4)
        ck.add_tlc(rn, "IdTrackOrder negative controls (each sorted site switched off)")
        printed += [json.loads(x) for x in set(rn.printed())]
    # the i18n extension's iteration over the free names of a trans block: unsorted (the tree before
    # repair 3239c13, finding F30a) next to sorted (the code now)
    tstm = TRANS_STMTS + [STMTS[1], STMTS[5], STMTS[12]]
    rt = run_tlc("trans", tstm, [sw(trans=False), sw()], 2, workers=4)
    ck.add_tlc(rt, "IdTrackOrder: programs with trans blocks, trans site unsorted (pre-repair) and sorted")
    tprinted = [json.loads(x) for x in set(rt.printed())]
    tleaks = [b for b in tprinted if "leak" in b and not b["leak"]["trans"]]
    ck.extra["model_trans_programs_order_dependent_when_unsorted"] = len({json.dumps(b["prog"]) for b in tleaks})
    if not tleaks:
        raise core.MachineryError("the model does not show the order dependence of the trans site")
    printed += [b for b in tprinted if "canon" in b and any(s["k"] == "trans" for s in b["prog"])]
    progs = tlc_programs([b for b in printed if "canon" in b])
    if not progs:
        raise core.MachineryError("IdTrackOrder printed no programs")
    neg = {site: 0 for site in ("dump", "deps", "assign", "public")}
    for b in printed:
        if "leak" in b and b["leak"]["trans"]:
            for site in neg:
                if not b["leak"][site]:
                    neg[site] += 1
    for site, cnt in neg.items():
        if cnt == 0:
            raise core.MachineryError(f"negative control: switching off sorted() at site {site} never changes the output")
    ck.extra["negative_controls_programs_with_order_dependent_output"] = neg
    ck.extra["load_bearing_sorted_calls"] = {"dump_stores": True, "pull_dependencies": True,
                                             "pop_assign_tracking sorted(vars)": True,
                                             "pop_assign_tracking sorted(public_names)": True,
                                             "branch_update (unsorted in the code)": False,
                                             "ext.i18n parse: sorted(referenced) (added by repair 3239c13)": True}
    rs = f_sess.result()
    pool.shutdown()
    ck.add_tlc(rs, f"CompileSession: every sequence of {maxlen} compilations over {nunits} units x sync / async, "
                   f"switches as in the code + each one off")
    sessions, sleaks = session_records(rs)
    ck.extra["negative_controls_sessions_with_history_dependent_output"] = sleaks
    if len(sessions) != (2 * nunits) ** maxlen:
        raise core.MachineryError(f"CompileSession printed {len(sessions)} sessions")
    for k, cnt in sleaks.items():
        if cnt == 0:
            raise core.MachineryError(f"negative control: switch {k} off never makes the output depend on the history")
    t1 = time.time()
    # --- real compilations
    sources = [unparse(p["prog"], nm) for p in progs]
    nbig = 150 if quick else 1500
    extra = big_templates(rnd, names, nbig) + repo_templates()
    unit_sources = [unparse(u["prog"], nm) for u in SESSION_UNITS[:nunits]]
    res = run_compile_jobs(seeds, sessions, unit_sources, sources + extra, "compile")
    t2 = time.time()
    nsess = check_sessions(ck, unit_sources, sessions, lists, res, seeds)
    ck.extra["sessions"] = {"sessions": len(sessions), "compilations_compared": nsess}
    site_cov = {s: 0 for s in SITES}
    n = 0
    for idx, p in enumerate(progs):
        src = sources[idx]
        codes = {s: res[s]["codes"][idx] for s in seeds}
        n += 1
        for s in p["sites"]:
            site_cov[s] += 1
        if codes[seeds[0]].startswith("EXC "):
            raise core.MachineryError(f"generated template does not compile: {src!r}: {codes[seeds[0]]}")
        if not all(res[s]["again"][idx] for s in seeds):
            ck.violation({"kind": "repeat", "source": src, "prog": p["prog"]},
                         f"compiling {src!r} twice in one process gives different code", {"kind": "repeat-differs"})
            continue
        if report_diff(ck, "program", src, codes, seeds, {"prog": p["prog"], "names": names}):
            continue
        got = project(codes[seeds[0]], nm)
        want = canon_events(p["canon"])
        if got != want:
            k = next((i for i in range(min(len(got), len(want))) if got[i] != want[i]), min(len(got), len(want)))
            ck.violation({"kind": "projection", "source": src, "prog": p["prog"], "names": names, "expected": want,
                          "actual": got},
                         f"generated code of {src!r}: instruction {k} is {got[k] if k < len(got) else None}, the "
                         f"specification's canonical order has {want[k] if k < len(want) else None}",
                         {"kind": "canonical-order", "instr": (want[k][0] if k < len(want) else "extra")})
        elif idx % 97 == 0:
            ck.sample({"template": src, "canonical": want, "sites": p["sites"]})
    nb = 0
    for j, src in enumerate(extra):
        idx = len(sources) + j
        codes = {s: res[s]["codes"][idx] for s in seeds}
        nb += 1
        if not all(res[s]["again"][idx] for s in seeds):
            ck.violation({"kind": "repeat", "source": src}, f"compiling {src[:100]!r} twice gives different code",
                         {"kind": "repeat-differs"})
        else:
            report_diff(ck, "corpus", src, codes, seeds)
    # the same templates compiled by async environments in between: twice per process, every seed
    na = 0
    for idx, src in enumerate(sources + extra):
        acodes = {s: res[s]["acodes"][idx] for s in seeds}
        if acodes[seeds[0]].startswith("EXC ") and not res[seeds[0]]["codes"][idx].startswith("EXC "):
            raise core.MachineryError(f"template compiles with a sync but not with an async environment: {src!r}: "
                                      f"{acodes[seeds[0]]}")
        na += 1
        if not all(res[s]["aagain"][idx] for s in seeds):
            ck.violation({"kind": "repeat", "mode": "async", "source": src},
                         f"compiling {src[:100]!r} twice with async environments in one process gives different code",
                         {"kind": "repeat-differs"})
        else:
            report_diff(ck, "async", src, acodes, seeds, {"mode": "async"})
    ck.extra["async_compilations_compared"] = na
    ck.traces += n + nb + len(sessions)
    ck.evaluations += (n + nb) * len(seeds) * 4 + nsess
    ck.exhaustive = False
    ck.extra["seeds"] = seeds
    ck.extra["programs"] = n
    ck.extra["corpus_templates"] = nb
    ck.extra["corpus_not_compiling"] = sum(1 for j in range(len(extra)) if res[seeds[0]]["codes"][len(sources) + j].startswith("EXC "))
    ck.extra["site_coverage_programs_iterating_a_set_of_2_or_more"] = site_cov
    for s in SITES:
        if site_cov[s] == 0:
            raise core.MachineryError(f"site {s} is not exercised by any program")
    ck.extra["phase_s"] = {"tlc": round(t1 - t0, 1), "compile": round(t2 - t1, 1), "compare": round(time.time() - t2, 1)}
    ck.extra["excluded_shapes"] = ["the model covers the top-level frame (no parent symbols: the alias branch of "
                                   "branch_update is exercised by the corpus only)",
                                   "extensions other than i18n's trans block (loopcontrols, do, debug); async code "
                                   "generation is compared byte for byte only (no projection on the model)"]
    ck.assumptions += ["set iteration order of str depends only on PYTHONHASHSEED (CPython); verified for the chosen "
                       "names: every subset of size 2..4 iterates in at least two different orders over the seeds"]


def replay(ck, rec):
    core.use_repo()
    load_own_findings(ck)
    c = rec["case"]
    seeds = c.get("seeds") or [0, 1, 2, 3]
    if len(seeds) < 4:
        seeds = sorted(set(seeds) | {0, 1, 2, 3})
    if c["kind"] == "session":
        lists = {k: v for k, v in run_seeds(seeds[:1], {"runtime_lists": True}, "replay")[seeds[0]].items()
                 if k in ("exported", "async_exported")}
        r = run_session_tlc("replay", lists, len(c["session"]), len(c["units"]))
        ck.add_tlc(r, "CompileSession replay")
        # (a byte difference is one between two sessions of the same length: both are replayed)
        wanted = [c["session"]] + ([c["other"]["session"]] if len(c.get("other", {}).get("session", [])) == len(c["session"]) else [])
        sessions = [b for b in session_records(r)[0] if b["session"] in wanted]
        sessions.sort(key=lambda b: wanted.index(b["session"]), reverse=True)
        if not sessions:
            raise core.MachineryError("replay: TLC did not produce the recorded session")
        res = run_compile_jobs(seeds[:1], sessions, c["units"], [], "replay")
        check_sessions(ck, c["units"], sessions, lists, res, seeds[:1])
        return
    res = run_seeds(seeds, {"sources": [c["source"]]}, "replay")
    asy = c.get("mode") == "async"
    codes = {s: res[s]["acodes" if asy else "codes"][0] for s in seeds}
    if c["kind"] == "repeat":
        if not all(res[s]["aagain" if asy else "again"][0] for s in seeds):
            ck.violation(c, "still differs between two compilations", rec.get("fingerprint"))
        return
    if report_diff(ck, c["kind"], c["source"], codes, seeds):
        return
    if c["kind"] == "projection":
        nm = Namer(c["names"])
        r = run_tlc("replay", [s for s in STMTS + TRANS_STMTS if s in c["prog"]], [sw()], len(c["prog"]), workers=2)
        for p in tlc_programs([json.loads(x) for x in set(r.printed())]):
            if p["prog"] == c["prog"] and project(codes[seeds[0]], nm) != canon_events(p["canon"]):
                ck.violation(c, "projection still differs from the canonical order", rec.get("fingerprint"))
