"""C13 - equivalent syntax configurations render identically.

Specs
  spec/Lexer.tla + LexerRules.tla   the same PROGRAM (piece sequence) written for several
      delimiter configurations, and with whole-line tags written as line statements / line
      comments: TLC checks C13_TranslationPreservesOutput (the declared renderings agree) next
      to operational = declared for every variant, and prints the expected text.
  spec/LexerCache.tla               histories of NewEnv / Overlay / TemplateCtor / UseLexer / Flood
      over configurations that differ in exactly one of the 12 get_lexer key fields:
      C13_CacheKeepsConfigsApart (each environment lexes as configured by its own options).
Binding
  * every variant is rendered by the real engine through Environment.from_string,
    Template(source, **options) and a chain of Environment.overlay calls; all must give the
    text the specification expects;
  * every history TLC enumerates is replayed in ONE process against the real get_lexer /
    get_spontaneous_environment / overlay; after each creation all earlier environments
    are rendered again.
"""
from __future__ import annotations

import json
import random
import time

from .. import core
from .. import lexer_util as lu

FAMILY_CHAIN = ["default", "asp", "multi", "pct", "angle"]

C13_INV = ["InputsWellFormed", "C12_StructuredSourcesLex", "C12_OperationalEqualsDeclared",
           "C12_OnlyWhitespaceRemoved", "C39_LineAccurate", "C39_Lossless", "C13_TranslationPreservesOutput"]


def load_local_findings(ck):
    """findings.d/C13.json is merged into known_findings.json by the maintainer; until then
    honour it here so that the documented line-comment discrepancy is reported as KNOWN-FINDING."""
    f = core.VERIF / "findings.d" / "C13.json"
    if f.exists():
        have = {k["id"] for k in ck._known}
        for k in json.loads(f.read_text()):
            if k.get("property") == "C13" and k.get("status") == "open" and k["id"] not in have:
                ck._known.append(k)


# --------------------------------------------------------------------------
# real side: three ways to obtain a template for (options, source)
# --------------------------------------------------------------------------
def _three_ways(items):
    from jinja2 import Environment, Template
    out = []
    for key, opts, source in items:
        o = dict(opts)
        res = {}
        try:
            res["env"] = lu._get_env(opts).from_string(source).render()
        except Exception as e:  # noqa
            res["env"] = ["raise", type(e).__name__, str(e)[:200]]
        try:
            res["ctor"] = Template(source, **o).render()
        except Exception as e:  # noqa
            res["ctor"] = ["raise", type(e).__name__, str(e)[:200]]
        try:
            # a base environment with every boolean option inverted and other prefixes, then two overlays
            base = Environment(trim_blocks=not o["trim_blocks"], lstrip_blocks=not o["lstrip_blocks"],
                               keep_trailing_newline=not o["keep_trailing_newline"],
                               newline_sequence="\r" if o["newline_sequence"] != "\r" else "\n",
                               line_statement_prefix="!!", line_comment_prefix="!#")
            base_src = "{% set v = 1 %}\n  {{ 'V' }}\n  {# c #}\n!! set v = 2\nx !# c\n"
            before = base.from_string(base_src).render()
            o1 = base.overlay(block_start_string=o["block_start_string"], block_end_string=o["block_end_string"],
                              variable_start_string=o["variable_start_string"],
                              variable_end_string=o["variable_end_string"],
                              comment_start_string=o["comment_start_string"],
                              comment_end_string=o["comment_end_string"])
            o2 = o1.overlay(trim_blocks=o["trim_blocks"], lstrip_blocks=o["lstrip_blocks"],
                            keep_trailing_newline=o["keep_trailing_newline"],
                            newline_sequence=o["newline_sequence"],
                            line_statement_prefix=o["line_statement_prefix"],
                            line_comment_prefix=o["line_comment_prefix"])
            res["overlay"] = o2.from_string(source).render()
            # the environments the overlays were made from still behave as configured
            res["base_still"] = [before, o1.from_string(source).render() is None,
                                 base.from_string(base_src).render()]
        except Exception as e:  # noqa
            res["overlay"] = ["raise", type(e).__name__, str(e)[:200]]
        out.append((key, res))
    return out


def three_ways(items):
    import multiprocessing as mp
    import os
    batches = list(core.chunks(items, 800))
    res = {}
    if len(batches) <= 1:
        for b in batches:
            res.update(dict(_three_ways(b)))
        return res
    with mp.get_context("fork").Pool(min(16, os.cpu_count() or 4, len(batches))) as pool:
        for part in pool.imap_unordered(_three_ways, batches):
            res.update(dict(part))
    return res


def check_variants(ck, recs, cases, allcfgs):
    """Every finished case: the three entry points must render the expected text;
    all variants of one program must be expected to render, and render, the same text."""
    items, meta = [], {}
    for rec in recs:
        case = cases[rec["id"] - 1]
        cfg = allcfgs[case["c"]]
        cmap = lu.VARIANTS[case["variant"]]
        source = lu.concretise(rec["raw"], cmap)
        expected = lu.concretise(rec["out"], cmap)
        items.append((rec["id"], tuple(sorted(lu.env_options(cfg).items())), source))
        meta[rec["id"]] = (case, cfg, source, expected)
    real = three_ways(items)
    by_prog = {}
    for rid, (case, cfg, source, expected) in meta.items():
        res = real[rid]
        for way in ("env", "ctor", "overlay"):
            if res.get(way) != expected:
                ck.violation({"kind": "variant", "way": way, "cfg": cfg, "source": source, "expected": expected,
                              "actual": res.get(way), "program": case["prog"]},
                             f"{cfg['name']} via {way}: {source!r} renders {res.get(way)!r}, expected {expected!r}",
                             {"kind": "variant-render", "way": way, "cfg": cfg["name"]})
                break
        bs = res.get("base_still")
        if bs is not None and bs[0] != bs[2]:
            ck.violation({"kind": "variant", "way": "base", "cfg": cfg, "source": source, "actual": res.get("base_still")},
                         f"environment changed by overlay(): rendered {bs[0]!r} before, {bs[2]!r} after", {"kind": "overlay-base"})
        by_prog.setdefault((case["prog"], case.get("group", "")), []).append((cfg["name"], source, expected, res.get("env")))
    for (prog, group), lst in by_prog.items():
        outs = {x[3] if isinstance(x[3], str) else json.dumps(x[3]) for x in lst}
        if len(outs) > 1:
            fp = {"kind": "linecomment-keeps-newline"} if group == "literal-comment" else {"kind": "variants-differ"}
            ck.violation({"kind": "variants-differ", "group": group, "variants": lst},
                         f"equivalent configurations render differently: {[(x[0], x[1], x[3]) for x in lst][:4]}", fp)
    ck.traces += len(recs) * 3
    ck.evaluations += len(recs) * 3


# --------------------------------------------------------------------------
# programs
# --------------------------------------------------------------------------
def line_program(rng, literal_comment=False):
    """A program made of whole lines, returned in block form (A), in line form (B) and in a MIXED
    form (M: every whole-line tag independently in one of its two spellings, so that line statements
    / line comments and block tags / comments stand on neighbouring lines; None when there is no
    spelling besides A and B).
    Whole-line block tag  <indent>{% B %}\\n   <->  <indent>% B\\n
    Whole-line comment    <indent>{# c +#}\\n  <->  <indent>## c\\n   (the documentation: a line
    comment runs to the end of the line 'excluding the newline sign'); with literal_comment the
    comment is written {# c #} as the property states it.
    The line after a line statement is never blank (undetermined shape); it may be a text line or,
    just as well, the next (indented) tag line."""
    rows = []    # (block spelling, line spelling) per line; the same list twice for a text line
    n = rng.randint(2, 6)
    has_comment = False
    for i in range(n):
        last = i == n - 1
        nl = "" if last and rng.random() < 0.4 else "n"
        x = rng.random()
        indent = rng.choice(["", "", "__", "t", "_t"])
        if x < 0.35:
            body = rng.choice(["_B", "_B_", "B", "tB"])
            blk = ([lu.text(indent)] if indent else []) + [lu.P("block", "", "", body)] + ([lu.text(nl)] if nl else [])
            rows.append((blk, [lu.P("lstmt", b=body, i=indent, t=nl)]))
            if nl and not last and rng.random() < 0.5:
                t = [lu.text(rng.choice(["a", "a_", "_a"]) + "n")]
                rows.append((t, t))
        elif x < 0.6:
            body = rng.choice(["_a", "a_a", "_a_", ""])
            has_comment = True
            blk = ([lu.text(indent)] if indent else [])
            blk += [lu.P("comment", "", "" if literal_comment else "+", body if body else "_")]
            blk += [lu.text(nl)] if nl else []
            rows.append((blk, [lu.P("lcomment", b=body if body else "_", i=indent)] + ([lu.text(nl)] if nl else [])))
        else:
            t = [lu.text(rng.choice(["a", "_a", "a_a", "a_"]))]
            if rng.random() < 0.4:
                t.append(lu.P("var", rng.choice(["", "-"]), "", "_V_"))
            if nl:
                t.append(lu.text(nl))
            rows.append((t, t))
    a = [p for blk, _ in rows for p in blk]
    b = [p for _, lin in rows for p in lin]
    m = None
    two = [j for j, (blk, lin) in enumerate(rows) if blk is not lin]
    if len(two) >= 2:
        pick = [rng.random() < 0.5 for _ in two]
        if all(pick) or not any(pick):
            pick[rng.randrange(len(pick))] ^= True
        as_line = {j for j, f in zip(two, pick) if f}
        m = [p for j, (blk, lin) in enumerate(rows) for p in (lin if j in as_line else blk)]
    return a, b, has_comment, m


# --------------------------------------------------------------------------
# LexerCache
# --------------------------------------------------------------------------
FIELD_NAMES = ["bs", "be", "vs", "ve", "cs", "ce", "lsp", "lcp", "trim", "lstrip", "nl", "keep"]
FIELD_VARIANT = {"bs": list("<%"), "be": list("%>"), "vs": list("<<"), "ve": list(">>"), "cs": list("<#"),
                 "ce": list("#>"), "lsp": list("@"), "lcp": list("//"), "trim": False, "lstrip": False,
                 "nl": list("rn"), "keep": True}
OPTION_OF = {"bs": "block_start_string", "be": "block_end_string", "vs": "variable_start_string",
             "ve": "variable_end_string", "cs": "comment_start_string", "ce": "comment_end_string",
             "lsp": "line_statement_prefix", "lcp": "line_comment_prefix", "trim": "trim_blocks",
             "lstrip": "lstrip_blocks", "nl": "newline_sequence", "keep": "keep_trailing_newline"}


def cache_cfgs():
    base = lu.make_cfg("default", trim=True, lstrip=True, lsp="%", lcp="##")
    base["name"] = "cache/0"
    out = [base]
    for i, f in enumerate(FIELD_NAMES, 1):
        c = dict(base)
        c[f] = FIELD_VARIANT[f]
        c["name"] = f"cache/{i}:{f}"
        out.append(c)
    return out


PROBE = [lu.text("an"), lu.text("__"), lu.P("block", "", "", "_B_"), lu.text("n"), lu.P("var", "", "", "_V_"),
         lu.text("_"), lu.P("comment", "", "", "_a_"), lu.text("n"), lu.P("lstmt", b="_B", i="_", t="n"), lu.text("a"),
         lu.P("lcomment", b="_a"), lu.text("n"), lu.text("__"), lu.P("rawopen", "", "", "_R_"), lu.text("a_"),
         lu.P("rawclose", "", "", "_E_"), lu.text("n"), lu.text("an")]


def cache_cfg_text(cfgs, keyfields, cap, spontcap, maxhist, emit):
    return (
        "CONSTANTS\n"
        f"  Cfgs = {{{', '.join(map(str, cfgs))}}}\n  KeyFields = {{{', '.join(map(str, keyfields))}}}\n"
        f"  Cap = {cap}\n  SpontCap = {spontcap}\n  MaxHist = {maxhist}\n  Emit = {core.tla_str(emit)}\n"
        "SPECIFICATION Spec\nINVARIANT C13_CacheKeepsConfigsApart\nINVARIANT C13_CacheEntriesConsistent\n"
        "INVARIANT C13_SpontaneousEnvsConsistent\n"
    )


def run_cache(ck, rng, quick):
    from jinja2 import Environment, Template

    cfgs = cache_cfgs()
    # what each configuration must render for its own spelling of the probe program: from Lexer.tla
    cases = [{"ps": PROBE, "c": i, "st": True} for i in range(len(cfgs))]
    r, recs = lu.run_lexer("C13", "probe", cases=cases, cfgs=cfgs, invariants=C13_INV, workers=4)
    ck.add_tlc(r, "Lexer (probe program under the 13 cache configurations)")
    if len(recs) != len(cfgs):
        raise core.MachineryError("probe program: TLC did not finish every configuration")
    cmap = lu.VARIANTS[0]
    src, exp, opts = {}, {}, {}
    for rec in recs:
        i = rec["id"] - 1
        src[i] = lu.concretise(rec["raw"], cmap)
        exp[i] = lu.concretise(rec["out"], cmap)
        opts[i] = lu.env_options(cfgs[i])
    ck.extra["probe"] = {cfgs[i]["name"]: [src[i], exp[i]] for i in sorted(src)}

    # model checking + enumeration of histories
    d = 3 if quick else 4
    r = core.run_tlc("C13", "LexerCache", cache_cfg_text(range(13), range(1, 13), 2, 2, d, True),
                     coverage=quick, name="cache", timeout=3000)
    ck.add_tlc(r, f"LexerCache (13 configurations, histories <= {d}, LRU capacities shrunk to 2)")
    if quick:
        ck.require_coverage(r, ["NewEnv", "TemplateCtor", "Flood"])
    # vacuity guard: with a field missing from the key the model must break
    r2 = core.run_tlc("C13", "LexerCache", cache_cfg_text([0, 9], [f for f in range(1, 13) if f != 9], 2, 2, 4, False),
                      name="cache-mutant", workers=2, timeout=600)
    ck.add_tlc(r2, "LexerCache with trim_blocks removed from the key (must violate)", expect_ok=False)
    if "C13_CacheKeepsConfigsApart" not in r2.invariant_violated:
        raise core.MachineryError("LexerCache invariant is vacuous: a key without trim_blocks does not violate it")
    hists = sorted(set(r.printed()))
    hists = [json.loads(h) for h in hists if h.startswith("[")]
    if not hists:
        raise core.MachineryError("LexerCache.tla printed no histories")
    ck.extra["cache_histories_enumerated"] = len(hists)
    seen_ops = {ev[0] for h in hists for ev in h}
    if seen_ops != {"new", "overlay", "template", "use", "flood"}:
        raise core.MachineryError(f"vacuous model: LexerCache histories only contain {sorted(seen_ops)}")
    budget = 3000 if quick else 25000
    if len(hists) > budget:
        pairs = [h for h in hists if sum(1 for ev in h if ev[0] == "use") >= 1
                 and len({ev[1] for ev in h if ev[0] in ("new", "template")}) >= 2]
        rng.shuffle(pairs)
        rest = [h for h in hists if h not in pairs[:budget // 2]] if len(hists) < 20000 else hists
        rng.shuffle(rest)
        hists = pairs[:budget // 2] + rest[:budget - min(len(pairs), budget // 2)]
        ck.exhaustive = False

    def render_env(env, c):
        try:
            return env.from_string(src[c]).render()
        except Exception as e:  # noqa
            return ["raise", type(e).__name__, str(e)[:200]]

    flood_n = [0]

    def flood():
        for _ in range(51):
            flood_n[0] += 1
            Environment(line_comment_prefix=f"//{flood_n[0]}//").lexer  # noqa
        for _ in range(11):
            flood_n[0] += 1
            Template("", line_comment_prefix=f"//{flood_n[0]}//")

    n = 0
    t0 = time.time()
    for h in hists:
        envs = []   # (environment, configuration id)
        for step, ev in enumerate(h):
            created = False
            bad = None
            if ev[0] == "new":
                envs.append((Environment(**opts[ev[1]]), ev[1]))
                created = True
            elif ev[0] == "overlay":
                e0, c0 = envs[ev[1] - 1]
                c1 = ev[2]
                f = FIELD_NAMES[(c1 if c1 else c0) - 1]
                envs.append((e0.overlay(**{OPTION_OF[f]: opts[c1][OPTION_OF[f]]}), c1))
                created = True
            elif ev[0] == "template":
                c = ev[1]
                try:
                    t = Template(src[c], **opts[c])
                    got = t.render()
                except Exception as e:  # noqa
                    t, got = None, ["raise", type(e).__name__, str(e)[:200]]
                if got != exp[c]:
                    bad = (c, "Template(source, **options)", got)
                if t is not None and ev[2] == len(envs) + 1:
                    envs.append((t.environment, c))
                    created = True
            elif ev[0] == "use":
                e0, c0 = envs[ev[1] - 1]
                got = render_env(e0, c0)
                if got != exp[c0]:
                    bad = (c0, "from_string", got)
            elif ev[0] == "flood":
                flood()
            if bad is None and created:
                # creating an environment must not change how the earlier ones render
                for e0, c0 in envs:
                    got = render_env(e0, c0)
                    if got != exp[c0]:
                        bad = (c0, "from_string after a later environment was created", got)
                        break
            if bad:
                c0, how, got = bad
                other = sorted({c for _, c in envs} | {ev[1] for ev in h[:step + 1] if ev[0] == "template"})
                field = [FIELD_NAMES[c - 1] for c in other if c] or ["?"]
                ck.violation({"kind": "cache-history", "history": h, "step": step, "config": cfgs[c0]["name"],
                              "source": src[c0], "expected": exp[c0], "actual": got, "how": how},
                             f"history {h[:step + 1]}: environment configured as {cfgs[c0]['name']} renders {got!r} "
                             f"via {how}, its own options give {exp[c0]!r}",
                             {"kind": "cache-history", "fields": field[:1]})
                break
        n += 1
    ck.traces += n
    ck.extra["cache_histories_replayed"] = n
    ck.extra["cache_replay_s"] = round(time.time() - t0, 2)


def run(ck):
    load_local_findings(ck)
    quick = ck.tier == "quick"
    rng = random.Random(ck.seed)

    # (1) delimiter families: one program, five spellings, chained as alt of each other
    allcfgs = []
    idx = {}
    for fam in FAMILY_CHAIN:
        for t, l in ((False, False), (True, True), (True, False), (False, True)):
            for keep, nl in ((False, "n"), (True, "rn")):
                idx[(fam, t, l, keep)] = len(allcfgs)
                allcfgs.append(lu.make_cfg(fam, trim=t, lstrip=l, keep=keep, nl=nl))
    line_a = {}
    for fam in ("default", "multi"):
        lsp, lcp = ("%", "##") if fam == "default" else ("@", "//")
        for keep in (False, True):
            line_a[(fam, keep, "plain")] = len(allcfgs)
            allcfgs.append(lu.make_cfg(fam, trim=True, lstrip=True, keep=keep))
            line_a[(fam, keep, "line")] = len(allcfgs)
            allcfgs.append(lu.make_cfg(fam, trim=True, lstrip=True, keep=keep, lsp=lsp, lcp=lcp))
    cases = []
    n_prog = 250 if quick else 8000
    for pi in range(n_prog):
        ps = lu.gen_structured(rng, allcfgs[0], rng.randint(3, 7), raw_text_only=True)
        t, l = rng.choice(((False, False), (True, True), (True, False), (False, True)))
        keep = rng.random() < 0.3
        variant = rng.randrange(len(lu.VARIANTS))
        for j, fam in enumerate(FAMILY_CHAIN):
            nxt = FAMILY_CHAIN[(j + 1) % len(FAMILY_CHAIN)]
            cases.append({"ps": ps, "c": idx[(fam, t, l, keep)], "st": True, "prog": f"d{pi}", "variant": variant,
                          "alt": {"ps": ps, "c": idx[(nxt, t, l, keep)]}})
    # (2) whole-line tags as line statements / line comments, in a trimming + left-stripping environment
    n_line = 350 if quick else 10000
    n_mixed = 0
    for pi in range(n_line):
        a, b, _, m = line_program(rng)
        fam = rng.choice(("default", "multi"))
        keep = rng.random() < 0.3
        variant = rng.randrange(len(lu.VARIANTS))
        ca, cb = line_a[(fam, keep, "plain")], line_a[(fam, keep, "line")]
        cases.append({"ps": a, "c": ca, "st": True, "prog": f"l{pi}", "variant": variant, "alt": {"ps": b, "c": cb}})
        cases.append({"ps": a, "c": cb, "st": True, "prog": f"l{pi}", "variant": variant, "alt": {"ps": b, "c": cb}})
        cases.append({"ps": b, "c": cb, "st": True, "prog": f"l{pi}", "variant": variant, "alt": {"ps": a, "c": ca}})
        if m is not None:
            # only some of the whole-line tags rewritten: line statements next to block tags
            cases.append({"ps": m, "c": cb, "st": True, "prog": f"l{pi}", "variant": variant, "alt": {"ps": a, "c": ca}})
            n_mixed += 1
    # (3) the property read literally: whole-line {# c #} <-> ## c  (no TLC equality asserted: the
    #     documented rules themselves say the line comment keeps its newline)
    n_lit = 60 if quick else 600
    k = 0
    while k < n_lit:
        a, b, has_comment, _ = line_program(rng, literal_comment=True)
        if not has_comment:
            continue
        variant = rng.randrange(len(lu.VARIANTS))
        ca, cb = line_a[("default", False, "plain")], line_a[("default", False, "line")]
        cases.append({"ps": a, "c": ca, "st": True, "prog": f"c{k}", "group": "literal-comment", "variant": variant})
        cases.append({"ps": b, "c": cb, "st": True, "prog": f"c{k}", "group": "literal-comment", "variant": variant})
        k += 1
    for lo in range(0, len(cases), 20000):
        part = cases[lo:lo + 20000]
        r, recs = lu.run_lexer("C13", "translate", cases=part, cfgs=allcfgs, invariants=C13_INV, timeout=3000)
        ck.add_tlc(r, f"Lexer (batch of {len(part)} program variants)")
        if len(recs) != len(part):
            raise core.MachineryError(f"TLC finished {len(recs)} of {len(part)} cases")
        check_variants(ck, recs, part, allcfgs)
    ck.extra["program_variants"] = len(cases)
    ck.extra["mixed_line_spellings"] = n_mixed

    # (4) the shared lexer / environment caches
    run_cache(ck, rng, quick)
    ck.exhaustive = False
    ck.extra["excluded_shapes"] = [
        "raw bodies containing delimiters (they are output verbatim, so the translation changes the output by design)",
        "line statements followed by a blank line; '-'/'+' right after a line prefix",
        "overlay() reaches configurations one field apart only (the model's configuration space)",
    ]


def replay(ck, rec):
    load_local_findings(ck)
    c = rec["case"]
    if c["kind"] == "variant":
        res = _three_ways([(0, tuple(sorted(lu.env_options(c["cfg"]).items())), c["source"])])[0][1]
        if res.get(c["way"]) != c.get("expected"):
            ck.violation(c, f"still renders {res.get(c['way'])!r}", rec.get("fingerprint"))
    elif c["kind"] == "variants-differ":
        outs = set()
        from jinja2 import Environment
        for name, source, expected, _ in c["variants"]:
            fam, flags, nl, lsp, lcp = name.split("/")
            cfg = lu.make_cfg(fam, trim=flags[1] == "1", lstrip=flags[3] == "1", keep=flags[5] == "1", nl=nl, lsp=lsp, lcp=lcp)
            outs.add(Environment(**lu.env_options(cfg)).from_string(source).render())
        if len(outs) > 1:
            ck.violation(c, f"variants still render differently: {sorted(outs)!r}", rec.get("fingerprint"))
    else:
        ck.violation(c, "cache histories are replayed by the full check only", rec.get("fingerprint"))
