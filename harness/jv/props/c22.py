"""C22 - collection filters satisfy their documented contracts.

Specs: spec/FVal.tla (value algebra), spec/SeqCalls.tla (call sequences, object heap), spec/SeqFilters.tla (the contracts, written from
the documentation), spec/SeqFiltersMC.tla (TLC checks on every sequence of a bounded
domain that the contract functions satisfy the clauses of the property and that the
code-shaped batch / slice loops refine them), spec/SeqFiltersTrace.tla (validation of
recorded observations).

Binding (code -> spec): this module enumerates inputs and argument combinations, runs
the REAL filters in every mode (rendered template and Environment.call_filter; sync and
async environment; input as list / tuple / generator / async generator), records
(filter, input, args, result-or-exception, input-after, args-after) and TLC evaluates
SeqFiltersTrace!Contract on every record.  No expected value is computed in Python.
"""
from __future__ import annotations

import itertools
import json
import os
import random
import time
from concurrent.futures import ProcessPoolExecutor, ThreadPoolExecutor

from .. import core
from .. import filt_util as fu
from ..filt_util import Rec

PID = "C22"


# ---------------------------------------------------------------------------
# model checking of the specification itself
# ---------------------------------------------------------------------------

INVS = ["C22_BatchLoop", "C22_SliceLoop", "C22_BatchProgress", "C22_SortStablePerm", "C22_UniqueFirst",
        "C22_GroupByPartition", "C22_MinMaxExtremal", "C22_SelectRejectComplement", "C22_ReverseFirstLast"]


CALL_INVS = ["C22_HistoryFree", "C22_ResultFresh", "C22_MutationLocal", "C22_DefaultKindObservable"]


def mc_cfg(dom, maxlen, attr, loops, fill_always=False, maxn=4):
    return ("CONSTANTS\n"
            f"  Dom <- {dom}\n  MaxLen = {maxlen}\n  MaxN = {maxn}\n  Attr <- {attr}\n"
            f"  RunLoops = {'TRUE' if loops else 'FALSE'}\n"
            f"  SliceFillAlways = {'TRUE' if fill_always else 'FALSE'}\n"
            "SPECIFICATION Spec\n" + "".join(f"INVARIANT {i}\n" for i in INVS))


def model_check(tier):
    """Returns ([(TLCResult, label)], extra) -- added to the Check by the caller (this runs in a
    background thread)."""
    quick = tier == "quick"
    done, extra = [], {}
    runs = [  # (name, domain, MaxLen, Attr, explore the loops)
        ("ints", "DomInts", 4 if quick else 6, "AttrNone", True),
        ("strs", "DomStrs", 3 if quick else 5, "AttrNone", True),
        ("recs_x", "DomRecs", 3 if quick else 4, "AttrX", False),
        ("recs_yx", "DomRecs", 2 if quick else 4, "AttrYX", False),
    ]
    if not quick:
        runs += [("str2", "DomStr2", 5, "AttrNone", False), ("recs_xy", "DomRecs", 4, "AttrXY", False)]
    def one(run):
        name, dom, ml, attr, loops = run
        if name == "strs" and quick:      # this run also dumps its graph (vacuity guard below)
            return run, cov()
        return run, core.run_tlc(PID, "SeqFiltersMC", mc_cfg(dom, ml, attr, loops), name=f"mc_{name}",
                                 workers=4, timeout=1500, heap="3g")

    def cov():
        # vacuity guard on a small instance: every action labels an edge of the state graph
        # (-coverage runs out of memory on the recursive operators of this module)
        return core.run_tlc(PID, "SeqFiltersMC", mc_cfg("DomStrs", 3, "AttrNone", True, maxn=3), name="mc_strs" if quick else "mc_cov",
                            workers=1, timeout=600, heap="2g", args=["-dump", "dot,actionlabels", "graph.dot"])

    def selftest():
        # the fill rule of the pinned code (fill whenever slice_number >= slices_with_extra)
        # must violate the documented slice contract in the model
        return core.run_tlc(PID, "SeqFiltersMC", mc_cfg("DomStrs", 2, "AttrNone", True, fill_always=True),
                            name="mc_selftest", workers=1, timeout=600, heap="1g")

    def calls(name, cache_by_eq=False, list_aliases=False):
        # spec/SeqCalls.tla: sequences of calls on one environment with an object heap
        cfg = ("CONSTANTS\n  MaxCalls = 3\n"
               f"  CacheByEq = {'TRUE' if cache_by_eq else 'FALSE'}\n"
               f"  ListAliases = {'TRUE' if list_aliases else 'FALSE'}\n"
               "SPECIFICATION Spec\n" + "".join(f"INVARIANT {i}\n" for i in CALL_INVS))
        return core.run_tlc(PID, "SeqCalls", cfg, name=name, workers=1, timeout=600, heap="1g")

    with ThreadPoolExecutor(max_workers=8) as ex:
        fself = ex.submit(selftest)
        fcalls = [ex.submit(calls, "mc_calls"), ex.submit(calls, "mc_calls_self_cache", cache_by_eq=True),
                  ex.submit(calls, "mc_calls_self_alias", list_aliases=True)]
        fcov = None if quick else ex.submit(cov)
        for (name, dom, ml, attr, loops), r in ex.map(one, runs):
            done.append((r, f"SeqFiltersMC {dom} len<={ml} attr={attr}"))
            if name == "strs" and quick:
                rcov = r
        rs = fself.result()
        if fcov is not None:
            rcov = fcov.result()
    rc, rc_cache, rc_alias = [f.result() for f in fcalls]
    done.append((rc, "SeqCalls MaxCalls=3 (history-free results, fresh list results)"))
    extra["selftest_getter_cache_by_eq_rejected_by_TLC"] = "C22_HistoryFree" in rc_cache.invariant_violated
    extra["selftest_list_aliases_rejected_by_TLC"] = bool(
        {"C22_ResultFresh", "C22_MutationLocal"} & set(rc_alias.invariant_violated))
    if not extra["selftest_getter_cache_by_eq_rejected_by_TLC"]:
        raise core.MachineryError("self-test failed: CacheByEq=TRUE did not violate C22_HistoryFree")
    if not extra["selftest_list_aliases_rejected_by_TLC"]:
        raise core.MachineryError("self-test failed: ListAliases=TRUE did not violate C22_ResultFresh / C22_MutationLocal")
    r = rcov
    _, edges, _ = core.parse_dot(r.dir / "graph.dot")
    labels = {core.parse_label(e[2])[0] for e in edges}
    missing = {"Grow", "StartBatch", "BatchFlush", "BatchTake", "BatchEnd", "StartSlice", "SliceStep"} - labels
    extra["actions_covered"] = sorted(labels)
    if missing:
        raise core.MachineryError(f"vacuous model: actions never taken: {sorted(missing)}")
    extra["selftest_slice_fill_always_rejected_by_TLC"] = "C22_SliceLoop" in rs.invariant_violated
    if "C22_SliceLoop" not in rs.invariant_violated:
        raise core.MachineryError("self-test failed: SliceFillAlways=TRUE did not violate C22_SliceLoop")
    return done, extra


# ---------------------------------------------------------------------------
# case generation (inputs only -- no expected results)
# ---------------------------------------------------------------------------

def seqs(dom, maxlen, minlen=0):
    for n in range(minlen, maxlen + 1):
        for t in itertools.product(dom, repeat=n):
            yield list(t)


INTS = [0, 1, 2]
STRS = ["a", "A", "b", "B"]
STR2 = ["a", "Ab", "aB", ""]
ALL_KINDS = ["list", "tuple", "gen", "agen"]
SEQ_KINDS = ["list", "tuple"]


def recs_dict():
    return [{"x": x, "y": y} for x in ("a", "A", "b") for y in (0, 1)]


def recs_obj():
    return [Rec(x=x, y=y) for x in ("a", "A", "b") for y in (0, 1)]


def recs_nested():
    return [{"x": {"y": y}, "z": z} for y in ("a", "A", "b") for z in (0, 1)]


def recs_tuple():
    return [(x, y) for x in ("a", "A", "b") for y in (0, 1)]


def case(f, inp, args=None, tmpl=None, pos=(), kw=None, name="", kinds=ALL_KINDS, lazy=False, names=()):
    """One abstract case.  `args`: every argument field the contract reads (complete);
    `pos` / `kw` / `tmpl`: which of them are actually passed, by name."""
    return {"f": f, "name": name, "inp": inp, "args": dict(args or {}), "tmpl": tmpl or f"xs|{f}",
            "pos": list(pos), "kw": dict(kw or {}), "kinds": list(kinds), "lazy": lazy, "names": list(names)}


def gen_cases(tier, seed):
    quick = tier == "quick"
    rnd = random.Random(seed)
    L5, L4, L3 = (5, 4, 3) if not quick else (4, 3, 2)
    cases = []
    add = cases.append

    def sample(it, k):
        it = list(it)
        if len(it) <= k:
            return it
        return rnd.sample(it, k)

    # ---- batch / slice: partition arithmetic over every length x size x fill
    part_inputs = list(seqs(INTS, 4 if quick else 6))
    if quick:
        part_inputs += [[0, 1, 2, 0, 1], [2, 2, 1, 0, 0], [0, 1, 2, 2, 1, 0], [0, 1, 2, 0, 1, 2, 0]]
    for xs in part_inputs:
        for n in (1, 2, 3, 4) if len(xs) < 5 else (2, 3, 4, 5):
            for fill in (None, "f", 0):
                if quick and len(xs) >= 4 and fill == 0 and n not in (2, 3):
                    continue
                a = {"n": n, "fill": fill}
                if fill is None:
                    add(case("batch", xs, a, "xs|batch(n)", pos=["n"], lazy=True))
                    add(case("slice", xs, a, "xs|slice(n)", pos=["n"], lazy=True))
                else:
                    add(case("batch", xs, a, "xs|batch(n, fill)", pos=["n", "fill"], lazy=True))
                    add(case("slice", xs, a, "xs|slice(n, fill_with=fill)", pos=["n"], kw={"fill_with": "fill"},
                             lazy=True))
    for xs in sample(seqs(STRS, 4), 60):
        for n in (1, 2, 3):
            add(case("batch", xs, {"n": n, "fill": "f"}, "xs|batch(linecount=n, fill_with=fill)",
                     kw={"linecount": "n", "fill_with": "fill"}, lazy=True))
            add(case("slice", xs, {"n": n, "fill": "f"}, "xs|slice(slices=n, fill_with=fill)",
                     kw={"slices": "n", "fill_with": "fill"}, lazy=True))

    # ---- sort
    for xs in itertools.chain(seqs(STRS, L5), seqs(STR2, L4), seqs(INTS, L4)):
        for rev in (False, True):
            for cs in (False, True):
                a = {"rev": rev, "cs": cs, "attr": None}
                if not rev and not cs:
                    add(case("sort", xs, a, "xs|sort"))
                elif len(xs) % 2:
                    add(case("sort", xs, a, "xs|sort(rev, cs)", pos=["rev", "cs"]))
                else:
                    add(case("sort", xs, a, "xs|sort(reverse=rev, case_sensitive=cs)",
                             kw={"reverse": "rev", "case_sensitive": "cs"}))
    rec_doms = [(recs_dict(), ["x", "y", "x,y", "y,x"]), (recs_obj(), ["x", "y,x"]),
                (recs_nested(), ["x.y", "z,x.y", "x.y,z"]), (recs_tuple(), [0, "0", "1,0", "0,1"])]
    for dom, attrs in rec_doms:
        pool = list(seqs(dom, L4 if isinstance(dom[0], dict) and "y" in dom[0] else L3))
        for xs in sample(pool, 40 if quick else 1555):
            for attr in attrs:
                for rev in (False, True):
                    for cs in (False, True):
                        add(case("sort", xs, {"rev": rev, "cs": cs, "attr": attr},
                                 "xs|sort(rev, cs, attr)" if rev else "xs|sort(case_sensitive=cs, attribute=attr)",
                                 pos=["rev", "cs", "attr"] if rev else [],
                                 kw={} if rev else {"case_sensitive": "cs", "attribute": "attr"}))

    # ---- unique / min / max
    for xs in itertools.chain(seqs(STRS, L5), seqs(STR2, L4), seqs(INTS, L4)):
        for cs in (False, True):
            a = {"cs": cs, "attr": None}
            add(case("unique", xs, a, "xs|unique(cs)", pos=["cs"], lazy=True))
            add(case("min", xs, a, "xs|min(case_sensitive=cs)", kw={"case_sensitive": "cs"}))
            add(case("max", xs, a, "xs|max(cs)", pos=["cs"]))
    for dom, attrs in rec_doms:
        for xs in sample(seqs(dom, L4), 40 if quick else 1000):
            for attr in [a for a in attrs if not (isinstance(a, str) and "," in a)]:
                for cs in (False, True):
                    a = {"cs": cs, "attr": attr}
                    add(case("unique", xs, a, "xs|unique(cs, attr)", pos=["cs", "attr"], lazy=True))
                    add(case("min", xs, a, "xs|min(cs, attribute=attr)", pos=["cs"], kw={"attribute": "attr"}))
                    add(case("max", xs, a, "xs|max(attribute=attr, case_sensitive=cs)",
                             kw={"attribute": "attr", "case_sensitive": "cs"}))

    # ---- groupby (records; attribute possibly missing -> default)
    holes = [{"y": 0}, {"y": 1}]
    for dom, attrs in rec_doms:
        single = [a for a in attrs if not (isinstance(a, str) and "," in a)]
        for xs in sample(seqs(dom, L4), 80 if quick else 1555):
            for attr in single:
                for cs in (False, True):
                    a = {"attr": attr, "dflt": None, "cs": cs}
                    add(case("groupby", xs, a, "xs|groupby(attr, case_sensitive=cs)", pos=["attr"],
                             kw={"case_sensitive": "cs"}))
    for xs in sample(seqs(recs_dict()[:4] + holes, L4), 80 if quick else 800):
        for cs in (False, True):
            for dflt in ("A", "b"):
                add(case("groupby", xs, {"attr": "x", "dflt": dflt, "cs": cs},
                         "xs|groupby(attr, dflt, cs)", pos=["attr", "dflt", "cs"]))
    # a default also covers a missing *intermediate* attribute of a dotted path
    for xs in sample(seqs(recs_nested()[:3] + [{"z": 0}, {"x": {}, "z": 1}], 3), 60 if quick else 156):
        for cs in (False, True):
            add(case("groupby", xs, {"attr": "x.y", "dflt": "A", "cs": cs},
                     "xs|groupby(attr, default=dflt, case_sensitive=cs)", pos=["attr"],
                     kw={"default": "dflt", "case_sensitive": "cs"}))
        add(case("map", xs, {"attr": "x.y", "dflt": "D"}, "xs|map(attribute=attr, default=dflt)",
                 kw={"attribute": "attr", "default": "dflt"}, lazy=True))
    for xs in sample(seqs(INTS, 3), 20):    # groupby on plain pairs by index
        pairs = [(v, i) for i, v in enumerate(xs)]
        add(case("groupby", pairs, {"attr": 0, "dflt": None, "cs": False}, "xs|groupby(attr)", pos=["attr"]))

    # ---- dictsort
    keysets = []
    for k in range(0, 5):
        keysets += list(itertools.permutations(STRS, k))
    for ks in keysets if not quick else sample(keysets, 45):
        for vals in sample(itertools.product(["a", "A", "B"], repeat=len(ks)), 4 if quick else 12):
            d = dict(zip(ks, vals))
            for cs in (False, True):
                for by in ("key", "value"):
                    for rev in (False, True):
                        a = {"cs": cs, "rev": rev}
                        if by == "key" and not rev:
                            add(case("dictsort", d, a, "xs|dictsort(cs)", pos=["cs"], name=by, kinds=["raw"]))
                        else:
                            add(case("dictsort", d, a, "xs|dictsort(cs, name, reverse=rev)",
                                     pos=["cs", "name"], kw={"reverse": "rev"}, name=by, kinds=["raw"]))

    # ---- reverse / first / last / length / count / list / join / sum
    for xs in itertools.chain(seqs(INTS, L4), sample(seqs(STRS, 3), 30)):
        add(case("reverse", xs, kinds=["list", "tuple", "gen"], lazy=True))
        add(case("first", xs))
        add(case("last", xs, kinds=SEQ_KINDS))
        add(case("length", xs, kinds=SEQ_KINDS))
        add(case("count", xs, kinds=SEQ_KINDS))
        add(case("list", xs))
    for s in ["", "a", "ab", "aBc", "abca"]:
        for f in ("reverse", "first", "last", "length", "list"):
            add(case(f, s, kinds=["raw"]))          # a string is reversed to a string, not to an iterator
    for d in [{}, {"a": 0}, {"b": 1, "a": 0}]:
        for f in ("length", "list"):
            add(case(f, d, kinds=["raw"]))
    for xs in itertools.chain(seqs(INTS, L4), seqs(STR2, L3)):
        for d in ("", ",", "ab"):
            a = {"d": d, "attr": None}
            add(case("join", xs, a, "xs|join(d)" if d else "xs|join", pos=["d"] if d else []))
    for xs in sample(seqs(recs_dict(), 3), 80):
        for attr in ("x", "y"):
            add(case("join", xs, {"d": ", ", "attr": attr}, "xs|join(d, attribute=attr)", pos=["d"],
                     kw={"attribute": "attr"}))
    for xs in seqs(INTS, 4 if quick else 6):
        for start in (0, 5):
            a = {"attr": None, "start": start}
            add(case("sum", xs, a, "xs|sum(start=start)" if start else "xs|sum",
                     kw={"start": "start"} if start else {}))
    for xs in sample(seqs(recs_dict(), 4), 150):
        add(case("sum", xs, {"attr": "y", "start": 1}, "xs|sum(attr, start)", pos=["attr", "start"]))
        add(case("sum", xs, {"attr": "y", "start": 0}, "xs|sum(attribute=attr)", kw={"attribute": "attr"}))
    # sum over lists with a list start value: the start object must stay what it was
    for xs in seqs([[0], [1, 2], []], 3):
        for start in ([], [7]):
            add(case("sum", xs, {"attr": None, "start": start}, "xs|sum(start=start)", kw={"start": "start"}))

    # ---- map
    for xs in itertools.chain(seqs(STRS, L4), seqs(STR2, L3)):
        for name in ("upper", "lower", "length", "string"):
            add(case("map", xs, {"attr": None, "dflt": None}, "xs|map(name)", pos=["name"], name=name,
                     lazy=True, names=["name"]))
    for xs in sample(seqs(["ab", "Ba", "c"], 3), 30):
        add(case("map", xs, {"attr": None, "dflt": None}, "xs|map(name)", pos=["name"], name="first",
                 lazy=True, names=["name"]))
    for dom, attrs in rec_doms[:3]:
        for xs in sample(seqs(dom, 3), 120):
            for attr in [a for a in attrs if "," not in a]:
                add(case("map", xs, {"attr": attr, "dflt": None}, "xs|map(attribute=attr)",
                         kw={"attribute": "attr"}, lazy=True))
    for xs in sample(seqs(recs_dict()[:3] + holes, 4), 150):
        add(case("map", xs, {"attr": "x", "dflt": "D"}, "xs|map(attribute=attr, default=dflt)",
                 kw={"attribute": "attr", "default": "dflt"}, lazy=True))
        add(case("map", xs, {"attr": "x", "dflt": None}, "xs|map(attribute=attr)",
                 kw={"attribute": "attr"}, lazy=True))

    # ---- sequences of calls on one environment whose `default` arguments are different values
    # that Python's == / hash identify (1 / True, 0 / False, 'D' / Markup('D')): consecutive cases
    # run back to back in one process on the same two environments; the contract is a function
    # of the arguments of the *current* call (spec/SeqCalls.tla: C22_HistoryFree)
    from markupsafe import Markup
    twins = [(1, True), (False, 0), ("D", Markup("D")), (Markup("e"), "e"), (True, 1), (0, False)]
    dom_d = recs_dict()[:3] + holes
    for xs in sample(seqs(dom_d, 3, 1), 24 if quick else 120):
        for k, (d1, d2) in enumerate(twins):
            attr = ("x", "w", "x", "w", "v.w", "x.z")[k]      # one getter per (attribute, twin pair)
            for dflt in (d1, d2, d1):
                add(case("map", xs, {"attr": attr, "dflt": dflt}, "xs|map(attribute=attr, default=dflt)",
                         kw={"attribute": "attr", "default": "dflt"}, lazy=True))
    for xs in sample(seqs(dom_d, 3, 1), 24 if quick else 120):
        for attr, (d1, d2) in (("x", twins[2]), ("w", twins[3])):     # string keys only (sortable)
            for cs in (False, True):
                for dflt in (d1, d2, d1):
                    add(case("groupby", xs, {"attr": attr, "dflt": dflt, "cs": cs},
                             "xs|groupby(attr, dflt, cs)", pos=["attr", "dflt", "cs"]))

    # ---- select / reject
    int_tests = [("", None), ("odd", None), ("even", None), ("divisibleby", 2), ("eq", 1), ("equalto", 2),
                 ("==", 0), ("ne", 1), ("lt", 1), ("lessthan", 2), ("gt", 1), ("greaterthan", 0), (">", 1),
                 ("le", 1), ("ge", 1), ("<=", 0), (">=", 2), ("in", [0, 2]), ("number", None), ("string", None)]
    for xs in seqs(INTS, 5 if not quick else 4):
        for name, arg in int_tests:
            if quick and len(xs) == 4 and name not in ("", "odd", "eq", "in", "lt", "ge", "divisibleby"):
                continue
            for f in ("select", "reject"):
                a = {"arg": arg}
                if name == "":
                    add(case(f, xs, a, f"xs|{f}", lazy=True))
                elif arg is None:
                    add(case(f, xs, a, f"xs|{f}(name)", pos=["name"], name=name, lazy=True, names=["name"]))
                else:
                    add(case(f, xs, a, f"xs|{f}(name, arg)", pos=["name", "arg"], name=name, lazy=True,
                             names=["name"]))
    str_tests = [("", None), ("eq", "a"), ("ne", "A"), ("lower", None), ("upper", None), ("string", None),
                 ("in", ["a", "B"]), ("lt", "a")]
    for xs in itertools.chain(seqs(STRS, L4), seqs(STR2, L3)):
        for name, arg in str_tests:
            if name in ("lower", "upper") and "" in xs:
                continue            # is "" lower-cased?  not documented
            for f in ("select", "reject"):
                a = {"arg": arg}
                if name == "":
                    add(case(f, xs, a, f"xs|{f}", lazy=True))
                elif arg is None:
                    add(case(f, xs, a, f"xs|{f}(name)", pos=["name"], name=name, lazy=True, names=["name"]))
                else:
                    add(case(f, xs, a, f"xs|{f}(name, arg)", pos=["name", "arg"], name=name, lazy=True,
                             names=["name"]))
    for xs in seqs([0, 1, None, "a", ""], 2 if quick else 3):
        for name in ("", "none", "defined", "string", "number"):
            for f in ("select", "reject"):
                if name == "":
                    add(case(f, xs, {"arg": None}, f"xs|{f}", lazy=True))
                else:
                    add(case(f, xs, {"arg": None}, f"xs|{f}(name)", pos=["name"], name=name, lazy=True,
                             names=["name"]))

    # ---- selectattr / rejectattr
    attr_tests = [("x", "", None), ("y", "", None), ("y", "odd", None), ("y", "eq", 1), ("x", "eq", "a"),
                  ("x", "ne", "A"), ("x", "in", ["a", "b"]), ("x", "lower", None), ("y", "lt", 1),
                  ("x", "defined", None), ("q", "defined", None), ("q", "undefined", None), ("q", "", None)]
    for dom in (recs_dict(), recs_obj()):
        for xs in sample(seqs(dom, L4), 40 if quick else 800):
            for attr, name, arg in attr_tests:
                for f in ("selectattr", "rejectattr"):
                    a = {"attr": attr, "arg": arg}
                    if name == "":
                        add(case(f, xs, a, f"xs|{f}(attr)", pos=["attr"], lazy=True))
                    elif arg is None:
                        add(case(f, xs, a, f"xs|{f}(attr, name)", pos=["attr", "name"], name=name, lazy=True,
                                 names=["name"]))
                    else:
                        add(case(f, xs, a, f"xs|{f}(attr, name, arg)", pos=["attr", "name", "arg"], name=name,
                                 lazy=True, names=["name"]))
    for xs in sample(seqs(recs_nested(), 3), 60):
        for f in ("selectattr", "rejectattr"):
            add(case(f, xs, {"attr": "x.y", "arg": "a"}, f"xs|{f}(attr, name, arg)", pos=["attr", "name", "arg"],
                     name="eq", lazy=True, names=["name"]))
    full_every = 8 if quick else 3
    for i, c in enumerate(cases):
        c["pick"] = None if i % full_every == 0 else i
    return cases


EXCLUDED = [
    "mixed-type sort keys (int vs str vs None: Python raises TypeError, nothing documented)",
    "slice(0) / batch(0) and negative sizes",
    "last / length on generators (documented as unsupported)",
    "unhashable unique keys, min/max/sort keyed by dicts or objects",
    "missing attributes as sort / groupby keys without a default",
    "float items (sum / sort / join print floats)",
    "joining with autoescape on (C24)",
    "Python-level type of the result container (list vs tuple vs iterator): results are compared after materialisation (identity of list results: list / sort / dictsort only)",
]


# ---------------------------------------------------------------------------
# running the real filters
# ---------------------------------------------------------------------------

_driver = None


def driver():
    global _driver
    if _driver is None:
        core.use_repo()
        _driver = fu.Driver(autoescape=False)
    return _driver


def modes_of(drv, c):
    """Every mode the case is meaningful in; cases marked `some` run the sync/template/list
    baseline plus three modes picked round-robin by the case index (every mode of every
    filter is still exercised thousands of times per run)."""
    asyncv = drv.is_async_variant(c["f"])
    allm = []
    for envk in ("sync", "async"):
        for via in ("tmpl", "call"):
            for kind in c["kinds"]:
                if kind == "agen" and not (asyncv and envk == "async"):
                    continue
                allm.append((envk, via, kind))
    pick = c.get("pick")
    if pick is None or len(allm) <= 4:
        return allm
    n = len(allm)
    stride = n // 3 + 1
    idx = {0} | {(pick + j * stride) % n for j in range(3)}
    return [allm[i] for i in sorted(idx)]


PROBE = "<probe>"


def observe_obj(fn):
    """Like fu.observe, but also hands back the result object itself."""
    try:
        v = fu.materialize(fn())
    except core.MachineryError:
        raise
    except Exception as e:  # noqa
        return {"t": "x", "v": type(e).__name__}, None
    return fu.enc(v), v


def run_mode(drv, c, envk, via, kind):
    """One invocation of the real filter; returns the observation (out, inp2, args2, x).
    x (only when the result object is a Python list, i.e. mutable): `alias` = the result IS the
    object that was passed in, `inp3` = the input after appending a probe item to the result."""
    inp = fu.fresh(c["inp"])
    args = fu.fresh(c["args"])
    value = fu.as_kind(inp, kind)
    variables = dict(args)
    variables["name"] = c["name"]
    variables["xs"] = value
    if via == "tmpl":
        expr = c["tmpl"] + ("|list" if c["lazy"] else "")
        out, obj = observe_obj(lambda: drv.via_template(envk, expr, variables))
    else:
        pos = [variables[n] for n in c["pos"]]
        kw = {k: variables[n] for k, n in c["kw"].items()}
        out, obj = observe_obj(lambda: drv.via_call(envk, c["f"], value, pos, kw))
    inp2, args2 = fu.enc(inp), {k: fu.enc(v) for k, v in args.items()}
    x = {}
    if type(obj) is list:
        x["alias"] = fu.enc(obj is value)
        obj.append(PROBE)
        x["inp3"] = fu.enc(inp)
    return out, inp2, args2, x


def observe_case(c):
    """All modes of one case, grouped by distinct observation -> trace records."""
    drv = driver()
    inp_e = fu.enc(c["inp"])
    args_e = {k: fu.enc(v) for k, v in c["args"].items()}
    groups = {}
    nruns = 0
    for envk, via, kind in modes_of(drv, c):
        out, inp2, args2, x = run_mode(drv, c, envk, via, kind)
        nruns += 1
        key = json.dumps([out, inp2, args2, x], sort_keys=True)
        g = groups.get(key)
        if g is None:
            g = groups[key] = {"f": c["f"], "name": c["name"], "inp": inp_e, "args": args_e, "out": out,
                               "inp2": inp2, "args2": args2, "x": x, "modes": [],
                               "how": {"tmpl": c["tmpl"], "pos": c["pos"], "kw": c["kw"], "lazy": c["lazy"]}}
        g["modes"].append(f"{envk}/{via}/{kind}")
    return list(groups.values()), nruns


_CASES = []          # inherited by the forked workers (no pickling of the inputs)


def _observe_chunk(span):
    recs, n = [], 0
    for c in _CASES[span[0]:span[1]]:
        r, k = observe_case(c)
        recs += r
        n += k
    return recs, n


def observe_all(cases):
    global _CASES
    _CASES = cases
    recs, nruns = [], 0
    spans = [(i, min(i + 500, len(cases))) for i in range(0, len(cases), 500)]
    with ProcessPoolExecutor(max_workers=10) as ex:
        for r, n in ex.map(_observe_chunk, spans):
            recs += r
            nruns += n
    _CASES = []
    return recs, nruns


# ---------------------------------------------------------------------------
# verdicts
# ---------------------------------------------------------------------------

def fingerprint(rec, why):
    envs = sorted({m.split("/")[0] for m in rec["modes"]})
    fp = {"kind": why, "filter": rec["f"], "env": envs[0] if len(envs) == 1 else "both"}
    if why == "args-modified":
        changed = sorted(k for k in rec["args"] if rec["args"][k] != rec["args2"][k])
        if rec["inp"] != rec["inp2"]:
            changed.append("input")
        fp["arg"] = ",".join(changed)
    return fp


def report(ck, rejected):
    for rec, why, expected in rejected:
        fp = fingerprint(rec, why)
        args = {k: fu.show(v) for k, v in rec["args"].items()}
        what = (f"{rec['f']}({'' if not rec['name'] else rec['name'] + '; '}{args}) on {fu.show(rec['inp'])} "
                f"[{', '.join(rec['modes'][:4])}{'...' if len(rec['modes']) > 4 else ''}]: ")
        if why == "result-aliases-input":
            what += (f"the result is not a new list: result is the input object = {rec['x']['alias']['v']}, input after "
                     f"appending {PROBE!r} to the result = {fu.show(rec['x']['inp3'])}")
        elif why == "args-modified":
            what += (f"arguments modified: input after = {fu.show(rec['inp2'])}, args after = "
                     f"{ {k: fu.show(v) for k, v in rec['args2'].items()} }")
        else:
            what += f"spec expects {fu.show(expected) if expected else '?'}, jinja2 returned {fu.show(rec['out'])}"
        ck.violation({"kind": "filter-record", "record": rec, "why": why, "expected": expected}, what, fp)


def run(ck):
    fu.load_own_findings(ck, PID)
    only = [f for f in os.environ.get("JV_FILTERS", "").split(",") if f]   # development aid
    with ThreadPoolExecutor(max_workers=1) as bg:
        # TLC on the spec itself, concurrently with the observation of the real code
        mc = bg.submit((lambda t: ([], {})) if only else model_check, ck.tier)
        t0 = time.time()
        cases = gen_cases(ck.tier, ck.seed)
        t1 = time.time()
        if only:
            cases = [c for c in cases if c["f"] in only]
            ck.exhaustive = False
        recs, nruns = observe_all(cases)
        t2 = time.time()
        rejected = fu.tlc_validate(ck, "SeqFiltersTrace", recs, batch=7000, parallel=4 if ck.tier == "quick" else 6)
        t3 = time.time()
        done, extra = mc.result()
    ck.extra["phase_s"] = {"generate": round(t1 - t0, 1), "observe_real_code": round(t2 - t1, 1),
                           "tlc_validate": round(t3 - t2, 1), "wait_model_check": round(time.time() - t3, 1)}
    for r, label in done:
        ck.add_tlc(r, label)
    ck.extra.update(extra)
    report(ck, rejected)
    ck.traces += len(recs)
    ck.evaluations += nruns
    per = {}
    for r in recs:
        per[r["f"]] = per.get(r["f"], 0) + 1
    ck.extra["cases"] = len(cases)
    ck.extra["real_filter_invocations"] = nruns
    ck.extra["distinct_observations_validated_by_TLC"] = len(recs)
    ck.extra["records_per_filter"] = per
    ck.extra["excluded_shapes"] = EXCLUDED
    ck.exhaustive = ck.exhaustive and ck.tier != "quick"
    ck.extra["exhaustive_note"] = ("batch/slice/sort/unique/min/max/sum/select over every sequence up to the bound; "
                                   "record-valued inputs and dictsort are seeded samples in the quick tier")
    for r in recs[:: max(1, len(recs) // 4)][:4]:
        ck.sample({"filter": r["f"], "name": r["name"], "input": fu.show(r["inp"]),
                   "args": {k: fu.show(v) for k, v in r["args"].items()}, "output": fu.show(r["out"]),
                   "modes": r["modes"]})
    ck.assumptions += [
        "values are compared after materialisation (iterators -> lists, tuples = lists)",
        "strings are ASCII; case folding is the ASCII case map",
        "async code paths are driven without an event loop (nothing awaited ever suspends)",
    ]


def replay(ck, rec):
    fu.load_own_findings(ck, PID)
    c0 = rec["case"]
    if c0.get("kind") == "spec-invariant":
        for r, label in model_check(ck.tier)[0]:
            ck.add_tlc(r, label)
        return
    r = c0["record"]
    how = r["how"]
    c = {"f": r["f"], "name": r["name"], "inp": fu.dec(r["inp"]), "args": {k: fu.dec(v) for k, v in r["args"].items()},
         "tmpl": how["tmpl"], "pos": how["pos"], "kw": how["kw"], "lazy": how["lazy"],
         "kinds": sorted({m.split("/")[2] for m in r["modes"]})}
    recs, _ = observe_case(c)
    report(ck, fu.tlc_validate(ck, "SeqFiltersTrace", recs, label="replay"))
