"""C23 - string and number filters satisfy their documented contracts.

Specs: spec/StrFilters.tla (functions Truncate, Indent, Center, Trim, Title, Capitalize,
Upper/Lower, Replace, WordCount, Format, StripTags, UrlQuote, the conversion tables
IntConv / FloatConv with exact values of small numeric texts, and the relations WrapOK,
RoundOK, FileSizeOK, CenterOK), spec/StrFiltersMC.tla (TLC checks the clauses of the
property for these functions on every text up to a bound), spec/StrFiltersTrace.tla
(validation of recorded observations).

Binding (code -> spec): inputs and arguments are generated here, the REAL filters are run
through rendered templates and Environment.call_filter in sync and async environments and
every (filter, input, args, result-or-exception) observation is validated by TLC.
"""
from __future__ import annotations

import decimal
import itertools
import json
import math
import os
import random
import time
from concurrent.futures import ProcessPoolExecutor, ThreadPoolExecutor

from .. import core
from .. import filt_util as fu

PID = "C23"

MC_INVS = ["C23_TruncateBounded", "C23_IndentOnlyInserts", "C23_CenterOK", "C23_TrimExact", "C23_CaseMaps",
           "C23_ReplaceCount", "C23_ReplaceCountMarkup", "C23_WordCount", "C23_StripTagsUrl", "C23_WrapIdentity"]


def model_check(tier):
    ml = 4 if tier == "quick" else 6
    cfg = f"CONSTANTS\n  MaxLen = {ml}\nSPECIFICATION Spec\n" + "".join(f"INVARIANT {i}\n" for i in MC_INVS)
    r = core.run_tlc(PID, "StrFiltersMC", cfg, name="mc_str", workers=6, timeout=2400, heap="3g")
    return [(r, f"StrFiltersMC texts <= {ml} over 7 characters")], {"actions_covered": ["Grow"]}


# ---------------------------------------------------------------------------
# projections
# ---------------------------------------------------------------------------

def milli(x):
    """Exact value of a number in thousandths, from its printed decimal form; None if it has
    more decimals, is not finite or does not fit 31 bits."""
    if isinstance(x, bool):
        x = int(x)
    if isinstance(x, float) and not math.isfinite(x):
        return None
    d = decimal.Decimal(repr(x)) * 1000
    if d != d.to_integral_value() or abs(d) >= 2 ** 31:
        return None
    return int(d)


def encv(v, tup=False):
    """enc() with floats projected to exact thousandths or a class label.  tup: tuples keep their
    own tag "t" (format prints a tuple and a list differently)."""
    if tup and isinstance(v, (list, tuple)):
        return {"t": "t" if isinstance(v, tuple) else "l", "v": [encv(x, True) for x in v]}
    if isinstance(v, float):
        if math.isnan(v):
            return {"t": "c", "v": "float:nan"}
        if math.isinf(v):
            return {"t": "c", "v": "float:inf" if v > 0 else "float:-inf"}
        m = milli(v)
        return {"t": "f", "v": m} if m is not None else {"t": "c", "v": "float:other"}
    if isinstance(v, dict):
        return {"t": "d", "v": [[encv(k), encv(x)] for k, x in v.items()]}
    if isinstance(v, (list, tuple)):
        return {"t": "l", "v": [encv(x) for x in v]}
    return fu.enc(v)


# ---------------------------------------------------------------------------
# case generation
# ---------------------------------------------------------------------------

def case(f, inp, args=None, tmpl=None, pos=(), kw=None, name="", x=None, inp_enc=None, seq=None, ae=False):
    """seq: cases with the same seq id form a sequence that is run in this order in ONE process
    (observe_all never splits it over two workers).  ae: run in environments with autoescaping on."""
    return {"f": f, "name": name, "inp": inp, "args": dict(args or {}), "tmpl": tmpl or f"v|{f}",
            "pos": list(pos), "kw": dict(kw or {}), "x": dict(x or {}), "inp_enc": inp_enc, "seq": seq, "ae": ae}


def equal_value_families(tier):
    """Families of values that compare (and hash) equal in Python but are different values with
    different str() forms: n / n.0 (/ True, False for 1, 0); plus values without such a partner."""
    ns = [0, 1, 2, -3, 7, 10, 42, 1000, -1] if tier == "quick" else list(range(-6, 13)) + [42, 100, 1000, 65536, -1000]
    fams = []
    for n in ns:
        fam = [n, float(n)]
        if n in (0, 1):
            fam.append(bool(n))
        fams.append(fam)
    fams.append([None, 2.5, 0.125, -3.7, 1000.5, 3, 3.5])
    return fams


def strings(alpha, maxlen, minlen=0):
    for n in range(minlen, maxlen + 1):
        for t in itertools.product(alpha, repeat=n):
            yield "".join(t)


class Obj:
    pass


def conv_values():
    """(class, value, text-for-exact-value or None)"""
    out = []
    for s in ("0", "7", "42", "007", "123456"):
        out.append(("dec", s, s))
    for s in ("-3", "+5", "-0", "-42"):
        out.append(("signed", s, s))
    for s in (" 42 ", "\t7\n", " -3"):
        out.append(("spaced", s, s))
    for s in ("0x1A", "0xff", "0X10"):
        out.append(("hex", s, s))
    for s in ("0o17", "0o7"):
        out.append(("oct", s, s))
    for s in ("0b101", "0b0"):
        out.append(("bin", s, s))
    for s in ("42.7", "-3.9", "0.5", " 4.5 ", "42.23", "7."):
        out.append(("floatstr", s, s))
    for s in ("1e3", "2.5e2", "1E-3"):
        out.append(("expstr", s, None))
    for s in ("inf", "-inf", "Infinity"):
        out.append(("infstr", s, None))
    for s in ("nan", "NaN"):
        out.append(("nanstr", s, None))
    out.append(("hugestr", "9" * 400, None))
    out.append(("empty", "", None))
    for s in ("abc", "12a", "1,5", "--1", "0x", "4 2", "1_000x", "٣x"):
        out.append(("garbage", s, None))
    for v in (0, 5, -7, 2 ** 31 - 1):
        out.append(("int", v, None))
    out.append(("hugeint", 10 ** 400, None))
    out.append(("hugeint", -(10 ** 400), None))
    for v in (3.7, -3.7, 0.0, 2.5, 1e3):
        out.append(("float", v, None))
    out.append(("inf", float("inf"), None))
    out.append(("inf", float("-inf"), None))
    out.append(("nan", float("nan"), None))
    out.append(("bool", True, None))
    out.append(("bool", False, None))
    out.append(("none", None, None))
    for v in ([], [1], (1, 2)):
        out.append(("list", v, None))
    for v in ({}, {"a": 1}):
        out.append(("dict", v, None))
    out.append(("object", Obj(), None))
    return out


def gen_cases(tier, seed):
    quick = tier == "quick"
    rnd = random.Random(seed)
    cases = []
    add = cases.append

    def sample(it, k):
        it = list(it)
        return it if len(it) <= k else rnd.sample(it, k)

    alpha = ["a", "B", " ", "-", "\n", "\r\n", "<"]
    short = list(strings(alpha, 3))
    texts = short + sample(strings(alpha, 5, 4), 500 if quick else 4000) + sample(strings(alpha, 7, 6), 300 if quick else 3000)
    words = ["", "a", "Ba a-B", "a  B\na", "aaaa BBBB aa", "a-a-a-a B", "  aa  ", "aBaBaBaBaB", "a B a B a B a"]

    # ---- truncate
    for s in sample(texts, 500 if quick else 3000) + words + ["foo bar baz qux", "a" * 9, "a b" * 4]:
        for length in (3, 4, 6, 8):
            for kill in (False, True):
                for leeway in (0, 2):
                    if quick and rnd.random() < 0.5:
                        continue
                    end = "..." if (length + leeway) % 2 else "-"
                    add(case("truncate", s, {"length": length, "killwords": kill, "end": end, "leeway": leeway},
                             "v|truncate(length, killwords, end, leeway)", pos=["length", "killwords", "end", "leeway"]))
    # ---- indent
    for s in texts + words:
        for width in (2, ">>", 0):
            for first in (False, True):
                for blank in (False, True):
                    if first and not blank and (s == "" or s[0] in "\r\n"):
                        continue      # is an empty first line indented?  not documented
                    if quick and len(s) > 3 and rnd.random() < 0.6:
                        continue
                    add(case("indent", s, {"width": width, "first": first, "blank": blank},
                             "v|indent(width, first, blank)" if first else "v|indent(width, blank=blank)",
                             pos=["width", "first", "blank"] if first else ["width"],
                             kw={} if first else {"blank": "blank"}))
    # ---- center / trim / case maps / wordcount / striptags / urlencode
    for s in sample(texts, 400 if quick else 2000) + words:
        if "\n" not in s and "\r" not in s:
            for w in (0, 3, 4, 7, 8):
                add(case("center", s, {"width": w}, "v|center(width)", pos=["width"]))
        add(case("trim", s, {"chars": None}))
        add(case("trim", s, {"chars": "a-"}, "v|trim(chars)", pos=["chars"]))
        for f in ("title", "capitalize", "upper", "lower", "wordcount", "urlencode"):
            add(case(f, s))
        if "\r" not in s:
            add(case("striptags", s + ">a<B> -"))
            add(case("striptags", s))
    for s in ["hello world", "a_b c1 d-e", "x(y)[z]{w}<v", "  ", "A-b c(d [e {f <g", "iT's", "a/b?c=d&e f~", "%41+"]:
        for f in ("title", "capitalize", "upper", "lower", "wordcount", "urlencode"):
            add(case(f, s))
    # ---- urlencode beyond ASCII: Latin-1 letters, CJK, non-ASCII digit, superscript, symbol, emoji
    # (all alphanumeric-looking or not, alone and mixed with ASCII), and the mapping / pairs form
    ualpha = ["a", "Z", "7", " ", "/", "~", "&", "=", "+", "%", "\u00e9", "\u00df", "\u65e5", "\u0663", "\u00b2",
              "\u20ac", "\U0001f600"]
    utexts = list(strings(ualpha, 2)) + sample(strings(ualpha, 4, 3), 150 if quick else 3000) + \
        ["caf\u00e9", "\u65e5\u672c\u8a9e", "x\u00b2", "\u0663", "na\u00efve caf\u00e9/\u65e5", "\u00c5ngstr\u00f6m"]
    for s in utexts:
        add(case("urlencode", s))
    for ks in sample(itertools.permutations(utexts[1:60], 2), 60 if quick else 600):
        d = {ks[0]: ks[1], ks[1]: 5}
        add(case("urlencode", d))
        add(case("urlencode", [(ks[0], ks[1]), (ks[1], ks[0])]))
    for s in sample(utexts, 80 if quick else 800):
        add(case("urlencode", {"q": s}))
        add(case("urlencode", [(s, "v")]))
    # ---- urlencode of values that are not strings ("converted to string"): ints, floats, bools, None as
    # the value itself, as a mapping value, as a mapping key and in pair lists.  The members of a family
    # compare equal (1 == 1.0 == True) but have different texts; they are visited one after the other in
    # one process, in a seeded order, form by form, so that a result that is remembered per ==-equal
    # value (or otherwise depends on what was quoted before) shows up at the next member.
    for fi, fam in enumerate(equal_value_families(tier)):
        seq = f"urlnum{fi}"
        for rounds in range(1 if quick else 3):
            for form in rnd.sample(["scalar", "value", "key", "pair", "mixed"], 5):
                order = rnd.sample(fam, len(fam))
                if form == "mixed":       # one pair list over the whole family: the sequence is inside ONE call
                    ring = order + order[:1]
                    add(case("urlencode", [(a, b) for a, b in zip(ring, ring[1:])], seq=seq))
                    add(case("urlencode", [(a, "x") for a in order] + [("y", a) for a in reversed(order)], seq=seq))
                    continue
                for v in order:
                    inp = {"scalar": v, "value": {"k": v}, "key": {v: "x y"}, "pair": [(v, v)]}[form]
                    add(case("urlencode", inp, seq=seq))
    # ---- replace: every autoescape setting; in the first pass everything is a plain string, then the subject,
    # the search string and the replacement are independently plain or safe (Markup), with counts below, at and
    # above the number of occurrences (texts with `<` / `&` change length when they are escaped)
    from markupsafe import Markup
    pairs = (("a", "xx"), ("a", ""), ("aa", "a"), (" ", "-"), ("B\n", "<"), ("-", "--"))
    for s in sample(texts, 300 if quick else 2000) + words:
        for old, new in pairs:
            for ae in (False, True):
                if quick and ae and rnd.random() < (0.7 if len(s) <= 3 else 0.9):
                    continue
                add(case("replace", s, {"old": old, "new": new, "count": -1}, "v|replace(old, new)", pos=["old", "new"],
                         ae=ae))
                for count in (0, 1, 2):
                    if quick and count == 2 and len(s) > 3:
                        continue
                    add(case("replace", s, {"old": old, "new": new, "count": count}, "v|replace(old, new, count)",
                             pos=["old", "new", "count"], ae=ae))
    mpairs = (("a", "<b>"), ("a", "x"), ("<", "a"), ("aa", "&"), ("-", "<-"), (" ", ""))
    msubj = sample([t for t in texts if t.count("a") + t.count("<") + t.count("-") >= 2], 25 if quick else 600) + \
        ["aaaa", "aaa<", "a-a-a", "<a<a<", "a&a a&a", "<aaa>", "aa aa aa", "B"]
    for s in msubj:
        for old, new in mpairs:
            for sm, om, nm in itertools.product((False, True), repeat=3):
                if not (sm or om or nm):
                    continue
                if quick and rnd.random() < 0.6:
                    continue
                a = {"old": Markup(old) if om else old, "new": Markup(new) if nm else new}
                subj = Markup(s) if sm else s
                for ae in (True, False):
                    if not ae and rnd.random() < 0.7:
                        continue
                    for count in (-1, 0, 1, 2, 5):
                        if quick and count in (0, 5) and rnd.random() < 0.5:
                            continue
                        if count == -1:
                            add(case("replace", subj, dict(a, count=-1), "v|replace(old, new)", pos=["old", "new"], ae=ae))
                        elif count == 5:
                            add(case("replace", subj, dict(a, count=5), "v|replace(old, new, count=count)",
                                     pos=["old", "new"], kw={"count": "count"}, ae=ae))
                        else:
                            add(case("replace", subj, dict(a, count=count), "v|replace(old, new, count)",
                                     pos=["old", "new", "count"], ae=ae))
    # ---- format: `fmt % (a1, ..., an)` for n = 0..3; every argument is one item: scalars, tuples (empty, one
    # element, as many elements as there are directives, more), lists; the number of directives is below, at
    # and above n (TypeError exactly when they differ)
    scalars = ["x", "", "a B", 5, -3, True, None]
    conts = [(), (1,), (1, 2), ("a",), ("a", "b"), (1, "a", None), [], [1, 2], ["a"], ((1, 2),), ([],), [(), (3,)],
             (True, -7), ("a b", 0)]
    fmts = ("%s", "a%sB", "%s%%", "100%% %s", "<%s>", "%s and %s", "%s%s", "abc", "%%", "", "%s-%s-%s")
    for fmt in fmts:
        add(case("format", fmt, {}, "v|format()"))
        for a1 in scalars + conts:
            add(case("format", fmt, {"a1": a1}, "v|format(a1)", pos=["a1"]))
        for a1, a2 in sample(itertools.product(scalars[:4] + conts[:8], repeat=2), 25 if quick else 144):
            add(case("format", fmt, {"a1": a1, "a2": a2}, "v|format(a1, a2)", pos=["a1", "a2"]))
        for a1, a2, a3 in sample(itertools.product(scalars[:4] + conts[:6], repeat=3), 10 if quick else 100):
            add(case("format", fmt, {"a1": a1, "a2": a2, "a3": a3}, "v|format(a1, a2, a3)", pos=["a1", "a2", "a3"]))
    # ---- wordwrap
    wtexts = sample([t for t in texts if "\r" not in t], 300 if quick else 2000) + words + \
        ["aaaa-BBBB aa a-B", "a" * 11, "aa BB " * 4, "a-" * 6]
    for s in wtexts:
        for width in (1, 2, 3, 5, 6):
            for bl in (True, False):
                for boh in (True, False):
                    if quick and rnd.random() < 0.5:
                        continue
                    add(case("wordwrap", s, {"width": width, "breaklong": bl, "boh": boh},
                             "v|wordwrap(width, breaklong, break_on_hyphens=boh)", pos=["width", "breaklong"],
                             kw={"break_on_hyphens": "boh"}))
    # ---- int / float over value classes
    for cls, v, text in conv_values():
        label = {"t": "c", "v": cls}
        small = milli(v) if cls in ("int", "float", "bool") else None
        x = {"text": text, "milli": small}
        for dflt in (0, 7):
            bases = [10]
            if cls in ("hex", "oct"):
                bases = [10, 16, 8, 2]
            elif cls == "bin":
                bases = [10, 8, 2]          # "0b101" is also a hexadecimal number
            elif cls in ("empty", "none", "list", "inf", "float", "int"):
                bases = [10, 16]            # ("abc" is a hexadecimal number: garbage only in base 10)
            for base in bases:
                a = {"default": dflt, "base": base}
                if dflt == 0 and base == 10:
                    add(case("int", v, a, "v|int", x=x, inp_enc=label))
                elif base == 10:
                    add(case("int", v, a, "v|int(default)", pos=["default"], x=x, inp_enc=label))
                else:
                    add(case("int", v, a, "v|int(default, base)", pos=["default", "base"], x=x, inp_enc=label))
        xf = {"text": text if cls in ("dec", "signed", "spaced", "floatstr") else None, "milli": small}
        add(case("float", v, {"default": 0.0}, "v|float", x=xf, inp_enc=label))
        add(case("float", v, {"default": 7}, "v|float(default)", pos=["default"], x=xf, inp_enc=label))
        add(case("float", v, {"default": 2.5}, "v|float(default=default)", kw={"default": "default"}, x=xf,
                 inp_enc=label))
    # ---- round (inputs are multiples of 1/8: exact binary and decimal values)
    eighths = sorted({k / 8 for k in range(-40, 41)} | {42.5, 42.125, 1234.375, -0.125, 100.0, 2.675 * 0 + 0.5})
    for xval in eighths:
        for prec in (0, 1, 2):
            for method in ("common", "ceil", "floor"):
                a = {"precision": prec}
                if prec == 0 and method == "common":
                    add(case("round", xval, a, "v|round", name=method))
                elif method == "common":
                    add(case("round", xval, a, "v|round(precision)", pos=["precision"], name=method))
                else:
                    add(case("round", xval, a, "v|round(precision, name)", pos=["precision", "name"], name=method))
    # ---- filesizeformat
    sizes = sorted({0, 1, 2, 10, 999, 1000, 1001, 1023, 1024, 1025, 1049, 1050, 1051, 1500, 1536, 9999, 10 ** 4,
                    99949, 99950, 99951, 999949, 999950, 10 ** 6 - 1, 10 ** 6, 1048575, 1048576, 1048577,
                    1234567, 5 * 10 ** 6, 5242880, 99999999, 13 * 10 ** 6 + 500000}
                   | {rnd.randrange(0, 10 ** 8) for _ in range(150 if quick else 3000)})
    for n in sizes:
        for binary in (False, True):
            add(case("filesizeformat", n, {"binary": binary},
                     "v|filesizeformat(binary)" if binary else "v|filesizeformat", pos=["binary"] if binary else []))
            if n % 7 == 0:
                add(case("filesizeformat", float(n), {"binary": binary}, "v|filesizeformat(binary)", pos=["binary"],
                         inp_enc={"t": "i", "v": n}))
    return cases


EXCLUDED = [
    "non-ASCII text (except for urlencode); line breaks other than \\n, \\r, \\r\\n (splitlines knows more)",
    "indent(first=true, blank=false) of a text whose first line is empty",
    "trim with an empty chars argument; replace with an empty search string; truncate with length < len(end)",
    "center of multi-line text",
    "format beyond %s / %%, keyword arguments, safe strings or texts with quotes / backslashes inside tuple and "
    "list arguments; striptags with entities or comments; urlencode of bytes values, of -0.0, of floats that "
    "are not exact in thousandths, of ints >= 2^31 and of objects (Decimal, Fraction) as values",
    "int of a decimal string with base != 10 (the documentation says the base is ignored for decimal numbers, "
    "the code parses in that base)",
    "int / float of undefined values",
    "round / float values that are not exact in thousandths; |x| >= 2^31/1000; filesizeformat >= 10^8 bytes",
    "wordwrap with a custom wrapstring (C24) and tabs",
]


# ---------------------------------------------------------------------------
# running the real filters
# ---------------------------------------------------------------------------

_driver = {}


def driver(ae=False):
    if ae not in _driver:
        core.use_repo()
        _driver[ae] = fu.Driver(autoescape=ae)
    return _driver[ae]


def observe_case(c):
    drv = driver(bool(c.get("ae")))
    f = c["f"]
    tup = f == "format"
    inp_e = c["inp_enc"] or encv(c["inp"])
    args_e = {k: encv(v, tup) for k, v in c["args"].items()}
    x_e = {k: encv(v) for k, v in c["x"].items()}
    if f == "replace":
        x_e["ae"] = {"t": "b", "v": bool(c.get("ae"))}
    groups = {}
    nruns = 0
    for envk in ("sync", "async"):
        for via in ("call", "tmpl"):
            inp = fu.fresh(c["inp"]) if not isinstance(c["inp"], Obj) else c["inp"]
            args = fu.fresh(c["args"])
            variables = dict(args)
            variables["v"] = inp
            variables["name"] = c["name"]
            try:
                if via == "call":
                    pos = [variables[n] for n in c["pos"]]
                    kw = {k: variables[n] for k, n in c["kw"].items()}
                    out = encv(fu.materialize(drv.via_call(envk, f, inp, pos, kw)))
                else:
                    out = encv(fu.materialize(drv.via_template(envk, c["tmpl"], variables)))
            except core.MachineryError:
                raise
            except Exception as e:  # noqa
                out = {"t": "x", "v": type(e).__name__}
            nruns += 1
            inp2 = c["inp_enc"] or encv(inp)
            if c["inp_enc"] and f in ("int", "float") and isinstance(inp, (list, dict)) and inp != c["inp"]:
                inp2 = {"t": "c", "v": "modified"}
            args2 = {k: encv(v, tup) for k, v in args.items()}
            key = json.dumps([out, inp2, args2], sort_keys=True)
            g = groups.get(key)
            if g is None:
                g = groups[key] = {"f": f, "name": c["name"], "inp": inp_e, "args": args_e, "out": out,
                                   "inp2": inp2, "args2": args2, "x": x_e, "modes": [],
                                   "shown": repr(c["inp"])[:60],
                                   "how": {"tmpl": c["tmpl"], "pos": c["pos"], "kw": c["kw"], "seq": c["seq"],
                                           "ae": bool(c.get("ae"))}}
            g["modes"].append(f"{envk}/{via}")
    return list(groups.values()), nruns


_CASES = []


def _observe_chunk(span):
    recs, n = [], 0
    for c in _CASES[span[0]:span[1]]:
        r, k = observe_case(c)
        recs += r
        n += k
    return recs, n


def observe_all(cases):
    global _CASES
    _CASES = cases
    recs, nruns = [], 0
    spans, i = [], 0
    while i < len(cases):
        j = min(i + 500, len(cases))
        while j < len(cases) and cases[j]["seq"] is not None and cases[j]["seq"] == cases[j - 1]["seq"]:
            j += 1                       # a sequence stays in one worker process
        spans.append((i, j))
        i = j
    with ProcessPoolExecutor(max_workers=8) as ex:
        for r, n in ex.map(_observe_chunk, spans):
            recs += r
            nruns += n
    _CASES = []
    return recs, nruns


def fingerprint(rec, why):
    fp = {"kind": why, "filter": rec["f"]}
    if rec["f"] in ("int", "float"):
        fp["class"] = rec["inp"]["v"]
    if rec["out"]["t"] == "x":
        fp["exc"] = rec["out"]["v"]
    return fp


def report(ck, rejected):
    for rec, why, expected in rejected:
        args = {k: fu.show(v) for k, v in rec["args"].items()}
        what = (f"{rec['f']}({(rec['name'] + '; ') if rec['name'] else ''}{args}) on {rec['shown']} "
                f"{'(autoescape on) ' if rec['how'].get('ae') else ''}"
                f"[{', '.join(rec['modes'])}]: jinja2 produced {fu.show(rec['out'])}")
        if expected and not (expected.get("t") == "s" and expected.get("v") == [] and rec["f"] not in
                             ("truncate", "indent", "trim", "title", "capitalize", "upper", "lower", "replace",
                              "format", "striptags", "urlencode", "center")):
            what += f", spec expects {fu.show(expected)}"
        else:
            what += ", rejected by the contract relation of the specification"
        ck.violation({"kind": "filter-record", "record": rec, "why": why, "expected": expected}, what,
                     fingerprint(rec, why))


def run(ck):
    fu.load_own_findings(ck, PID)
    only = [f for f in os.environ.get("JV_FILTERS", "").split(",") if f]   # development aid
    with ThreadPoolExecutor(max_workers=1) as bg:
        mc = bg.submit((lambda t: ([], {})) if only else model_check, ck.tier)
        t0 = time.time()
        cases = gen_cases(ck.tier, ck.seed)
        t1 = time.time()
        if only:
            cases = [c for c in cases if c["f"] in only]
        recs, nruns = observe_all(cases)
        t2 = time.time()
        rejected = fu.tlc_validate(ck, "StrFiltersTrace", recs, batch=7000, parallel=4 if ck.tier == "quick" else 6)
        t3 = time.time()
        done, extra = mc.result()
    ck.extra["phase_s"] = {"generate": round(t1 - t0, 1), "observe_real_code": round(t2 - t1, 1),
                           "tlc_validate": round(t3 - t2, 1), "wait_model_check": round(time.time() - t3, 1)}
    for r, label in done:
        ck.add_tlc(r, label)
    ck.extra.update(extra)
    report(ck, rejected)
    ck.traces += len(recs)
    ck.evaluations += nruns
    per = {}
    for r in recs:
        per[r["f"]] = per.get(r["f"], 0) + 1
    ck.extra["cases"] = len(cases)
    ck.extra["real_filter_invocations"] = nruns
    ck.extra["distinct_observations_validated_by_TLC"] = len(recs)
    ck.extra["records_per_filter"] = per
    ck.extra["excluded_shapes"] = EXCLUDED
    ck.exhaustive = False
    ck.extra["exhaustive_note"] = ("all texts <= 3 over {a, B, blank, -, \\n, \\r\\n, <} for indent and samples of "
                                   "longer ones; every value class for int / float; seeded samples elsewhere")
    for r in recs[:: max(1, len(recs) // 4)][:4]:
        ck.sample({"filter": r["f"], "input": r["shown"], "args": {k: fu.show(v) for k, v in r["args"].items()},
                   "output": fu.show(r["out"]), "modes": r["modes"]})
    ck.assumptions += [
        "floats are observed through their printed decimal form (repr), exact thousandths only",
        "ASCII text; code points model characters",
    ]


def replay(ck, rec):
    fu.load_own_findings(ck, PID)
    c0 = rec["case"]
    if c0.get("kind") == "spec-invariant":
        for r, label in model_check(ck.tier)[0]:
            ck.add_tlc(r, label)
        return
    r = c0["record"]
    # the concrete input is regenerated from the deterministic case list (value classes such
    # as 10**400 or nan have no JSON form)
    cases = gen_cases(ck.tier, ck.seed)
    if r["how"].get("seq"):
        # the observation is one step of a sequence run in one process: run the whole sequence again
        recs = []
        for c in cases:
            if c["seq"] == r["how"]["seq"]:
                recs += observe_case(c)[0]
        if recs:
            report(ck, fu.tlc_validate(ck, "StrFiltersTrace", recs, label="replay"))
            return
    for c in cases:
        if c["f"] == r["f"] and c["tmpl"] == r["how"]["tmpl"] and repr(c["inp"])[:60] == r["shown"] \
                and {k: encv(v, c["f"] == "format") for k, v in c["args"].items()} == r["args"] \
                and c["name"] == r["name"] and bool(c.get("ae")) == bool(r["how"].get("ae")):
            recs, _ = observe_case(c)
            report(ck, fu.tlc_validate(ck, "StrFiltersTrace", recs, label="replay"))
            return
    raise core.MachineryError("replay: case not found in the generated case list")
