"""C35 - errors point at the template line that caused them.

Specs
  spec/DebugInfo.tla       the line bookkeeping of CodeGenerator (newline / write / debug_info) and
                           Template.get_corresponding_lineno as a machine; TLC checks C35_MappingSound
                           for every operation sequence up to the bound (+ negative controls).
  spec/DebugInfoTrace.tla  code->spec: newline/write calls recorded from real compilations are
                           validated step by step, with the real debug_info and the real lookup table.
  spec/LineTrack.tla       layout model: one probe (raising call or malformed token) inside a TLC-chosen
                           nest of wrappers with TLC-chosen blank lines / text / whitespace control;
                           abstract line = 1 + line breaks before the probe; operational layer = the
                           lexer's line counter (C35_TokenLine), including {% raw %} blocks whose opening
                           tag is one begin token counted by the "#bygroup" branch (Raws / CountBegin).
Binding
  spec->code: every case printed by LineTrack.tla is turned into Jinja source and rendered; the innermost
  template frame of the rewritten traceback (traceback.extract_tb) / TemplateSyntaxError.lineno and .name
  must be the (template, line) the specification reports; every tag token of Environment.lex must carry the
  line the specification gives it.
  code->spec: the same templates are compiled with a recording CodeGenerator subclass; TLC accepts or
  rejects the recorded traces.
The oracle is TLC's output; Python only builds source text from items, drives jinja2 and compares.
"""
from __future__ import annotations

import json
import random
import time
import traceback

from .. import core

PID = "C35"

# ---------------------------------------------------------------------------
# items -> Jinja source
# ---------------------------------------------------------------------------
VAR_TAGS = {"callm", "caller", "callimp", "outvar", "raise", "badexpr", "badchar", "badclose"}
NEWLINES = {"lf": "\n", "crlf": "\r\n", "cr": "\r"}


def tag_body(it):
    n, d, ref = it["name"], it["d"], it["ref"]
    nl = "\n" * it["nlin"] if it["nlin"] else " "
    if n == "if":
        return f"if{nl}t"
    if n == "for":
        return f"for{nl}i in one"
    if n == "block":
        return f"block{nl}b{d}"
    if n == "macro":
        return f"macro{nl}" + {"": f"m{d}()", "c": f"w{d}()", "i": "m()"}[ref]
    if n == "call":
        return f"call{nl}w{d}()"
    if n == "raw":
        return "raw" + ("\n" * it["nlin"])
    if n in ("endraw", "endif", "endfor", "endblock", "endmacro", "endcall", "endwith", "endfilter", "endset", "endautoescape"):
        return n
    if n == "with":
        return f"with zw{d} = 1"
    if n == "filter":
        return "filter upper"
    if n == "setblock":
        return f"set zs{d}"
    if n == "autoescape":
        return "autoescape t"
    if n == "include":
        return f'include "{ref}"'
    if n == "extends":
        return f'extends "{ref}"'
    if n == "import":
        return f'import "{ref}" as x{d}'
    if n == "caller":
        return "caller()"
    if n == "outvar":
        return "t"
    if n == "callm":
        return f"m{d}()"
    if n == "callimp":
        return f"x{d}.m()"
    if n == "raise":
        return "boom()"
    if n == "badtag":
        return "bogus"
    if n == "badexpr":
        return "1 +"
    if n == "badchar":
        return "?"
    if n == "badclose":
        return ")"
    raise core.MachineryError(f"unknown tag {n}")


# probes that are whole statements: (text between the outer delimiters); the signs go on the outer edges
STATEMENT_PROBES = {
    "raiseif": "if boom() %}{% endif",
    "raiseset": "set zz = boom()",
    "raisefor": "for zz in boom() %}{% endfor",
    "raiseauto": "autoescape boom() %}{% endautoescape",
    "raisetrans": "trans za=boom() %}x{% endtrans",
}


def render_items(items, newline):
    out = []
    for it in items:
        k = it["k"]
        if k == "tag" and it["name"] in STATEMENT_PROBES:
            out.append("{%" + it["l"] + " " + STATEMENT_PROBES[it["name"]] + " " + it["r"] + "%}")
            continue
        if k == "nl":
            out.append(newline)
        elif k == "sp":
            out.append("  ")
        elif k == "txt":
            out.append("x")
        else:
            body = tag_body(it).replace("\n", newline)
            o, c = ("{{", "}}") if it["name"] in VAR_TAGS else ("{%", "%}")
            out.append(f"{o}{it['l']} {body} {it['r']}{c}")
    return "".join(out)


class Boom(Exception):
    pass


def boom():
    raise Boom("raised by the probe")


def make_env(sources, trim, gen=None, i18n=False):
    from jinja2 import Environment, FunctionLoader

    def load(name):
        if name in sources:
            return sources[name], name, lambda: True
        return None
    env = Environment(loader=FunctionLoader(load), trim_blocks=trim, lstrip_blocks=trim, cache_size=0,
                      extensions=["jinja2.ext.i18n"] if i18n else [])
    if i18n:
        env.install_null_translations()
    if gen is not None:
        env.code_generator_class = gen
    # the data every wrapper / probe uses is global, so that imported and included templates see it
    env.globals.update(t=True, one=[1], boom=boom)
    return env


def case_sources(case, newline):
    return {t["name"]: render_items(t["items"], NEWLINES[newline]) for t in case["tpls"]}


def case_id(case):
    return dict({k: case[k] for k in ("wraps", "pre", "gap", "pgap", "sign", "nlin", "trim", "probe")},
                raw=case.get("raw", "none"))


# ---------------------------------------------------------------------------
# part B: replay of LineTrack cases
# ---------------------------------------------------------------------------
def innermost_template_frame(exc, names):
    frames = [f for f in traceback.extract_tb(exc.__traceback__) if f.filename in names]
    return (frames[-1].filename, frames[-1].lineno) if frames else None


def replay_case(ck, case, newline):
    """-> (n comparisons).  Violations are reported on ck."""
    from jinja2 import TemplateSyntaxError
    sources = case_sources(case, newline)
    names = set(sources)
    exp = (case["expect"]["tpl"], case["expect"]["line"])
    probe = case["probe"]
    env = make_env(sources, case["trim"], i18n=(probe == "raisetrans"))
    cid = case_id(case)
    rec = {"kind": "layout", "case": cid, "newline": newline, "sources": sources, "expected": list(exp)}
    fp = {"kind": "runtime-line" if probe.startswith("raise") else "syntax-line", "probe": probe,
          "innermost": case["wraps"][-1] if case["wraps"] else "top"}
    n = 0
    if probe.startswith("raise"):
        try:
            env.get_template("t1").render()
            got = ("no exception", None)
        except Boom as e:
            got = innermost_template_frame(e, names)
        except Exception as e:  # noqa: BLE001
            got = (f"{type(e).__name__}: {e}", None)
        n += 1
        if got != exp:
            ck.violation(dict(rec, actual=list(got) if got else None),
                         f"probe at {exp[0]}:{exp[1]} inside {case['wraps']} ({newline}, sign={case['sign']}, "
                         f"trim={case['trim']}): innermost template frame of the traceback is {got}", fp)
        return n
    # malformed token: compiling the template that holds it, and rendering the whole nest
    for how in ("compile", "render"):
        try:
            if how == "compile":
                env.get_template(exp[0])
            else:
                env.get_template("t1").render()
            got = ("no exception", None)
        except TemplateSyntaxError as e:
            got = (e.name, e.lineno)
        except Exception as e:  # noqa: BLE001
            got = (f"{type(e).__name__}: {e}", None)
        n += 1
        if got != exp:
            ck.violation(dict(rec, actual=list(got), how=how),
                         f"malformed token {probe!r} at {exp[0]}:{exp[1]} inside {case['wraps']} ({newline}, "
                         f"sign={case['sign']}, trim={case['trim']}): {how} reports {got}", dict(fp, how=how))
    return n


def check_token_lines(ck, case, newline):
    """Environment.lex: the *_begin token of every tag must be on the line TLC computed for the tag."""
    sources = case_sources(case, newline)
    env = make_env(sources, case["trim"], i18n=(case["probe"] == "raisetrans"))
    n = 0
    if case["probe"] in STATEMENT_PROBES:
        return 0        # a statement probe is several tags in one item: token lines are compared on the other cases
    for ti, t in enumerate(case["tpls"]):
        want = [tl["line"] for tl in case["toks"] if tl["tpl"] == ti + 1]
        try:
            got = [ln for ln, tok, _ in env.lex(sources[t["name"]]) if tok in TAG_START_TOKENS]
        except Exception:  # noqa: BLE001  (malformed probes may stop the lexer: compare the prefix)
            got = None
        if got is None:
            continue
        n += 1
        if got[:len(want)] != want[:len(got)] or (case["probe"].startswith("raise") and got != want):
            ck.violation({"kind": "token-lines", "case": case_id(case), "newline": newline,
                          "source": sources[t["name"]], "expected": want, "actual": got},
                         f"lexer reports tag tokens of {t['name']} on lines {got}, specification says {want} "
                         f"({newline}, sign={case['sign']}, trim={case['trim']})",
                         {"kind": "token-line"})
    return n


# the first token of every tag item of the specification ({% raw %} / {% endraw %} are one token each)
TAG_START_TOKENS = ("block_begin", "variable_begin", "raw_begin", "raw_end")


def lt_cfg(wrappers, depth, pres, gaps, pgaps, signs, nlins, trims, probes, count=True, invs=True, raws=("none",),
           count_begin=True):
    def S(xs):
        return "{" + ", ".join(core.tla_str(x) for x in xs) + "}"
    s = f"""CONSTANTS
  Wrappers = {S(wrappers)}
  MaxDepth = {depth}
  Pres = {S(pres)}
  Gaps = {S(gaps)}
  ProbeGaps = {S(pgaps)}
  Signs = {S(signs)}
  NlIns = {S(nlins)}
  Trims = {S(trims)}
  Probes = {S(probes)}
  CountStripped = {core.tla_str(count)}
  Raws = {S(raws)}
  CountBegin = {core.tla_str(count_begin)}
SPECIFICATION Spec
INVARIANT C35_TokenLine
"""
    if invs:
        s += "INVARIANT C35_OneProbe\nINVARIANT C35_AllTagsScanned\n"
    return s


ALL_WRAPPERS = ["if", "for", "with", "filter", "setblock", "autoescape", "block", "macro", "call", "include", "extends",
                "childblock", "import"]
STMT_PROBES = ["raiseif", "raiseset", "raisefor", "raiseauto", "raisetrans"]
RAW_WRAPPERS = ["for", "block", "macro", "include", "childblock", "import"]
ALL_GAPS = ["tight", "sp", "nl", "nlsp", "nl2", "txtnl", "nltxt"]
ALL_SIGNS = ["none", "lminus", "rminus", "both"]
ALL_PROBES = ["raise", "badtag", "badexpr", "badchar", "badclose"] + ["raiseif", "raiseset", "raisefor", "raiseauto", "raisetrans"]


def lt_cases(r):
    seen = {}
    for x in set(r.printed()):
        c = json.loads(x)
        k = json.dumps(case_id(c), sort_keys=True)
        if k in seen and seen[k] != c:
            raise core.MachineryError(f"LineTrack printed two layouts for {k}")
        seen[k] = c
    return [seen[k] for k in sorted(seen)]


def layout_runs(ck):
    quick = ck.tier == "quick"
    runs = []
    # depth <= 1: every wrapper, every layout parameter
    if quick:
        runs.append(("LineTrack depth<=1, all layouts",
                     lt_cfg(ALL_WRAPPERS[:3] + ALL_WRAPPERS[6:], 1, [0, 2], ["tight", "txtnl"], ["tight", "nl", "nlsp"],
                            ALL_SIGNS, [0, 1], [False, True], ["raise", "badtag", "badchar"])))
        runs.append(("LineTrack depth 2, every nesting",
                     lt_cfg(ALL_WRAPPERS, 2, [1], ["nl"], ["nl"], ["none", "both"], [0], [False, True],
                            ["raise"] + STMT_PROBES)))
        runs.append(("LineTrack raw blocks (top of every template / before the probe), depth<=1",
                     lt_cfg(RAW_WRAPPERS, 1, [1], ["tight", "nl", "nl2", "txtnl"], ["nl"], ALL_SIGNS, [0, 1],
                            [False, True], ["raise", "badtag", "raisefor"], raws=["top", "probe"])))
    else:
        runs.append(("LineTrack depth<=1, all layouts",
                     lt_cfg(ALL_WRAPPERS, 1, [0, 2], ALL_GAPS, ["tight", "nl", "nl2", "nlsp", "txtnl", "nltxt"], ALL_SIGNS,
                            [0, 1], [False, True], ALL_PROBES[:5])))
        runs.append(("LineTrack depth 2, every nesting",
                     lt_cfg(ALL_WRAPPERS, 2, [0, 1], ["nl", "tight"], ["nl", "tight", "nlsp"], ["none", "both"], [0],
                            [False, True], ["raise", "badtag"] + STMT_PROBES)))
        runs.append(("LineTrack depth 3, every nesting",
                     lt_cfg(ALL_WRAPPERS, 3, [1], ["nl"], ["nl"], ["none", "both"], [0], [False, True], ["raise"])))
    return runs


def layout_jobs(ck, runs):
    quick = ck.tier == "quick"
    jobs = {}
    for i, (label, cfg) in enumerate(runs):
        jobs[f"lt{i}"] = (lambda i=i, cfg=cfg: core.run_tlc(PID, "LineTrack", cfg, name=f"lt{i}",
                                                            workers=4 if quick else 8,
                                                            coverage=(i == 0 and quick), timeout=3000))
    # negative control: without the newlines_stripped term the lexer model misreports lines
    jobs["ltneg"] = lambda: core.run_tlc(
        PID, "LineTrack", lt_cfg(["if"], 1, [0], ["nl"], ["nl"], ["lminus"], [0], [False], ["raise"], count=False,
                                 invs=False), name="ltneg", workers=1)
    # negative control: without the "#bygroup" increment everything after {% raw -%} + line break is reported too early
    jobs["ltneg_raw"] = lambda: core.run_tlc(
        PID, "LineTrack", lt_cfg(["if"], 1, [0], ["nl"], ["nl"], ["rminus"], [0], [False], ["raise"], invs=False,
                                 raws=["top"], count_begin=False), name="ltneg_raw", workers=1)
    return jobs


def part_layout(ck, runs, res):
    quick = ck.tier == "quick"
    rnd = random.Random(ck.seed * 104729 + 35)
    cases = []
    for i, (label, cfg) in enumerate(runs):
        r = res[f"lt{i}"]
        ck.add_tlc(r, label)
        if i == 0 and quick:
            ck.require_coverage(r, ["Wrap", "Build", "ScanTag", "NextTemplate", "Finish"])
        cases += lt_cases(r)
    rn = res["ltneg"]
    ck.tlc_runs.append({"spec": "LineTrack negative control CountStripped=FALSE", "violated": rn.invariant_violated})
    if "C35_TokenLine" not in rn.invariant_violated:
        raise core.MachineryError("negative control CountStripped=FALSE did not violate C35_TokenLine")
    rn = res["ltneg_raw"]
    ck.tlc_runs.append({"spec": "LineTrack negative control CountBegin=FALSE (raw block)", "violated": rn.invariant_violated})
    if "C35_TokenLine" not in rn.invariant_violated:
        raise core.MachineryError("negative control CountBegin=FALSE did not violate C35_TokenLine")
    t1 = time.time()
    n = 0
    per_wrapper = {}
    for c in cases:
        nls = ["lf", "crlf", "cr"] if (not quick and len(c["wraps"]) <= 1) else [rnd.choice(["lf", "crlf", "cr"])]
        for nl in nls:
            n += replay_case(ck, c, nl)
            n += check_token_lines(ck, c, nl)
        per_wrapper[c["wraps"][-1] if c["wraps"] else "top"] = per_wrapper.get(c["wraps"][-1] if c["wraps"] else "top", 0) + 1
        if len(ck.samples) < 4 and c["wraps"] and rnd.random() < 0.002:
            ck.sample({"case": case_id(c), "sources": case_sources(c, "lf"), "expected": c["expect"]})
    ck.traces += n
    ck.evaluations += n
    ck.extra["layout_cases"] = len(cases)
    ck.extra["layout_cases_by_innermost_wrapper"] = per_wrapper
    ck.extra.setdefault("phase_s", {}).update({"layout_replay": round(time.time() - t1, 1)})
    return cases


# ---------------------------------------------------------------------------
# part A + C: DebugInfo model and trace validation
# ---------------------------------------------------------------------------
def di_cfg(maxline, maxops, pair=True, back=True, invs=True):
    s = f"""CONSTANTS
  MaxLine = {maxline}
  MaxOps = {maxops}
  PairAfterAdvance = {core.tla_str(pair)}
  ScanBackwards = {core.tla_str(back)}
SPECIFICATION Spec
INVARIANT C35_MappingSound
"""
    if invs:
        s += "INVARIANT TypeOK\nINVARIANT C35_PairsIncreasing\nINVARIANT C35_PendingIsCurrent\n"
    return s


def model_jobs(ck):
    quick = ck.tier == "quick"
    jobs = {"di": lambda: core.run_tlc(PID, "DebugInfo", di_cfg(3, 9 if quick else 12), name="di",
                                       workers=3 if quick else 8, coverage=True, timeout=3000)}
    for key, kw in (("dineg_pair", {"pair": False}), ("dineg_scan", {"back": False})):
        jobs[key] = (lambda key=key, kw=kw: core.run_tlc(PID, "DebugInfo", di_cfg(3, 7, invs=False, **kw), name=key,
                                                         workers=1))
    return jobs


def part_model(ck, res):
    quick = ck.tier == "quick"
    r = res["di"]
    ck.add_tlc(r, f"DebugInfo: every operation sequence <= {9 if quick else 12}, template lines 1..3 in any order")
    ck.require_coverage(r, ["Newline", "Write"])
    for label, key in (("PairAfterAdvance=FALSE", "dineg_pair"), ("ScanBackwards=FALSE", "dineg_scan")):
        rn = res[key]
        ck.tlc_runs.append({"spec": f"DebugInfo negative control {label}", "violated": rn.invariant_violated})
        if "C35_MappingSound" not in rn.invariant_violated:
            raise core.MachineryError(f"negative control {label} did not violate C35_MappingSound")


def record_traces(cases, rnd, limit):
    """Compile templates of the cases with a recording CodeGenerator -> list of traces."""
    from jinja2.compiler import CodeGenerator

    class RecGen(CodeGenerator):
        made = []

        def __init__(self, *a, **kw):
            super().__init__(*a, **kw)
            self.ops = []
            RecGen.made.append(self)

        def newline(self, node=None, extra=0):
            self.ops.append({"op": "n", "line": int(node.lineno) if node is not None else 0, "extra": int(extra)})
            super().newline(node, extra)

        def write(self, x):
            super().write(x)
            self.ops.append({"op": "w", "code": int(self.code_lineno)})

    pick = [c for c in cases if c["probe"].startswith("raise") and c["probe"] != "raisetrans"]
    rnd.shuffle(pick)
    traces, meta = [], []
    for c in pick:
        if len(traces) >= limit:
            break
        sources = case_sources(c, "lf")
        env = make_env(sources, c["trim"], RecGen)
        for name in sorted(sources):
            del RecGen.made[:]
            try:
                tmpl = env.get_template(name)
            except Exception:  # noqa: BLE001
                continue
            if len(RecGen.made) != 1:
                continue
            g = RecGen.made[0]
            ncode = g.code_lineno
            traces.append({"ops": g.ops, "debug": [list(p) for p in tmpl.debug_info],
                           "lookup": [int(tmpl.get_corresponding_lineno(k)) for k in range(1, ncode + 1)]})
            meta.append({"case": case_id(c), "template": name, "source": sources[name]})
    return traces, meta


TRACE_CFG = """CONSTANTS
  MaxLine = 1000
  MaxOps = 100000
  PairAfterAdvance = TRUE
  ScanBackwards = TRUE
INIT TInit
NEXT TNext
INVARIANT Collect
INVARIANT C35_MappingSound
INVARIANT C35_PairsIncreasing
INVARIANT C35_PendingIsCurrent
POSTCONDITION Post
"""


def validate_traces(ck, traces, meta, name="trace"):
    d = core.workdir(PID, name + "_in")
    tf = d / "traces.json"
    tf.write_text(json.dumps(traces))
    r = core.run_tlc(PID, "DebugInfoTrace", TRACE_CFG, name=name, workers=1, env={"TRACE_FILE": str(tf)}, timeout=3000)
    ck.add_tlc(r, f"DebugInfoTrace: {len(traces)} recorded compilations")
    rej = None
    for line in r.printed():
        try:
            j = json.loads(line)
        except ValueError:
            continue
        if isinstance(j, dict) and "rejected" in j:
            rej = j["rejected"]
    if rej is None:
        raise core.MachineryError("DebugInfoTrace did not report")
    # ToJson of a function with integer domain: dict with string keys (or a list when the domain is 1..n)
    items = rej.items() if isinstance(rej, dict) else enumerate(rej, 1)
    for tid, matched in items:
        m = meta[int(tid) - 1]
        ops = traces[int(tid) - 1]["ops"]
        ck.violation({"kind": "trace", "case": m["case"], "template": m["template"], "source": m["source"],
                      "matched_ops": matched, "next_op": ops[matched] if matched < len(ops) else "end (debug_info / lookup differ)"},
                     f"recorded code-generator trace of {m['template']} ({m['case']}) is rejected by DebugInfo.tla after "
                     f"{matched} of {len(ops)} operations: the real debug_info / get_corresponding_lineno is not what "
                     f"the specification derives from the newline/write calls",
                     {"kind": "debuginfo-trace"})
    return len(traces)


def part_traces(ck, cases):
    quick = ck.tier == "quick"
    t0 = time.time()
    rnd = random.Random(ck.seed * 31 + 5)
    traces, meta = record_traces(cases, rnd, 120 if quick else 3000)
    if not traces:
        raise core.MachineryError("no code-generator traces recorded")
    n = validate_traces(ck, traces, meta)
    ck.traces += n
    ck.extra["generator_traces"] = n
    ck.extra["generator_ops"] = sum(len(t["ops"]) for t in traces)
    ck.extra.setdefault("phase_s", {})["trace_validation"] = round(time.time() - t0, 1)


def load_own_findings(ck):
    """findings.d/C35.json holds the genuine defects this check found; until the maintainer has merged
    them into known_findings.json they are matched from there."""
    f = core.VERIF / "findings.d" / f"{PID}.json"
    if f.exists():
        have = {k["id"] for k in core.load_known()}      # merged entries (open or fixed) win
        ck._known += [k for k in json.loads(f.read_text())
                      if k["property"] == PID and k.get("status") == "open" and k["id"] not in have]


def run(ck):
    core.use_repo()
    load_own_findings(ck)
    from concurrent.futures import ThreadPoolExecutor
    runs = layout_runs(ck)
    jobs = dict(model_jobs(ck), **layout_jobs(ck, runs))
    t0 = time.time()
    # the independent TLC runs go side by side
    with ThreadPoolExecutor(len(jobs)) as ex:
        futs = {k: ex.submit(fn) for k, fn in jobs.items()}
        res = {k: f.result() for k, f in futs.items()}
    ck.extra.setdefault("phase_s", {})["tlc_all"] = round(time.time() - t0, 1)
    part_model(ck, res)
    cases = part_layout(ck, runs, res)
    part_traces(ck, cases)
    ck.exhaustive = ck.tier != "quick"
    ck.extra["excluded_shapes"] = [
        "a probe that spans several lines (which of its lines is 'the' line is not fixed by the property)",
        "errors detected at end of input (unclosed block): the offending token is the end of the template",
        "blocks inside macro / call bodies (rejected or unsupported by Jinja), extends anywhere but first in a template",
        "line statements / line comments and custom delimiters",
    ]
    ck.assumptions += [
        "the 'nl' item stands for one of \\n, \\r\\n, \\r (quick: one seeded choice per case, thorough: all three)",
        "fake_traceback internals are observed through traceback.extract_tb, not modelled",
    ]


def replay(ck, rec):
    core.use_repo()
    load_own_findings(ck)
    c = rec["case"]
    if c["kind"] in ("layout", "token-lines"):
        cid = c["case"]
        ws = sorted(set(cid["wraps"])) or ["if"]
        cfg = lt_cfg(ws, len(cid["wraps"]), [cid["pre"]], [cid["gap"]], [cid["pgap"]], [cid["sign"]], [cid["nlin"]],
                     [cid["trim"]], [cid["probe"]], raws=[cid.get("raw", "none")])
        r = core.run_tlc(PID, "LineTrack", cfg, name="replay", workers=2)
        ck.add_tlc(r, "LineTrack replay")
        for case in lt_cases(r):
            if case["wraps"] == cid["wraps"]:       # (one Raws value in the replay configuration)
                replay_case(ck, case, c["newline"])
                check_token_lines(ck, case, c["newline"])
        return
    if c["kind"] == "trace":
        cid = c["case"]
        ws = sorted(set(cid["wraps"])) or ["if"]
        cfg = lt_cfg(ws, len(cid["wraps"]), [cid["pre"]], [cid["gap"]], [cid["pgap"]], [cid["sign"]], [cid["nlin"]],
                     [cid["trim"]], [cid["probe"]], raws=[cid.get("raw", "none")])
        r = core.run_tlc(PID, "LineTrack", cfg, name="replay", workers=2)
        cases = [x for x in lt_cases(r) if x["wraps"] == cid["wraps"]]
        traces, meta = record_traces(cases, random.Random(0), 10)
        validate_traces(ck, traces, meta, name="replay_trace")
        return
    raise core.MachineryError(f"unknown case kind {c['kind']}")
