"""C17 - a sandboxed template cannot obtain private or internal attributes.

Specs: spec/SandboxRules.tla (Private / Internal / Forbidden: the abstract rule,
and the transcription of is_safe_attribute / is_internal_attribute),
spec/SandboxGate.tla (Fetch / Gate / Deliver | DeliverUndefined / Use with the
ghost sets tainted / handed / used, invariant C17_NoTaintedUse,
C17_OperationalGateRefinesRule), spec/SandboxTrace.tla (trace validation).

Binding (code -> spec): templates generated from a grammar of access routes x
attribute names x object kinds are rendered in a SandboxedEnvironment subclass
that only logs (is_safe_attribute verdicts, what getattr / getitem returned);
data are probe objects whose designated attributes are fresh tracer values that
log every use, plus real functions, methods, classes, generators, coroutines,
async generators, code, frame and traceback objects; the template hands its
result to a recording sink.  TLC validates every recorded trace against
SandboxGate.  Structural part: the raw generated Python source of every program
is parsed with `ast`; every Attribute / Subscript node becomes an `ins` event
that TLC checks against the rule "direct access on a template-derived value
only for slices".
"""
from __future__ import annotations

import ast
import asyncio
import random
import sys
import warnings
from concurrent.futures import ProcessPoolExecutor

from .. import core
from .. import sandbox_util as su

PID = "C17"

NAMES = ["ok", "_p", "__priv__", "_", "__class__", "__init__", "__globals__", "__code__", "__func__", "__self__",
         "__mro__", "__subclasses__", "__dict__", "__call__", "mro", "gi_frame", "gi_code", "gi_running",
         "gi_yieldfrom", "cr_frame", "cr_code", "cr_await", "cr_running", "ag_frame", "ag_code", "ag_await",
         "f_locals", "f_globals", "f_back", "f_code", "co_consts", "co_names", "co_code", "tb_frame", "tb_next",
         "tb_lineno", "func_globals", "func_code", "im_func", "im_class", "format", "upper", "keys", "kid", "k"]
ROOTS = ["po", "fn", "meth", "cls", "gen", "coro", "agen", "code", "frame", "tb", "s", "d", "mk"]
# literal roots: the compiler may fold accesses on them at compile time
LITERALS = {"'abc'": "abc", "[1]": [1], "{'k': 1}": {"k": 1}, "(1,)": (1,), "42": 42, "none": None, "true": True,
            "('a'|safe)": "a"}

# value-returning routes: %(X)s object expression, %(N)s attribute name; the result goes to a wrapper
VALUE_ROUTES = {
    "dot": "%(X)s.%(N)s",
    "sub": "%(X)s['%(N)s']",
    "sub_concat": "%(X)s['%(N1)s' ~ '%(N2)s']",
    "sub_var": "%(X)s[nvar]",
    "attr_filter": "%(X)s|attr('%(N)s')",
    "attr_filter_var": "%(X)s|attr(nvar)",
    "map_attribute": "[%(X)s]|map(attribute='%(N)s')|list",
    "map_attr_filter": "[%(X)s]|map('attr', '%(N)s')|list",
    "map_attribute_default": "[%(X)s]|map(attribute='%(N)s', default=none)|list",
}
FORMAT_ROUTES = {
    "format_pos": "'[{0.%(N)s}]'.format(%(X)s)",
    "format_kw": "'[{x.%(N)s}]'.format(x=%(X)s)",
    "format_item": "'[{0[%(N)s]}]'.format(%(X)s)",
    "format_auto": "'[{.%(N)s}]'.format(%(X)s)",
    "format_map": "'[{x.%(N)s}]'.format_map({'x': %(X)s})",
    "format_spec": "'[{0.%(N)s!s:>0}]'.format(%(X)s)",
    "markup_format": "('[{0.%(N)s}]'|safe).format(%(X)s)",
    "markup_format_map": "('[{x.%(N)s}]'|safe).format_map({'x': %(X)s})",
    "format_via_list": "['[{0.%(N)s}]'.format][0](%(X)s)",
    "format_via_attr": "('[{0.%(N)s}]'|attr('format'))(%(X)s)",
    "format_via_sub": "'[{0.%(N)s}]'['format'](%(X)s)",
    "format_map_via_sub": "'[{x.%(N)s}]'['format_map']({'x': %(X)s})",
    "format_from_ctx": "fmt.format(%(X)s)",            # fmt = '[{0.N}]' passed as data
    "markup_from_ctx": "mfmt.format(%(X)s)",           # mfmt = Markup('[{0.N}]') passed as data
}
# statement-level routes (complete templates; `sink` receives the result)
STMT_ROUTES = {
    "stored_format": "{%% set f = '[{0.%(N)s}]'.format %%}{{ sink(f(%(X)s)) }}",
    "stored_format_map": "{%% set f = '[{x.%(N)s}]'.format_map %%}{{ sink(f({'x': %(X)s})) }}",
    "stored_markup_format": "{%% set f = ('[{0.%(N)s}]'|safe).format %%}{{ sink(f(%(X)s)) }}",
    "loop_name": "{%% for n in ['%(N)s'] %%}{{ sink(%(X)s[n]) }}{%% endfor %%}",
    "macro_param": "{%% macro g(o) %%}{{ sink(o.%(N)s) }}{%% endmacro %%}{{ g(%(X)s) }}",
    "with_alias": "{%% with o = %(X)s %%}{{ sink(o.%(N)s) }}{%% endwith %%}",
    "loop_over_attr": "{%% for i in %(X)s.%(N)s %%}{{ sink(i) }}{%% endfor %%}",
    "groupby": "{%% for g in [%(X)s]|groupby('%(N)s') %%}{{ sink(g.grouper) }}{%% endfor %%}",
    "call_block": "{%% macro g() %%}{{ caller(%(X)s) }}{%% endmacro %%}"
                  "{%% call(o) g() %%}{{ sink(o.%(N)s) }}{%% endcall %%}",
    "cond": "{{ sink(%(X)s.%(N)s if true else 0) }}",
    "filter_block": "{%% filter upper %%}{{ sink(%(X)s.%(N)s) }}{%% endfilter %%}",
}
# routes where a filter consumes the attribute values itself (tracers log the use)
USE_ROUTES = {
    "sort": "{{ [%(X)s, %(X)s]|sort(attribute='%(N)s')|list|length }}",
    "sort_multi": "{{ [%(X)s, %(X)s]|sort(attribute='%(N)s,ok')|list|length }}",
    "sort_multi_dotted": "{{ [%(X)s, %(X)s]|sort(attribute='kid.%(N)s,ok')|list|length }}",
    "unique": "{{ [%(X)s, %(X)s]|unique(attribute='%(N)s')|list|length }}",
    "sum": "{{ [%(X)s]|sum(attribute='%(N)s') }}",
    "min": "{{ [%(X)s, %(X)s]|min(attribute='%(N)s') is defined }}",
    "max": "{{ [%(X)s, %(X)s]|max(attribute='%(N)s') is defined }}",
    "join": "{{ [%(X)s]|join(',', attribute='%(N)s') }}",
    "selectattr": "{{ [%(X)s]|selectattr('%(N)s')|list|length }}",
    "rejectattr": "{{ [%(X)s]|rejectattr('%(N)s')|list|length }}",
    "selectattr_test": "{{ [%(X)s]|selectattr('%(N)s', 'equalto', 1)|list|length }}",
    "dotted": "{{ sink([%(X)s]|map(attribute='kid.%(N)s')|list) }}",
}
WRAPPERS = {
    "sink": "{{ sink(%s) }}",
    "print": "{{ %s }}",
    "call": "{{ (%s)() }}",
    "iterate": "{%% for i in %s %%}{{ i }}{%% endfor %%}",
    "operate": "{{ (%s) + 1 }}",
    "store": "{%% set v = %s %%}{{ sink(v) }}",
    "string_filter": "{{ (%s)|string }}",
    "truth": "{%% if %s %%}y{%% endif %%}",
    "defined": "{{ (%s) is defined }}",
}


# ---------------------------------------------------------------------------
# data
# ---------------------------------------------------------------------------

class Holder:
    def meth(self):
        return 1


def _gen():
    yield 1


async def _coro():
    return 1


async def _agen():
    yield 1


def _tb():
    try:
        raise ValueError("x")
    except ValueError as e:
        return e.__traceback__


def make_data(rec, name):
    """The context of one render.  `name` is the attribute under test (only used for
    the format strings that travel as data)."""
    from markupsafe import Markup

    def fn():
        return 1

    kid = su.Probe(rec, {"ok", "_p", "__priv__", "_"})
    po = su.Probe(rec, {"ok", "_p", "__priv__", "_"}, {"kid": kid, "fn": fn})
    coro = _coro()
    d = {"_p": su.Tracer(rec), "ok": su.Tracer(rec), "k": 1, "_": su.Tracer(rec)}
    ctx = {"po": po, "fn": fn, "meth": Holder().meth, "cls": Holder, "gen": _gen(), "coro": coro, "agen": _agen(),
           "code": fn.__code__, "frame": sys._getframe(), "tb": _tb(), "s": "abc", "d": d, "mk": Markup("abc"),
           "nvar": name, "fmt": "[{0.%s}]" % name, "mfmt": Markup("[{0.%s}]" % name)}
    return ctx, coro


def walk(root, names):
    """The access path on the data, by plain Python: the kind of the object every step
    is applied to and whether the name is an item or an attribute there."""
    path, cur = [], root
    for n in names:
        k = su.kind_of(cur)
        if type(cur) is dict and n in cur:
            path.append({"k": k, "a": su.nm(n), "how": "item"})
            cur = cur[n]
            continue
        path.append({"k": k, "a": su.nm(n), "how": "attr"})
        try:
            cur = getattr(cur, n)
        except Exception:  # noqa
            break
    return path


# ---------------------------------------------------------------------------
# case generation
# ---------------------------------------------------------------------------

def expr_for(route, X, N):
    table = VALUE_ROUTES if route in VALUE_ROUTES else FORMAT_ROUTES
    h = max(1, len(N) // 2)
    return table[route] % {"X": X, "N": N, "N1": N[:h], "N2": N[h:]}


def gen_cases(tier, seed):
    """(root, names-on-the-path, route, wrapper, async, immutable) tuples."""
    rnd = random.Random(seed)
    quick = tier == "quick"
    cases = []
    # 1. every root x name through the two plain syntaxes and the sink
    for X in ROOTS:
        for N in NAMES:
            cases.append((X, (N,), "dot", "sink", False, False))
            if not quick or rnd.random() < 0.3:
                cases.append((X, (N,), "sub", "sink", False, False))
    for X in LITERALS:
        for N in ["__class__", "__init__", "_p", "format", "upper", "k", "__doc__", "__add__", "real", "__dict__"]:
            for route in ("dot", "sub", "attr_filter", "format_pos"):
                if not quick or route == "dot" or rnd.random() < 0.3:
                    cases.append((X, (N,), route, "sink", False, False))
        cases.append((X, ("__class__", "__mro__"), "dot", "sink", False, False))
        cases.append((X, ("__class__", "mro"), "sub", "sink", False, False))
    # 2. every route x wrapper on a selection of (root, name)
    pairs = [(X, N) for X in ROOTS for N in NAMES]
    all_routes = list(VALUE_ROUTES) + list(FORMAT_ROUTES) + list(STMT_ROUTES) + list(USE_ROUTES)
    hot = [("po", "_p"), ("po", "__priv__"), ("po", "ok"), ("po", "__class__"), ("fn", "__globals__"),
           ("gen", "gi_frame"), ("gen", "gi_code"), ("coro", "cr_frame"), ("coro", "cr_code"), ("agen", "ag_frame"),
           ("agen", "ag_code"), ("cls", "mro"), ("cls", "__subclasses__"), ("code", "co_consts"),
           ("frame", "f_locals"), ("tb", "tb_frame"), ("meth", "__func__"), ("s", "__class__"), ("d", "_p"),
           ("d", "__class__"), ("mk", "__class__"), ("po", "_")]
    for route in all_routes:
        sel = hot + rnd.sample(pairs, 6 if quick else 120)
        for X, N in (sel if not quick else rnd.sample(hot, 10) + sel[len(hot):]):
            if route in VALUE_ROUTES:
                ws = list(WRAPPERS) if not quick else ["sink", rnd.choice(list(WRAPPERS))]
            else:
                ws = ["sink"]
            for w in ws:
                for is_async in ((False, True) if (not quick or rnd.random() < 0.15) else (False,)):
                    cases.append((X, (N,), route, w, is_async, (not quick) and rnd.random() < 0.2))
    # 3. paths of length 2 and 3
    chains = [("po", ("kid", "_p")), ("po", ("kid", "ok")), ("po", ("kid", "__class__")), ("po", ("fn", "__globals__")),
              ("po", ("_p", "ok")), ("fn", ("__code__", "co_consts")), ("gen", ("gi_frame", "f_locals")),
              ("cls", ("__init__", "__globals__")), ("po", ("__class__", "__mro__")),
              ("meth", ("__func__", "__globals__")), ("tb", ("tb_frame", "f_globals")), ("d", ("_p", "ok")),
              ("cls", ("meth", "__globals__")), ("cls", ("meth", "__code__", "co_consts")),
              ("po", ("kid", "kid", "_p")), ("po", ("fn", "__code__", "co_names")), ("d", ("k", "__class__"))]
    nrand = 120 if quick else 6000
    for _ in range(nrand):
        chains.append((rnd.choice(ROOTS), tuple(rnd.choice(NAMES) for _ in range(rnd.choice([2, 2, 3])))))
    for X, names in chains:
        for route in ("dot", "sub", "attr_filter", "map_attribute", "format_pos", "format_map", "dotted_arg"):
            if quick and route not in ("dot", "format_pos") and rnd.random() < 0.6:
                continue
            cases.append((X, names, route, "sink", False, False))
    seen, out = set(), []
    for c in cases:
        if c not in seen:
            seen.add(c)
            out.append(c)
    return out


def source_of(case):
    X, names, route, wrapper, is_async, immutable = case
    if len(names) == 1:
        N = names[0]
        if route in STMT_ROUTES:
            return STMT_ROUTES[route] % {"X": X, "N": N}, ("[]" if "format" in route else None)
        if route in USE_ROUTES:
            return USE_ROUTES[route] % {"X": X, "N": N}, None
        e = expr_for(route, X, N)
        return WRAPPERS[wrapper] % e, ("[]" if route in FORMAT_ROUTES else None)
    # chains
    if route == "dot":
        e = X + "".join(f".{n}" for n in names)
    elif route == "sub":
        e = X + "".join(f"['{n}']" for n in names)
    elif route == "attr_filter":
        e = X + "".join(f"|attr('{n}')" for n in names)
    elif route == "map_attribute":
        e = "[%s]|map(attribute='%s')|list" % (X, ".".join(names))
    elif route == "dotted_arg":
        e = "[%s]|map(attribute='%s')|map(attribute='%s')|list" % (X, names[0], ".".join(names[1:]))
    elif route == "format_pos":
        return "{{ sink('[{0.%s}]'.format(%s)) }}" % (".".join(names), X), "[]"
    elif route == "format_map":
        return "{{ sink('[{x[%s].%s}]'.format_map({'x': %s})) }}" % (names[0], ".".join(names[1:]), X), "[]"
    else:
        raise core.MachineryError(route)
    return "{{ sink(%s) }}" % e, None


def run_case(case):
    core.use_repo()
    X, names, route, wrapper, is_async, immutable = case
    src, empty = source_of(case)
    rec = su.Recorder()
    env = su.make_env(rec, immutable=immutable, enable_async=is_async)
    rec.enabled = False
    ctx, coro = make_data(rec, names[0])
    path = walk(LITERALS[X] if X in LITERALS else ctx[X], names)
    rec.enabled = True
    ctx["sink"] = su.Sink(rec, empty)
    with warnings.catch_warnings():
        warnings.simplefilter("ignore")
        outcome, text = su.render(env, src, ctx, is_async)
        coro.close()
    rec.emit("end", s=outcome)
    return {"env": "immutable" if immutable else "sandbox", "policy": "default", "path": path, "callables": [],
            "ev": rec.ev}, src, text


# ---------------------------------------------------------------------------
# structural part: the generated code
# ---------------------------------------------------------------------------

INTERNAL_ROOTS = {"environment", "context", "missing", "undefined", "resolve", "concat", "cond_expr_undefined",
                  "parent_template", "included_template", "template", "self", "blocks", "name", "debug_info",
                  "_loop_vars", "_block_vars", "caller", "Markup", "escape", "Namespace", "Macro", "LoopContext",
                  "AsyncLoopContext", "TemplateReference", "TemplateRuntimeError", "Undefined", "str", "fiter",
                  "event", "auto_await", "auto_aiter", "auto_to_list", "gen", "e"}
GATE_CALLS = {("environment", "getattr"), ("environment", "getitem"), ("environment", "call"),
              ("environment", "call_binop"), ("environment", "call_unop"), ("context", "call")}
INTERNAL_CALLS = {"get_template", "select_template", "get_or_select_template", "new_context", "make_module",
                  "_get_default_module", "make_module_async", "_get_default_module_async", "derived", "get_all",
                  "get_exported", "items", "copy", "super"}


def base_class(node):
    """internal | template | unknown for the expression an Attribute/Subscript is applied to."""
    if isinstance(node, ast.Name):
        if node.id.startswith("l_"):
            return "template"
        if node.id.startswith("t_") or node.id in INTERNAL_ROOTS:
            return "internal"
        return "unknown"
    if isinstance(node, (ast.Attribute, ast.Subscript)):
        return base_class(node.value)
    if isinstance(node, ast.Await):
        return base_class(node.value)
    if isinstance(node, ast.Call):
        f = node.func
        if isinstance(f, ast.Name):
            if f.id in ("resolve", "undefined", "str", "escape", "Markup", "to_string", "auto_await", "identity",
                        "markup_join", "str_join") or f.id.startswith("t_"):
                # values computed from template data (auto_await passes its argument through)
                if f.id == "auto_await" and node.args:
                    return base_class(node.args[0])
                return "template"
            return "unknown"
        if isinstance(f, ast.Attribute):
            if isinstance(f.value, ast.Name) and (f.value.id, f.attr) in GATE_CALLS:
                return "template"
            if f.attr in INTERNAL_CALLS and base_class(f.value) == "internal":
                return "internal"
            if base_class(f.value) == "template":
                return "template"
        return "unknown"
    if isinstance(node, (ast.Constant, ast.List, ast.Dict, ast.Tuple, ast.Set, ast.JoinedStr, ast.BinOp, ast.UnaryOp,
                         ast.Compare, ast.BoolOp, ast.IfExp, ast.ListComp, ast.GeneratorExp)):
        return "template"
    return "unknown"


def structure_trace(env, src):
    code = env.compile(src, raw=True)
    tree = ast.parse(code)
    ev = []
    for node in ast.walk(tree):
        if isinstance(node, ast.Attribute):
            op, name = "attr", node.attr
        elif isinstance(node, ast.Subscript):
            sl = node.slice
            # slices are the documented exception; the compiler writes them either as `a:b` or as
            # a `slice(a, b, c)` object (also inside a subscript tuple)
            def is_slice(x):
                return isinstance(x, ast.Slice) or (isinstance(x, ast.Call) and isinstance(x.func, ast.Name) and x.func.id == "slice")
            op = "slice" if is_slice(sl) or (isinstance(sl, ast.Tuple) and sl.elts and all(is_slice(x) or True for x in sl.elts) and any(is_slice(x) for x in sl.elts)) else "sub"
            name = ""
        else:
            continue
        ev.append({"e": "ins", "o": 0, "k": base_class(node.value), "a": su.nm(name), "v": 0, "how": "",
                   "ok": False, "s": op})
    ev.append({"e": "end", "o": 0, "k": "", "a": su.nm(""), "v": 0, "how": "", "ok": False, "s": "ok"})
    return {"env": "sandbox", "policy": "default", "path": [], "callables": [], "ev": ev}


EXTRA_PROGRAMS = [
    "{{ x[1:2] }}{{ x.y[::2] }}{{ x[a:b].z }}",
    "{% for a in xs if a.ok recursive %}{{ loop.index }}{{ loop(a.kids) }}{{ a['k']|attr('z') }}{% endfor %}",
    "{% macro g(o, p=o.q) %}{{ o.x }}{{ varargs[0].y }}{{ kwargs.z }}{% endmacro %}{{ g(x, 1, 2, z=3).w }}",
    "{% call(o) g(1) %}{{ o.y() }}{% endcall %}{{ (x.y if x.z else w.v).u }}",
    "{% set q = x.y %}{% set a, b = x.pair %}{{ q.z }}{{ a.b }}{% with r = q.s %}{{ r.t }}{% endwith %}",
    "{{ x.y.z()|attr('w')|map(attribute='v')|list }}{{ '%s'|format(x.y) }}{{ x.y ~ x['z'] }}",
    "{{ [x.a, x.b][0].c }}{{ {'k': x.a}.k.b }}{{ (x.a, x.b)[1].c }}{{ 'lit'.upper() }}{{ 'a{0.b}'.format(x) }}",
    "{% filter upper %}{{ x.y }}{% endfilter %}{% if x.a is defined and x.b in x.c %}{{ x.d }}{% endif %}",
    "{% set t %}{{ x.y }}{% endset %}{{ t.z }}{% for k, v in x.items() %}{{ k.a }}{{ v.b }}{% else %}{{ x.e }}{% endfor %}",
    "{% block b %}{{ x.y }}{{ self.b }}{{ super.z }}{% endblock %}{% autoescape true %}{{ x.html }}{% endautoescape %}",
    "{{ range(3)[1] }}{{ lipsum.x }}{{ cycler(1, 2).next() }}{{ namespace(a=1).a }}{{ dict(a=x).a.b }}{{ joiner(',').x }}",
]


def structural(ck, sources):
    from jinja2.sandbox import SandboxedEnvironment

    traces, meta = [], []
    for is_async in (False, True):
        env = SandboxedEnvironment(enable_async=is_async)
        for src in sources:
            try:
                traces.append(structure_trace(env, src))
                meta.append((src, is_async))
            except Exception as e:  # noqa
                raise core.MachineryError(f"cannot compile / parse generated code of {src!r}: {e!r}")
    return traces, meta


# ---------------------------------------------------------------------------

def design_model(ck):
    quick = ck.tier == "quick"
    kinds = ["plain", "function", "type", "generator", "coroutine", "asyncgen", "code", "frame", "traceback", "dict",
             "str", "method"]
    r = su.gate_model(PID, "gate_model",
                      [su.conf_tla("sandbox", "abstract"), su.conf_tla("sandbox", "operational"),
                       su.conf_tla("immutable", "abstract")],
                      1 if quick else 2, kinds, [],
                      ["TypeOK", "C17_NoTaintedUse", "C17_OperationalGateRefinesRule"], coverage=quick, timeout=3000)
    ck.add_tlc(r, "SandboxGate: abstract gate and transcription of is_safe_attribute")
    if quick:
        su.require_cov(ck, r, ["MFetch", "Gate", "Deliver", "DeliverUndefined", "MUse"])


def run(ck):
    su.load_own_findings(ck, PID)
    bg = su.Background(design_model, ck)      # TLC on the design model runs while the engine is exercised
    cases = gen_cases(ck.tier, ck.seed)
    if len(cases) > 2500:
        with ProcessPoolExecutor(max_workers=12) as ex:
            results = list(ex.map(run_case, cases, chunksize=100))
    else:
        results = [run_case(c) for c in cases]
    traces = [r[0] for r in results]
    nfetch = sum(1 for t in traces for e in t["ev"] if e["e"] == "fetch")
    ngate = sum(1 for t in traces for e in t["ev"] if e["e"] == "gate")
    nrecv = sum(1 for t in traces for e in t["ev"] if e["e"] == "recv")
    nuse = sum(1 for t in traces for e in t["ev"] if e["e"] == "use")
    ck.extra["events"] = {"fetch": nfetch, "gate": ngate, "recv": nrecv, "use": nuse}
    if not (nfetch and ngate and nrecv and nuse):
        raise core.MachineryError(f"vacuous traces: {ck.extra['events']}")
    # structural part over every distinct program
    sources = sorted({r[1] for r in results}) + EXTRA_PROGRAMS
    if ck.tier == "quick":
        sources = sources[::9] + EXTRA_PROGRAMS
    straces, smeta = structural(ck, sources)
    unknown = sorted({(e["s"], e["a"]["n"]) for t in straces for e in t["ev"] if e["e"] == "ins" and e["k"] == "unknown"})
    if unknown:
        ck.extra.setdefault("drift", []).append(
            {"what": "generated code contains Attribute/Subscript nodes whose base the harness cannot classify "
                     "(neither runtime-internal nor template-derived); not counted as violations", "nodes": unknown[:20]})
    ck.extra["generated_programs_structurally_checked"] = len(straces)
    ck.extra["ins_events"] = sum(len(t["ev"]) - 1 for t in straces)
    allt = traces + straces
    rejected = su.validate(ck, PID, allt, "traces", parallel=2 if ck.tier == "quick" else 6)
    n = len(traces)
    for idx, stuck in rejected:
        if idx < n:
            case = cases[idx]
            t, src, text = results[idx]
            ev = t["ev"][stuck - 1] if stuck else {"e": "?"}
            X, names, route, wrapper, is_async, immutable = case
            ck.violation({"kind": "access", "case": list(case), "src": src, "events": t["ev"], "path": t["path"],
                          "stuck": stuck, "output": text},
                         f"sandbox ({'async' if is_async else 'sync'}{', immutable' if immutable else ''}): `{src}` on "
                         f"{X} ({t['path'][0]['k'] if t['path'] else '?'}), names {list(names)}: event "
                         f"{ev['e']}(kind={ev.get('k')}, attr={ev.get('a', {}).get('n')!r}, ok={ev.get('ok')}, "
                         f"s={ev.get('s')!r}) is not allowed by SandboxGate (private/internal attribute handed out "
                         f"or used); output {text!r}",
                         {"kind": "forbidden-attribute", "route": route, "event": ev["e"],
                          "objkind": t["path"][0]["k"] if t["path"] else "", "name": names[-1]})
        else:
            src, is_async = smeta[idx - n]
            t = straces[idx - n]
            ev = t["ev"][stuck - 1] if stuck else {"e": "?"}
            ck.violation({"kind": "structure", "src": src, "async": is_async, "stuck": stuck, "event": ev},
                         f"generated code of sandboxed `{src}` ({'async' if is_async else 'sync'}) performs a direct "
                         f"{ev.get('s')} access {ev.get('a', {}).get('n')!r} on a template-derived value",
                         {"kind": "direct-access-in-generated-code", "op": ev.get("s")})
    ck.traces += len(allt)
    ck.evaluations += len(allt)
    ck.extra["access_cases"] = n
    ck.extra["routes"] = sorted({c[2] for c in cases})
    for i in (0, n // 2):
        ck.sample({"template": results[i][1], "path": traces[i]["path"],
                   "events": [(e["e"], e["a"]["n"], e["ok"], e["s"]) for e in traces[i]["ev"]]})
    bg.join()
    ck.exhaustive = False
    ck.extra["exhaustive_note"] = ("every root kind x attribute name through dot and subscript; all routes x wrappers on "
                                   "the escape-primitive pairs plus a seeded sample; seeded sample of paths of length 2-3")
    ck.extra["excluded_shapes"] = [
        "namespace attribute assignment ({% set ns.x = ... %}) compiles to a guarded item store on a Namespace object",
        "integer path parts in filter attribute arguments",
        "StrictUndefined / custom undefined classes (the default Undefined is used)",
    ]
    ck.assumptions += [
        "kind_of (a projection by Python type) names the object kind the way SandboxRules.ObjKinds means it",
        "tracer values log every operation a template or a filter can perform on them; repr() is not counted as a use",
        "LoggingEnv overrides only log and return super()'s result",
    ]


def replay(ck, rec):
    su.load_own_findings(ck, PID)
    case = rec["case"]
    if case["kind"] == "access":
        c = case["case"]
        c[1] = tuple(c[1])
        t, src, text = run_case(tuple(c))
    else:
        from jinja2.sandbox import SandboxedEnvironment
        t = structure_trace(SandboxedEnvironment(enable_async=case["async"]), case["src"])
    if su.validate(ck, PID, [t], "replay"):
        ck.violation(case, "trace still rejected by SandboxTrace", rec.get("fingerprint"))
