"""C05 - include and import honor the documented context visibility.

Spec: spec/Jinja.tla (ChildCtx / Visible / MakeModule / DefaultModule: what an included or
imported template sees, what a module exports, ignore missing, name lists).  Generated
template sets are rendered by TLC and by real jinja2.
"""
from __future__ import annotations

from .. import core, jgen, jrun


def fingerprint(m, case):
    return {"kind": "render-mismatch", "variant": m["variant"]}


VARIANTS = [{"label": "default"}, {"label": "unoptimized", "opts": {"optimized": False}}]


def run(ck):
    quick = ck.tier == "quick"
    n = 500 if quick else 8000
    cases = jgen.module_cases(ck.seed * 104729 + 5, n)
    for bi, batch in enumerate(core.chunks(cases, 2500)):
        obs, r = jrun.spec_results("C05", batch, name=f"b{bi}", timeout=3000)
        ck.add_tlc(r, f"Jinja.tla include-import batch {bi} ({len(batch)} template_sets)")
        jrun.conformance(ck, batch, obs, VARIANTS, fingerprint)
    ck.extra["template_sets"] = len(cases)
    ck.exhaustive = False
    ck.extra["excluded_shapes"] = ["from-import of underscore names (compile-time error by design)",
                                   "Template objects passed as include targets", "template-level globals"]


def replay(ck, rec):
    case = rec["case"]["case"]
    obs, r = jrun.spec_results("C05", [case], name="replay", workers=2)
    jrun.conformance(ck, [case], obs, VARIANTS, fingerprint, procs=1)
