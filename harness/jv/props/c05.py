"""C05 - include and import honor the documented context visibility.

Spec: spec/Jinja.tla (ChildCtx / Visible / MakeModule / DefaultModule: what an included or
imported template sees, what a module exports, ignore missing, name lists).  Generated
template sets are rendered by TLC and by real jinja2.
"""
from __future__ import annotations

import copy
from concurrent.futures import ProcessPoolExecutor

from .. import core, jgen, jrun
from .. import jast as J


def fingerprint(m, case):
    return {"kind": "render-mismatch", "variant": m["variant"]}


VARIANTS = [{"label": "default"}, {"label": "unoptimized", "opts": {"optimized": False}}]


def _twice(args):
    """Render the main template, fetch it again from the same environment with other template-level globals and
    render again: an imported template's macros must see the importer's current globals both times."""
    core.use_repo()
    out = []
    for case, obs in args:
        env, srcs = jrun.make_env(case)
        for di in range(1, len(case["datas"]) + 1):
            for npass, key in ((1, "tglobals"), (2, "tglobals2")):
                tg = {k: J.to_py(v, case["objs"], [], {}) for k, v in case[key].items()}
                data = J.resolve_tplrefs({k: J.to_py(v, case["objs"], [], {}) for k, v in case["datas"][di - 1].items()}, env)
                try:
                    real = {"out": env.get_template(case["main"], globals=tg).render(**data), "err": ""}
                except Exception as e:  # noqa
                    name = type(e).__name__
                    for klass in type(e).__mro__:
                        if klass.__name__ in J.ERRCLASS:
                            name = J.ERRCLASS[klass.__name__]
                            break
                    real = {"out": None, "err": name, "exc": repr(e)[:200]}
                o = obs.get((case["id"], di if npass == 1 else 1000 + di))
                if o is None:
                    continue
                m = jrun.compare(o, real)
                if m is not None:
                    out.append({"case": case, "d": di, "pass": npass, "what": m, "src": srcs[case["main"]][:300]})
    return out


def two_pass(ck, cases, name):
    """Cases with template-level globals, rendered twice in one environment with different values."""
    tg = []
    for c in cases:
        if c.get("tglobals"):
            c2 = copy.deepcopy(c)
            c2["cfg"]["rerender"] = True
            c2["tglobals2"] = {k: J.vstr("T2&") for k in c["tglobals"]}
            tg.append(c2)
    if not tg:
        return
    obs, r = jrun.spec_results("C05", tg, name=name, timeout=3000)
    ck.add_tlc(r, f"Jinja.tla two renders with different template-level globals ({len(tg)} template sets)")
    jobs = [[(c, {k: v for k, v in obs.items() if k[0] == c["id"]}) for c in chunk] for chunk in core.chunks(tg, 20)]
    with ProcessPoolExecutor(max_workers=12) as ex:
        for res in ex.map(_twice, jobs):
            for m in res:
                ck.violation({"kind": "two-pass", "case": m["case"], "d": m["d"], "pass": m["pass"]},
                             f"[render #{m['pass']} with template globals #{m['pass']}] case {m['case']['id']} data#{m['d']}: {m['what']} :: {m['src']!r}",
                             {"kind": "render-mismatch", "variant": "second-render-other-template-globals"})
    ck.evaluations += 2 * sum(len(c["datas"]) for c in tg)
    ck.extra["two_pass_template_sets"] = ck.extra.get("two_pass_template_sets", 0) + len(tg)


def run(ck):
    quick = ck.tier == "quick"
    n = 500 if quick else 8000
    cases = jgen.module_cases(ck.seed * 104729 + 5, n)
    # loaded Template objects passed in as data and used as include / import targets
    cases += jgen.module_cases(ck.seed * 104729 + 6, 150 if quick else 3000, start_id=len(cases) + 1, tplobjs=True)
    for bi, batch in enumerate(core.chunks(cases, 2500)):
        obs, r = jrun.spec_results("C05", batch, name=f"b{bi}", timeout=3000)
        ck.add_tlc(r, f"Jinja.tla include-import batch {bi} ({len(batch)} template_sets)")
        jrun.conformance(ck, batch, obs, VARIANTS, fingerprint)
        two_pass(ck, batch, f"b{bi}_twice")
    ck.extra["template_sets"] = len(cases)
    ck.exhaustive = False
    ck.extra["excluded_shapes"] = ["from-import of underscore names (compile-time error by design)",
                                   ]


def replay(ck, rec):
    case = rec["case"]["case"]
    obs, r = jrun.spec_results("C05", [case], name="replay", workers=2)
    jrun.conformance(ck, [case], obs, VARIANTS, fingerprint, procs=1)
