"""C06 - macro argument binding follows the documented macro calling rules.

Spec: spec/MacroBind.tla.  Abstract layer = the calling rules of the property
statement (Rules); operational layer = the steps of runtime.Macro.__call__ with
the flags compiler.macro_body derives from the body.  TLC enumerates every
(signature, call) case of the bounded model, checks that both layers agree
(C06_MatchesRules) plus the individual clauses, and prints each case with its
outcome (bound parameter values / varargs / kwargs / caller, or TypeError).

Binding (spec -> code): every printed case is turned into
  * a real template call `{{ m(...) }}` or `{% call m(...) %}CB{% endcall %}`
    (plain, inside a for loop, inside a block; sync and async environments),
  * a Python call through `template.module.m(...)`,
of a real macro whose body prints every parameter, varargs, sorted kwargs and
caller.  The expected text / TypeError is assembled from TLC's outcome only.
"""
from __future__ import annotations

import json
import random
from concurrent.futures import ProcessPoolExecutor, ThreadPoolExecutor

from .. import core

PID = "C06"
NPROC = 12
NAMES = ["a", "b", "c", "d"]
CHUNK = 100

INVARIANTS = ["C06_MatchesRules", "C06_EachParamOnce", "C06_SurplusPositional", "C06_UnknownKeyword",
              "C06_DefaultsAtCallTime", "C06_CallerRules", "C06_KeywordNameIrrelevant"]

_POOL = None


def _warm(_):
    import time
    time.sleep(0.3)
    return 0


def pool():
    """Worker pool forked while the parent is small (before TLC output is loaded)."""
    global _POOL
    if _POOL is None:
        _POOL = ProcessPoolExecutor(max_workers=NPROC)
        list(_POOL.map(_warm, range(NPROC)))
    return _POOL


def close_pool():
    global _POOL
    if _POOL is not None:
        _POOL.shutdown()
        _POOL = None


# ---------------------------------------------------------------------------
# TLC
# ---------------------------------------------------------------------------

MC = """---- MODULE {name} ----
EXTENDS MacroBind
MCDefKinds == {defkinds}
MCUses == {uses}
MCKwExtra == {kwextra}
====
"""

ALL_USES = 'SUBSET {"varargs", "kwargs", "caller"}'


def cfg(minp, maxp, maxdef, maxpos, maxkw, ec, cb, dup, rk, live):
    s = f"""CONSTANTS
  MaxParams = {maxp}
  MinParams = {minp}
  MaxDefaults = {maxdef}
  DefKinds <- MCDefKinds
  UsesSets <- MCUses
  ExplicitCaller = {ec}
  MaxPos = {maxpos}
  KwExtra <- MCKwExtra
  MaxKw = {maxkw}
  CallBlocks = {cb}
  AllowDup = {dup}
  ReservedKw = {rk}
SPECIFICATION Spec
"""
    for i in INVARIANTS:
        s += f"INVARIANT {i}\n"
    if live:
        s += "PROPERTY C06_Terminates\n"
    return s


def run_model(name, uses=ALL_USES, kwextra='{"u", "caller"}', minp=0, maxp=2, maxdef=2, maxpos=3, maxkw=3,
              ec="{TRUE, FALSE}", cb="{TRUE, FALSE}", dup="TRUE", rk="{FALSE}",
              defkinds='{"const", "prev", "outer"}', live=False, coverage=False, workers=8):
    d = core.workdir(PID, f"src_{name}")
    mod = f"MC{name}"
    (d / f"{mod}.tla").write_text(MC.format(name=mod, uses=uses, kwextra=kwextra, defkinds=defkinds))
    return core.run_tlc(PID, mod, cfg(minp, maxp, maxdef, maxpos, maxkw, ec, cb, dup, rk, live), workers=workers,
                        extra_modules=[d / f"{mod}.tla"], name=f"tlc_{name}", coverage=coverage, timeout=3300,
                        heap="4g", env={"JAVA_TOOL_OPTIONS": "-XX:ParallelGCThreads=4"})


# ---------------------------------------------------------------------------
# concretisation: signature -> macro source, call -> call source / python call
# ---------------------------------------------------------------------------

# spec values -> concrete python values; everything else is the string itself.  Some are falsy /
# None on purpose (an engine that tests `if value:` instead of `is missing` must be noticed).
CONC = {"p2": 0, "p3": "", "kb": None, "ku": False}


def conc(v):
    return CONC.get(v, v)


def shown(v):
    return str(conc(v))


def lit(v):
    """Jinja literal for a concrete value."""
    v = conc(v)
    if v is None:
        return "none"
    if v is False:
        return "false"
    if isinstance(v, int):
        return str(v)
    return repr(v)


def params_of(sig):
    return NAMES[: sig["n"]] + (["caller"] if sig["ec"] else [])


def macro_source(sig):
    n, dk = sig["n"], sig["dk"]
    parts = []
    for i, name in enumerate(NAMES[:n]):
        j = i - (n - len(dk))
        if j < 0:
            parts.append(name)
        else:
            kind = dk[j]
            # "self": the parameter's own name (an outer variable of that name exists, see chunk_template)
            default = {"const": f"'d{name}'", "prev": NAMES[i - 1] if i else "?", "outer": "o", "self": name}[kind]
            parts.append(f"{name}={default}")
    if sig["ec"]:
        parts.append("caller='dcaller'")
    uses = set(sig["uses"])
    body = "P=" + ",".join("{{ " + p + "|default('U') }}" for p in NAMES[:n]) + ";"
    if "varargs" in uses:
        body += "V={{ varargs|join(',') }};"
    if "kwargs" in uses:
        body += ("K={% for k in kwargs|sort %}{{ k }}:{% if kwargs[k] is callable %}{{ kwargs[k]() }}{% else %}"
                 "{{ kwargs[k] }}{% endif %},{% endfor %};")
    if "caller" in uses:
        body += ("C={% if caller is undefined %}U{% elif caller is callable %}{{ caller() }}{% else %}{{ caller }}"
                 "{% endif %};")
    return "{% macro m(" + ", ".join(parts) + ") %}" + body + "{% endmacro %}"


def expected_text(sig, out, sp):
    n = sig["n"]
    uses = set(sig["uses"])
    s = "P=" + ",".join(shown(v) for v in out["params"][:n]) + ";"
    if "varargs" in uses:
        s += "V=" + ",".join(shown(v) for v in out["varargs"]) + ";"
    if "kwargs" in uses:
        # (the body's |sort ignores case; names are distinct whatever their case)
        pairs = sorted(((wire_name(k, sp), v) for k, v in out["kwargs"]), key=lambda kv: kv[0].lower())
        s += "K=" + "".join(f"{k}:{shown(v)}," for k, v in pairs) + ";"
    if "caller" in uses:
        s += "C=" + shown(out["params"][n] if sig["ec"] else out["caller"]) + ";"
    return s


# the spec's keyword name "class" stands for any reserved word of Python (compiler.signature tests
# keyword.iskeyword); which one a case is written with is a seeded choice
RESERVED = ["class", "for", "from", "is", "import", "lambda", "def", "if", "in", "not", "or", "and", "else",
            "while", "with", "pass", "return", "None", "True", "global", "try", "yield", "as", "del"]


def wire_name(k, sp):
    """Spec keyword name -> the name written in the call."""
    return sp["rname"] if k == "class" else k


def spelling(call, rnd):
    """Choose how the call is written (which arguments travel through * / **).  The spec's
    outcome does not depend on it, except for `dup` which needs the name in both places."""
    npos = call["npos"]
    kws = sorted(call["kws"])
    nstar = rnd.choice([0, 0, 1, npos]) if npos else 0
    nstar = min(nstar, npos)
    dstar = [k for k in kws if rnd.random() < 0.3]
    use_dstar = bool(dstar) or rnd.random() < 0.1
    if call["dup"]:
        dstar = sorted(set(dstar) | {call["dup"]})
        use_dstar = True
    explicit = [k for k in kws if k not in dstar or k == call["dup"]]
    return {"nstar": nstar, "dstar": dstar, "use_dstar": use_dstar, "explicit": explicit,
            "star_empty": npos == 0 and rnd.random() < 0.1, "rname": rnd.choice(RESERVED)}


def kwval(call, k):
    return "kcaller" if k == "caller" else "k" + k


def written(call, sp, k):
    """The name keyword k of the spec is written with (u -> a reserved word of Python when call.rk)."""
    return sp["rname"] if k == "u" and call.get("rk") else k


def call_source(call, sp):
    npos = call["npos"]
    items = [lit(f"p{i + 1}") for i in range(npos - sp["nstar"])]
    items += [f"{written(call, sp, k)}={lit(kwval(call, k))}" for k in sp["explicit"]]
    if sp["nstar"] or sp["star_empty"]:
        items.append("*[" + ", ".join(lit(f"p{i + 1}") for i in range(npos - sp["nstar"], npos)) + "]")
    if sp["use_dstar"]:
        items.append("**{" + ", ".join(f"{written(call, sp, k)!r}: {lit(kwval(call, k))}" for k in sp["dstar"]) + "}")
    args = ", ".join(items)
    if call["cb"]:
        return "{% call m(" + args + ") %}CB{% endcall %}"
    return "{{ m(" + args + ") }}"


WRAPS = {
    "plain": ("", ""),
    "loop": ("{% for zz in [0] %}", "{% endfor %}"),
    "block": ("{% block blk %}", "{% endblock %}"),
    "loopif": ("{% for zz in [0] %}{% if true %}", "{% endif %}{% endfor %}"),
}


def chunk_template(sig, calls, wrap):
    pre, post = WRAPS[wrap]
    n, dk = sig["n"], sig["dk"]
    # a parameter whose default is its own name: a template variable of that name exists (and must stay hidden)
    own = "".join("{% set " + NAMES[n - len(dk) + j] + " = 'o" + NAMES[n - len(dk) + j] + "' %}"
                  for j, kind in enumerate(dk) if kind == "self")
    src = ["{% set o = 'od' %}", own, macro_source(sig), "{% set o = 'oc' %}", pre]
    for i, cs in enumerate(calls):
        src.append(("{% if" if i == 0 else "{% elif") + f" sel == {i}" + " %}" + cs)
    if calls:
        src.append("{% endif %}")
    src.append(post)
    return "".join(src)


class Suspended(Exception):
    pass


def run_coro(c):
    try:
        c.send(None)
    except StopIteration as e:
        return e.value
    raise Suspended("coroutine suspended although nothing awaits")


_ENVS = {}


def get_env(is_async):
    import jinja2
    if is_async not in _ENVS:
        _ENVS[is_async] = jinja2.Environment(enable_async=is_async, cache_size=0)
    return _ENVS[is_async]


def cb_callable():
    return "CB"


def python_call(macro, call, sp, is_async):
    npos = call["npos"]
    pos = [conc(f"p{i + 1}") for i in range(npos)]
    d1 = {written(call, sp, k): conc(kwval(call, k)) for k in sp["explicit"]}
    d2 = {written(call, sp, k): conc(kwval(call, k)) for k in sp["dstar"]}
    if call["cb"]:
        d1["caller"] = cb_callable
    rv = macro(*pos, **d1, **d2)
    if is_async:
        rv = run_coro(rv)
    return str(rv)


def observe(fn):
    try:
        return ("ok", fn())
    except Suspended:
        raise
    except Exception as e:  # noqa
        return ("raise", type(e).__name__, str(e)[:160])


def check_chunk(job):
    """Worker: one signature, <= CHUNK calls; returns (n compared, mismatches)."""
    core.use_repo()
    sig, cases, wrap, do_async, seed = job
    rnd = random.Random(seed)
    sps = [spelling(c["call"], rnd) for c in cases]
    sources = [call_source(c["call"], sp) for c, sp in zip(cases, sps)]
    src = chunk_template(sig, sources, wrap)
    bad = []
    n = 0
    for is_async in ((False, True) if do_async else (False,)):
        env = get_env(is_async)
        try:
            tpl = env.from_string(src)
            module = run_coro(tpl.make_module_async()) if is_async else tpl.module
            macro = getattr(module, "m")
        except Suspended:
            raise
        except Exception as e:  # noqa
            raise core.MachineryError(f"generated template does not compile: {type(e).__name__}: {e}\n{src[:2000]}")
        for i, (c, sp) in enumerate(zip(cases, sps)):
            out = c["out"]
            exp = ("raise", "TypeError") if out["kind"] == "TypeError" else ("ok", expected_text(sig, out, sp))
            if is_async:
                got_t = observe(lambda: run_coro(tpl.render_async(sel=i)))
            else:
                got_t = observe(lambda: tpl.render(sel=i))
            got_p = observe(lambda: python_call(macro, c["call"], sp, is_async))
            n += 2
            for via, got in (("template", got_t), ("python", got_p)):
                if got[:2] != exp:
                    bad.append({"kind": "macro", "sig": sig, "call": c["call"], "spelling": sp, "wrap": wrap,
                                "async": is_async, "via": via, "macro": macro_source(sig), "call_source": sources[i],
                                "expected": list(exp), "actual": list(got)})
    return n, bad


def replay_case(c):
    sig, call, sp = c["sig"], c["call"], c["spelling"]
    src = chunk_template(sig, [call_source(call, sp)], c["wrap"])
    env = get_env(c["async"])
    tpl = env.from_string(src)
    if c["via"] == "template":
        if c["async"]:
            return observe(lambda: run_coro(tpl.render_async(sel=0)))
        return observe(lambda: tpl.render(sel=0))
    module = run_coro(tpl.make_module_async()) if c["async"] else tpl.module
    return observe(lambda: python_call(module.m, call, sp, c["async"]))


# ---------------------------------------------------------------------------
# run
# ---------------------------------------------------------------------------

def run(ck):
    try:
        _run(ck)
    finally:
        close_pool()


def _run(ck):
    import time
    pool()
    quick = ck.tier == "quick"
    T = ck.extra.setdefault("phase_wall_s", {})
    if quick:
        models = {
            # every signature with <= 2 parameters x every call shape
            "Small": dict(maxp=2, maxdef=2, maxpos=3, maxkw=3),
            # 3 parameters: a slice (no explicit caller parameter, <= 2 keywords, four body kinds)
            "Three": dict(minp=3, maxp=3, maxdef=3, maxpos=4, maxkw=2, ec="{FALSE}", dup="FALSE",
                          kwextra='{"u"}',
                          uses='{{}, {"varargs", "kwargs"}, {"caller"}, {"varargs", "kwargs", "caller"}}'),
        }
    else:
        models = {
            "Small": dict(maxp=2, maxdef=2, maxpos=3, maxkw=3),
            "Three": dict(minp=3, maxp=3, maxdef=3, maxpos=4, maxkw=4),
            "Four": dict(minp=4, maxp=4, maxdef=3, maxpos=5, maxkw=4, dup="FALSE", workers=12),
        }
    # a parameter whose default mentions its own name (alone, followed by / following a "prev" default, next to
    # a constant one), every call shape over {a, b, u}
    models["Own"] = dict(maxp=2, maxdef=2, maxpos=3, maxkw=2, ec="{FALSE}", dup="FALSE", kwextra='{"u"}',
                         defkinds='{"self", "prev", "const"}', workers=4,
                         uses='{{}, {"varargs", "kwargs"}, {"varargs", "kwargs", "caller"}}')
    # the unknown keyword written with a reserved word of Python (the call site delivers one mapping):
    # every body kind, explicit caller parameter, call blocks
    models["Resv"] = dict(maxp=2, maxdef=1, maxpos=2, maxkw=3, dup="FALSE", rk="{TRUE}",
                          defkinds='{"const"}', workers=4)
    # liveness (every call terminates with an outcome) and action coverage on a tiny model; its cases
    # are a subset of Small's
    models["Live"] = dict(maxp=1, maxdef=1, maxpos=2, maxkw=2, live=True, coverage=True, workers=2,
                          rk="{TRUE, FALSE}", defkinds='{"const", "prev", "outer", "self"}')
    t0 = time.time()
    results = {}
    with ThreadPoolExecutor(len(models)) as tp:
        futs = {name: tp.submit(run_model, name, **kw) for name, kw in models.items()}
        for name, f in futs.items():
            results[name] = f.result()
    T["tlc"] = round(time.time() - t0, 1)
    for name, r in results.items():
        ck.add_tlc(r, f"MacroBind {name}")
    ck.require_coverage(results["Live"], ["Deliver", "TakePositional", "FillFromKeywords", "Caller", "Kwargs",
                                           "Varargs", "Invoke", "Done"])

    t0 = time.time()
    by_sig = {}
    ncases = 0
    for name, r in results.items():
        lines = {ln for ln in r.out.splitlines() if ln.startswith('"{')}
        for line in lines:
            c = json.loads(line[1:-1].replace('\\"', '"').replace("\\\\", "\\"))
            s = c["sig"]
            s["uses"] = sorted(s["uses"])
            c["call"]["kws"] = sorted(c["call"]["kws"])
            key = json.dumps(s, sort_keys=True)
            by_sig.setdefault(key, (s, []))[1].append({"call": c["call"], "out": c["out"]})
            ncases += 1
        r.out = ""  # free memory
    if ncases == 0:
        raise core.MachineryError("MacroBind.tla printed no cases")
    T["parse"] = round(time.time() - t0, 1)
    jobs = []
    wraps = sorted(WRAPS)
    for si, key in enumerate(sorted(by_sig)):
        sig, cases = by_sig[key]
        cases.sort(key=lambda c: json.dumps(c["call"], sort_keys=True))
        for ci, chunk in enumerate(core.chunks(cases, CHUNK)):
            jobs.append((sig, chunk, wraps[(si + ci) % len(wraps)], (si + ci) % 2 == 0, ck.seed * 1000003 + len(jobs)))
    t0 = time.time()
    total = 0
    nerr = 0
    for n, bad in pool().map(check_chunk, jobs, chunksize=4):
        total += n
        for c in bad:
            fp = {"kind": "macro-bind", "via": c["via"], "expected": c["expected"][0], "actual": c["actual"][0],
                  "raised": c["actual"][1] if c["actual"][0] == "raise" else None, "async": c["async"]}
            ck.violation(c, f"{'async ' if c['async'] else ''}{c['macro']}  called as {c['call_source']} "
                            f"({c['via']}, {c['wrap']}): engine gives {c['actual']}, calling rules give {c['expected']}",
                         fp)
    T["replay"] = round(time.time() - t0, 1)
    nerr = sum(1 for _, cs in by_sig.values() for c in cs if c["out"]["kind"] == "TypeError")
    ck.traces += total
    ck.evaluations += total
    for key in list(sorted(by_sig))[:: max(1, len(by_sig) // 3)][:3]:
        sig, cases = by_sig[key]
        c = cases[len(cases) // 2]
        sp = spelling(c["call"], random.Random(0))
        ck.sample({"macro": macro_source(sig), "call": call_source(c["call"], sp), "spec_outcome": c["out"]})
    ck.extra["cases"] = {"signatures": len(by_sig), "cases": ncases, "cases_expecting_TypeError": nerr,
                         "engine_calls_compared": total}
    ck.exhaustive = True
    ck.extra["exhaustive_note"] = ("every case TLC enumerated is replayed through a template call and a "
                                   "template.module call; half of the chunks also in an async environment; the "
                                   "*/** spelling of each call is a seeded choice")
    ck.extra["bounds"] = {k: {kk: vv for kk, vv in v.items() if kk not in ("live", "coverage", "workers")}
                          for k, v in models.items()}
    ck.extra["excluded_shapes"] = [
        "a keyword written twice literally, m(a=1, a=2), and {% call m(caller=x) %}: the generated Python call is a "
        "SyntaxError at compile time (not a binding outcome)",
        "parameters named varargs / kwargs; explicit `caller` parameter without a default or not in last position",
        "defaults referring to later parameters",
        "a keyword given twice (explicitly and in **mapping) in a call that also has a keyword named like a Python "
        "reserved word: the call site is compiled to one merged dict(...) and the later value silently wins",
        "non-string keyword keys passed through **mapping",
    ]
    ck.assumptions += [
        "argument values are distinct symbols (p1.., ka.., da.., oc/od) concretised as strings except p2 -> 0, "
        "p3 -> '', kb -> None, ku -> False, so the text printed by the macro body identifies which value reached "
        "which parameter and falsy / None values are on the path",
        "only the exception class (TypeError) is compared, not the message",
    ]


def replay(ck, rec):
    c = rec["case"]
    got = replay_case(c)
    if list(got[:2]) != list(c["expected"]):
        ck.violation(c, f"still differs: engine gives {got}, calling rules give {c['expected']}", rec.get("fingerprint"))
