"""C33 - translation blocks render like their source text and are fully
extractable.

Spec: spec/I18n.tla.  TLC grows every trans block up to the bounds of a suite
(text fragments incl. `%`, `%s`, `%(x)s`, `%%`, braces, markup, blanks and
line breaks; variables bound implicitly / by name / by a call; pluralize with
default or explicit count variable; context string; trimmed / notrimmed /
policy), checks on each that the mechanism of the extension (message id
construction, gettext call, old / new style formatting, extraction) yields
exactly the text of the block as the documentation defines it, and prints
for every block the template source, the data, the expected output for
autoescape on/off x old/new style gettext, the expected gettext calls and the
expected extracted messages.

spec->code: every printed case is rendered by a real Environment with
`jinja2.ext.i18n` and recording identity translation callables installed via
install_gettext_callables, and extracted with env.extract_translations and
jinja2.ext.babel_extract (same options); results are compared with what TLC
printed.  Python contains no i18n semantics: it joins the emitted source,
builds the data, drives jinja2 and compares.
"""
from __future__ import annotations

import io
import json
import multiprocessing as mp
import os

from .. import core

PID = "C33"

INVARIANTS = ["C33_FormatTotal", "C33_RendersLikeSource", "C33_OldNewAgree",
              "C33_CallsAreExtracted", "C33_TrimLayersAgree"]


def cfg(suites, guard="variables", invariants=INVARIANTS):
    lines = [
        "CONSTANTS",
        "  Suites = {" + ", ".join(core.tla_str(x) for x in suites) + "}",
        f'  Guard = "{guard}"',
        "SPECIFICATION Spec",
    ]
    lines += [f"INVARIANT {i}" for i in invariants]
    return "\n".join(lines) + "\n"


# Suites (bounds are defined in spec/I18n.tla, operator Params); each is exhaustive within its bounds.
QUICK = ["q_text", "q_plural", "q_header", "q_trim", "q_trimpl", "q_context", "q_options", "q_ws", "q_calls"]
THOROUGH = ["t_text", "t_text2", "t_plural", "t_trim", "t_trimpl", "t_context", "t_options", "t_ws", "t_calls"]

# Syntax / whitespace options of the environment a case is run under.  ONE dictionary per
# profile is the source of both the rendering Environment and the options handed to
# babel_extract, so extraction is always asked for exactly the rendering environment's
# combination of every option babel_extract reads (delimiters, line prefixes, trim_blocks,
# lstrip_blocks, keep_trailing_newline, trimmed, newstyle_gettext, extensions).  The `alt`
# delimiters / prefixes cannot be formed by the text fragments of the spec; its
# trim_blocks / lstrip_blocks are switched on only for blocks the spec marks ws_inert.
PROFILES = {
    "default": {},
    "alt": dict(block_start_string="[%", block_end_string="%]", variable_start_string="[[",
                variable_end_string="]]", comment_start_string="[#", comment_end_string="#]",
                line_statement_prefix="@@", line_comment_prefix="@#", keep_trailing_newline=True),
}
OPTION_SUITES = ("q_options", "t_options")


# whitespace options of the lexer a case was computed for by the spec (field `ws`, I18n.tla WsModes)
WS_OPTIONS = {"trim": dict(trim_blocks=True), "lstrip": dict(lstrip_blocks=True),
              "both": dict(trim_blocks=True, lstrip_blocks=True)}
WS_SUITES = ("q_ws", "t_ws")


def syntax_options(profile, ws_inert, ws="none"):
    o = dict(PROFILES[profile])
    if ws != "none":
        o.update(WS_OPTIONS[ws])
    elif profile == "alt" and ws_inert:
        o.update(trim_blocks=True, lstrip_blocks=True)
    return o


def write_source(items, o):
    d = {"{%": o.get("block_start_string", "{%"), "%}": o.get("block_end_string", "%}"),
         "{{": o.get("variable_start_string", "{{"), "}}": o.get("variable_end_string", "}}")}
    return "".join(d.get(x, x) for x in items)


def babel_options(o, policy, new):
    b = {k: (str(v).lower() if isinstance(v, bool) else v) for k, v in o.items()}
    b.update(extensions="jinja2.ext.i18n", trimmed=str(policy).lower(), newstyle_gettext=str(new).lower(),
             silent="false")
    return b


# --------------------------------------------------------------------------
# real side (runs in worker processes)
# --------------------------------------------------------------------------

_ENVS = {}
_REC = []


def _gettext(m):
    _REC.append(("gettext", (m,)))
    return m


def _ngettext(s, p, n):
    _REC.append(("ngettext", (s, p, n)))
    return s if n == 1 else p


def _pgettext(c, m):
    _REC.append(("pgettext", (c, m)))
    return m


def _npgettext(c, s, p, n):
    _REC.append(("npgettext", (c, s, p, n)))
    return s if n == 1 else p


def _env(autoescape, newstyle, policy, o):
    key = (autoescape, newstyle, policy, tuple(sorted(o.items())))
    e = _ENVS.get(key)
    if e is None:
        from jinja2 import Environment
        e = Environment(extensions=["jinja2.ext.i18n"], autoescape=autoescape, cache_size=0, **o)
        e.policies["ext.i18n.trimmed"] = policy
        e.install_gettext_callables(_gettext, _ngettext, newstyle=newstyle,
                                    pgettext=_pgettext, npgettext=_npgettext)
        _ENVS[key] = e
    return e


def _to_py(v):
    """value record printed by the spec -> Python object"""
    from markupsafe import Markup
    if v.get("none"):
        return None
    if v["k"] == "int":
        return v["n"]
    s = "".join(v["s"])
    return Markup(s) if v["safe"] else s


def _arg_py(a):
    return "".join(a["s"]) if a["t"] == "s" else _to_py(a["v"])


def _same(a, b):
    return type(a) is type(b) and a == b


def _context(vals):
    ctx = {}
    for name, v in vals.items():
        val = _to_py(v)
        if name.startswith("f"):
            ctx[name] = (lambda r: (lambda: r))(val)
        else:
            ctx[name] = val
    return ctx


def _norm_msg(m):
    return list(m) if isinstance(m, tuple) else [m]


# positions of the message strings in the signatures of the gettext family
_MSG_POS = {"gettext": (0,), "ngettext": (0, 1), "pgettext": (0, 1), "npgettext": (0, 1, 2)}


def _strings(func, args):
    return [args[i] for i in _MSG_POS[func] if i < len(args)]


def profiles_for(c, line):
    """default always; the alternative syntax options for the option-matrix suites and a
    deterministic eighth of all other cases"""
    if c.get("suite") in OPTION_SUITES + WS_SUITES or (hash(line) & 7) == 0:
        return ("default", "alt")
    return ("default",)


def check_case(line):
    """Returns (n_renders, problems, sample) for one case printed by TLC."""
    c = json.loads(line)
    n = 0
    probs = []
    for profile in profiles_for(c, line):
        k, p = check_case_under(c, profile)
        n += k
        probs += p
    return n, probs, {"src": "".join(c["src"]), "feat": c["feat"]}


def check_case_under(c, profile):
    from jinja2.ext import GETTEXT_FUNCTIONS, babel_extract

    o = syntax_options(profile, c["feat"]["ws_inert"], c.get("ws", "none"))
    src = write_source(c["src"], o)
    policy = c["policy"]
    probs = []
    data = {d["w"]: (d["vals"] if isinstance(d["vals"], dict) else {}) for d in c["data"]}
    n = 0
    outs = {}
    tag = "" if not o else f"[{profile} syntax options {o}] {src!r}: "
    # ---- extraction (per gettext style), with exactly the options of the rendering environment
    real_ex = {}
    for style, new in (("old", False), ("new", True)):
        env = _env(False, new, policy, o)
        exp = c["extracted"][style]
        exp_msgs = [_arg_py(a) for a in exp["msgs"]]
        got = {}
        try:
            got["extract_translations"] = [(l, f, _norm_msg(m)) for l, f, m in env.extract_translations(src)]
        except Exception as e:  # noqa
            got["extract_translations"] = e
        try:
            got["babel_extract"] = [
                (l, f, _norm_msg(m)) for l, f, m, _c in babel_extract(
                    io.BytesIO(src.encode("utf-8")), GETTEXT_FUNCTIONS, [], babel_options(o, policy, new))]
        except Exception as e:  # noqa
            got["babel_extract"] = e
        real_ex[style] = got
        for api, g in got.items():
            if isinstance(g, Exception):
                probs.append(("V", "extract-raises", style, f"{tag}{api} raised {type(g).__name__}: {g}", type(g).__name__))
                continue
            exp_strs = [m for m in exp_msgs if m is not None]
            hit = [x for x in g if x[1] == exp["f"] and [m for m in x[2] if m is not None] == exp_strs]
            if not hit:
                probs.append(("D" if c["kind"] == "trans" else "V", "extract-msg", style,
                              f"{tag}{api}: expected {exp['f']}{exp_msgs!r} among extracted, got {g!r}", ""))
            elif not any(x[0] == exp["line"] and x[2] == exp_msgs for x in hit):
                probs.append(("D", "extract-shape", style,
                              f"{tag}{api}: expected ({exp['line']}, {exp['f']}, {exp_msgs!r}), got {g!r}", ""))
    # ---- rendering
    for r in c["runs"]:
        ae, new, w = r["autoescape"], r["newstyle"], r["w"]
        style = "new" if new else "old"
        env = _env(ae, new, policy, o)
        del _REC[:]
        n += 1
        exc = None
        try:
            out = env.from_string(src).render(**_context(data[w]))
        except Exception as e:  # noqa
            out = None
            exc = e
        calls = list(_REC)
        where = f"{tag}autoescape={ae} {style}-style data#{w}"
        if c["kind"] == "trans":
            if not r["ok"]:
                raise core.MachineryError(f"spec emitted a case without defined output: {src!r}")
            exp_out = "".join(r["out"])
            if exc is not None:
                probs.append(("V", "render", style, f"{where}: expected {exp_out!r}, raised "
                              f"{type(exc).__name__}: {exc}", type(exc).__name__))
            elif out != exp_out:
                probs.append(("V", "render", style, f"{where}: expected {exp_out!r}, got {out!r}", "wrong-text"))
            outs.setdefault((ae, w), {})[style] = ("raise", type(exc).__name__) if exc is not None else out
        # calls the real callables saw vs the spec
        exp_calls = [(x["f"], [_arg_py(a) for a in x["args"]]) for x in r["calls"]]
        if exc is None or c["kind"] == "trans":
            if len(calls) != len(exp_calls) and exc is None:
                probs.append(("V", "calls", style, f"{where}: expected calls {exp_calls!r}, got {calls!r}", "count"))
            for (gf, gargs), (ef, eargs) in zip(calls, exp_calls):
                if gf != ef or len(gargs) != len(eargs):
                    probs.append(("V", "calls", style, f"{where}: expected call {ef}{eargs!r}, got {gf}{gargs!r}",
                                  "function"))
                    continue
                for i, (ga, ea, sa) in enumerate(zip(gargs, eargs, [a["t"] for x in r["calls"][:1] for a in x["args"]])):
                    if _same(ga, ea):
                        continue
                    if sa == "s" and isinstance(ga, str) and not (i == 0 and ef in ("pgettext", "npgettext")):
                        probs.append(("D", "msgid", style, f"{where}: expected message {ea!r}, got {ga!r}", ""))
                    else:
                        probs.append(("V", "calls", style, f"{where}: expected call {ef}{eargs!r}, got {gf}{gargs!r}",
                                      "argument"))
        # property level: every message handed over at render time is extracted (real vs real)
        for gf, gargs in calls:
            strs = _strings(gf, gargs)
            if c["kind"] == "call" and c["feat"]["dyn"]:
                continue  # message given by a variable: nothing to extract
            for api, g in real_ex[style].items():
                if isinstance(g, Exception):
                    continue
                if not any([m for m in x[2] if m is not None] == strs
                           and (x[1] == gf or (x[1] == "_" and gf == "gettext")) for x in g):
                    probs.append(("V", "not-extracted", style,
                                  f"{where}: {gf}{gargs!r} was called at render time but {api} yields {g!r}", api))
    for (ae, w), d in outs.items():
        if len(d) == 2 and d["old"] != d["new"]:
            probs.append(("V", "old-new", "both", f"{tag}autoescape={ae} data#{w}: old style {d['old']!r} != new style {d['new']!r}", ""))
    return n, probs


def _work(lines):
    res = []
    n = 0
    for line in lines:
        k, probs, info = check_case(line)
        n += k
        if probs:
            res.append((line, probs, info))
    return n, len(lines), res


# --------------------------------------------------------------------------
# driver
# --------------------------------------------------------------------------

def _merge_findings(ck):
    f = core.VERIF / "findings.d" / f"{PID}.json"
    if f.exists():
        have = {k["id"] for k in core.load_known()} | {k["id"] for k in ck._known}  # known_findings.json wins
        for e in json.loads(f.read_text()):
            if e.get("property") == PID and e.get("status") == "open" and e["id"] not in have:
                ck._known.append(e)


def c33_known_shape(f):
    return bool(f.get("header_vars") and not f.get("referenced") and f.get("percent"))


def _fingerprint(info, kind, style, detail):
    fp = {"kind": kind, "style": style, "detail": detail}
    fp.update({k: v for k, v in info["feat"].items()})
    return fp


def run(ck):
    _merge_findings(ck)
    quick = ck.tier == "quick"
    suites = QUICK if quick else THOROUGH
    ncpu = os.cpu_count() or 4

    from concurrent.futures import ThreadPoolExecutor
    with ThreadPoolExecutor(3) as ex:
        f_main = ex.submit(core.run_tlc, PID, "I18n", cfg(suites), name="I18n", workers=ncpu, timeout=3000, heap="6g")
        # vacuity guard on a small configuration (coverage output is per action)
        f_cov = ex.submit(core.run_tlc, PID, "I18n", cfg(["x_small"]), name="I18n-coverage", workers=1, coverage=True)
        # the pinned mechanism as a model: TLC itself exhibits the `%` defect
        f_asc = ex.submit(core.run_tlc, PID, "I18n",
                          cfg(["x_small"], guard="referenced", invariants=["C33_FormatTotal"]),
                          name="I18n-as-coded", workers=1)
        r, rc, ra = f_main.result(), f_cov.result(), f_asc.result()
    ck.add_tlc(r, "I18n " + "+".join(suites))
    ck.require_coverage(rc, ["AddSingular", "StartPlural", "AddPlural", "Emit"])
    lines = sorted(set(r.printed()))
    per_suite = {}
    for ln in lines:
        k = ln[ln.index('"suite":"') + 9:]
        k = k[:k.index('"')]
        per_suite[k] = per_suite.get(k, 0) + 1
    missing = [x for x in suites if not per_suite.get(x)]
    if missing:
        raise core.MachineryError(f"I18n.tla printed no cases for suites {missing}")
    ck.extra["cases_per_suite"] = per_suite
    ck.extra["as_coded_model"] = {
        "guard": "referenced (message id un-doubles `%%` iff no body references a variable, but the call is "
                 "formatted iff the block has variables)",
        "tlc_counterexample_found": "C33_FormatTotal" in ra.invariant_violated,
    }

    # real engine
    nproc = min(16, ncpu)
    chunks = list(core.chunks(lines, 200))
    renders = 0
    drift = {}
    nviol = 0
    with mp.get_context("fork").Pool(nproc) as pool:
        for n, ncases, res in pool.imap_unordered(_work, chunks):
            renders += n
            ck.traces += ncases
            for line, probs, info in res:
                seen = set()
                for sev, kind, style, what, detail in probs:
                    if sev == "D":
                        f = info["feat"]
                        known_shape = (c33_known_shape(f))
                        d = drift.setdefault(kind + ("[F-C33-1 shape]" if known_shape else ""),
                                             {"count": 0, "examples": []})
                        d["count"] += 1
                        if len(d["examples"]) < 3:
                            d["examples"].append({"src": info["src"], "what": what})
                        continue
                    key = (kind, style, detail)
                    if key in seen:
                        continue
                    seen.add(key)
                    nviol += 1
                    ck.violation({"kind": "i18n-case", "line": line, "src": info["src"]},
                                 f"{info['src']!r}: {what}", _fingerprint(info, kind, style, detail))
    ck.evaluations += renders
    ck.extra["real_renders"] = renders
    if drift:
        ck.extra["drift"] = drift
    for ln in lines[:: max(1, len(lines) // 5)][:5]:
        c = json.loads(ln)
        r0 = c["runs"][0]
        ck.sample({"src": "".join(c["src"]), "expected_out": "".join(r0.get("out", [])),
                   "expected_call": [r0["calls"][0]["f"]] + [_show(a) for a in r0["calls"][0]["args"]]})
    ck.extra["excluded_shapes"] = [
        "a text `{` directly followed by `{`, `%`, `#`, a variable tag or the end of a body (would form a delimiter)",
        "pluralize without any variable; pluralize naming a variable that is not bound in the trans tag; "
        "a variable bound twice (all TemplateSyntaxError / TemplateAssertionError by design)",
        "count values other than small integers, plain strings and Markup",
        "direct new-style calls whose message is not a valid %-format string (documented: escape `%` as `%%`): "
        "only their recorded calls vs extraction are compared, not the rendered text",
        "translator comments (babel comment_tags), non-babel-style extraction",
    ]
    ck.assumptions += [
        "identity translations: gettext(m)=m, ngettext(s,p,n)=s if n==1 else p (recording callables of the harness)",
        "count variable when pluralize names none: first variable of the trans tag, else first variable of the body "
        "(reading of docs/templates.rst 'the first variable in a block')",
    ]


def _show(a):
    return "".join(a["s"]) if a["t"] == "s" else a["v"]


def replay(ck, rec):
    _merge_findings(ck)
    c = rec["case"]
    if c.get("kind") == "spec-invariant":
        raise core.MachineryError("spec-level violation: re-run ./check C33")
    n, probs, info = check_case(c["line"])
    for sev, kind, style, what, detail in probs:
        if sev == "V":
            ck.violation(c, f"{info['src']!r}: {what}", _fingerprint(info, kind, style, detail))
