"""C38 - exceptions from data propagate unchanged and leave the engine usable.

Spec: spec/Jinja.tla with fault-carrying data: a callable whose k-th call raises a private
exception (fn mode raise_at), an iterable whose k-th step raises (iterfault), attributes /
items / __str__ whose fetch raises (raiser).  The documented absorption rules are part of
the semantics: AttributeError from an attribute fetch => the item is tried, LookupError /
TypeError from an item fetch => the attribute is tried => undefined, StopIteration escaping a
callable => undefined; every other exception ends the render with that exception
("Raised:<id>").  TLC computes the clean run of every program and, for every k up to the
number of calls the clean run made to each callable, the outcome of the faulted run.
Binding: real data objects raise one unique exception *object* per fault; the render must
raise exactly that object (identity), in sync and async mode, and afterwards the same
environment must render the clean program and another template exactly as the spec says.
"""
from __future__ import annotations

import json
import random
from concurrent.futures import ProcessPoolExecutor

from .. import core, jgen, jrun
from .. import jast as J


def _work(args):
    core.use_repo()
    case, obs, clean_case, clean_obs = args
    out, n = [], 0
    from jinja2.sandbox import ImmutableSandboxedEnvironment, SandboxedEnvironment
    # (the sandboxed environments have their own getattr / getitem / call paths: the same rules hold there)
    for label, opts, how in (("sync", {}, "render"), ("async", {"enable_async": True}, "render_async"),
                             ("sandbox", {"env_cls": SandboxedEnvironment}, "render"),
                             ("immutable-sandbox/async", {"env_cls": ImmutableSandboxedEnvironment, "enable_async": True}, "render_async")):
        env, srcs = jrun.make_env(case, **opts)
        real = jrun.real_render(case, 1, env=env, how=how)
        n += 1
        m = jrun.compare(obs, real)
        if m is not None:
            out.append({"case": case["id"], "what": f"[{label}] {m}", "src": srcs, "kind": "fault-outcome"})
        # the engine must still be usable: same environment, clean data, then another template
        again = jrun.real_render(clean_case, 1, env=env, how=how)
        n += 1
        m = jrun.compare(clean_obs, again)
        if m is not None:
            out.append({"case": case["id"], "what": f"[{label}] clean re-render after the fault: {m}", "src": srcs, "kind": "unusable-after-fault"})
        try:
            other = env.from_string("{{ 1 + 1 }}{% for i in [1,2] %}{{ i }}{% endfor %}")
            got = (other.render() if how == "render" else __import__("asyncio").run(other.render_async()))
            if got != "212":
                out.append({"case": case["id"], "what": f"[{label}] other template renders {got!r}", "src": srcs, "kind": "unusable-after-fault"})
        except Exception as e:  # noqa
            out.append({"case": case["id"], "what": f"[{label}] other template raises {e!r}", "src": srcs, "kind": "unusable-after-fault"})
    return out, n


# -- code -> spec: a fault at every access the engine or the template makes on a data object ------------

class ProbeFault(Exception):
    """The private exception of the access sweep (deliberately none of the absorbed classes)."""


class Svc:
    """A callable data object whose __getattr__ records every name it is asked for; the k-th access raises."""
    VALUES = {"title": "T<i>tle", "flag": True, "n": 3, "items": [1, 2]}

    def __init__(self, log, fault_at):
        object.__setattr__(self, "_log", log)
        object.__setattr__(self, "_fault_at", fault_at)

    def __call__(self, *a, **kw):
        return "svc<%d>" % len(a)

    def __getattr__(self, name):
        log = object.__getattribute__(self, "_log")
        log.append(name)
        if len(log) == object.__getattribute__(self, "_fault_at"):
            exc = ProbeFault(f"access #{len(log)} ({name})")
            log.append(exc)
            raise exc
        if name == "nested":
            return Svc(log, object.__getattribute__(self, "_fault_at"))
        if name in Svc.VALUES:
            return Svc.VALUES[name]
        raise AttributeError(name)


SWEEP_TEMPLATES = [
    "{{ svc() }}", "{{ svc(1, 2) }}|{{ svc.title }}", "{{ svc.title }}{{ svc['title'] }}{{ svc['nope'] }}", "{% if svc.flag %}{{ svc() }}{% endif %}",
    "{% for i in [1, 2] %}{{ svc() }}{% endfor %}", "{{ svc.title ~ svc() }}", "{{ svc()|upper }}{{ svc.title|e }}",
    "{{ svc is callable }}{{ svc.title is defined }}{{ svc.zz is defined }}", "{% macro m(a) %}[{{ a }}]{% endmacro %}{{ m(svc()) }}{{ m(svc.title) }}",
    "{% set x = svc() %}{{ x }}{% set y %}{{ svc() }}{% endset %}{{ y }}", "{{ svc.nested.title }}{{ svc.nested() }}", "{% call svc() %}body{% endcall %}",
    "{{ svc.title|default(svc()) }}{{ svc.zz|default(svc(1)) }}", "{% with s = svc %}{{ s() }}{{ s.n + 1 }}{% endwith %}", "{{ svc(svc.title, k=svc.n) }}",
    "{% for x in svc.items %}{{ x }}{{ svc() }}{% endfor %}", "{{ [svc, 1]|length }}{{ [svc]|first is callable }}", "{% include 'inc' %}",
    "{% import 'lib' as L %}{{ L.show(svc) }}", "{{ svc }}" ,
]
SWEEP_AUX = {"inc": "<{{ svc() }}{{ svc.title }}>", "lib": "{% macro show(o) %}({{ o() }}{{ o.title }}){% endmacro %}"}


def _sweep_work(args):
    core.use_repo()
    import asyncio
    import jinja2
    ti, src, mode, auto = args
    env = jinja2.Environment(autoescape=auto, enable_async=(mode == "async"), loader=jinja2.DictLoader(dict(SWEEP_AUX, main=src)))

    def run(fault_at):
        log = []
        svc = Svc(log, fault_at)
        try:
            t = env.get_template("main")
            if mode == "async":
                asyncio.run(t.render_async(svc=svc))
            else:
                t.render(svc=svc)
            end = "ok"
        except BaseException as e:  # noqa
            raised = [x for x in log if isinstance(x, ProbeFault)]
            end = "same" if raised and e is raised[0] else "other:" + type(e).__name__
        names = [x for x in log if isinstance(x, str)]
        faulted = any(isinstance(x, ProbeFault) for x in log)
        ev = ["access"] * (len(names) - (1 if faulted else 0)) + (["fault"] if faulted else [])
        # accesses recorded after the fault (the engine carried on) are kept as events after it
        if faulted:
            k = next(i for i, x in enumerate(log) if isinstance(x, ProbeFault))
            before = sum(1 for x in log[:k] if isinstance(x, str)) - 1
            after = sum(1 for x in log[k + 1:] if isinstance(x, str))
            ev = ["access"] * before + ["fault"] + ["access"] * after
        return {"ev": ev, "end": end.split(":")[0], "detail": end, "names": names, "fault_at": fault_at}

    out = []
    clean = run(None)
    out.append(clean)
    for k in range(1, len(clean["names"]) + 1):
        out.append(run(k))
    return [dict(r, template=src, mode=mode, auto=auto) for r in out]


def access_sweep(ck):
    """Every access of the data object in every template, faulted one at a time; TLC validates the recorded runs
    against DataFault.tla."""
    jobs = [(ti, src, mode, auto) for ti, src in enumerate(SWEEP_TEMPLATES) for mode in ("sync", "async") for auto in (False, True)]
    runs = []
    with ProcessPoolExecutor(max_workers=8) as ex:
        for res in ex.map(_sweep_work, jobs):
            runs += res
    d = core.workdir("C38", "sweep_in")
    tf = d / "traces.json"
    tf.write_text(json.dumps([{"ev": r["ev"], "end": r["end"]} for r in runs]))
    cfg = "INIT Init\nNEXT Next\nINVARIANT Collect\nINVARIANT C38_FaultPropagates\nPOSTCONDITION Post\nCHECK_DEADLOCK FALSE\n"
    r = core.run_tlc("C38", "DataFault", cfg, name="sweep", workers=1, env={"TRACE_FILE": str(tf)}, timeout=1800)
    ck.add_tlc(r, f"DataFault.tla: {len(runs)} recorded runs (one fault per data access, plus the fault-free runs)")
    rej = None
    for line in r.printed():
        try:
            j = json.loads(line)
        except ValueError:
            continue
        if isinstance(j, dict) and "rejected" in j:
            rej = j["rejected"]
    if rej is None:
        raise core.MachineryError("DataFault did not report")
    items = rej.items() if isinstance(rej, dict) else enumerate(rej, 1)
    for tid, matched in items:
        x = runs[int(tid) - 1]
        name = x["names"][x["fault_at"] - 1] if x["fault_at"] else "-"
        ck.violation({"kind": "sweep", "template": x["template"], "mode": x["mode"], "auto": x["auto"], "fault_at": x["fault_at"]},
                     f"[{x['mode']}, autoescape={x['auto']}] {x['template']!r}: the exception raised by the data object at its access "
                     f"#{x['fault_at']} ({name!r}) did not end the render unchanged: the render ended {x['detail']!r} "
                     f"(accesses {x['names']})", {"kind": "fault-swallowed-or-changed", "access": name})
    ck.traces += len(runs)
    ck.extra["access_sweep_runs"] = len(runs)
    ck.extra["access_sweep_engine_initiated_names"] = sorted({n for x in runs for n in x["names"]} - set(Svc.VALUES) - {"nested", "zz", "nope"})


def run(ck):
    quick = ck.tier == "quick"
    access_sweep(ck)
    rnd = random.Random(ck.seed + 38)
    bases = [jgen.fault_base_case(rnd, i + 1) for i in range(120 if quick else 2500)]
    obs0, r0 = jrun.spec_results("C38", bases, name="clean", timeout=3000)
    ck.add_tlc(r0, f"Jinja.tla clean runs ({len(bases)} programs)")
    jrun.conformance(ck, bases, obs0, [{"label": "clean"}, {"label": "clean/async", "opts": {"enable_async": True}, "how": "render_async"}],
                     lambda m, c: {"kind": "render-mismatch", "variant": m["variant"]})
    variants, origin = [], {}
    for b in bases:
        o = obs0[(b["id"], 1)]
        if o["err"]:
            continue
        vs = jgen.fault_variants(b, o, len(bases) + len(variants) + 1)
        for v in vs:
            origin[v["id"]] = b["id"]
        variants += vs
    obs1, r1 = jrun.spec_results("C38", variants, name="faulted", timeout=3000)
    ck.add_tlc(r1, f"Jinja.tla faulted runs ({len(variants)} fault placements)")
    nraised = sum(1 for o in obs1.values() if o["err"].startswith("Raised:"))
    ck.extra["fault_placements"] = len(variants)
    ck.extra["placements_where_spec_says_exception_propagates"] = nraised
    ck.extra["placements_absorbed_or_not_reached"] = len(variants) - nraised
    bmap = {b["id"]: b for b in bases}
    jobs = [(v, obs1[(v["id"], 1)], bmap[origin[v["id"]]], obs0[(origin[v["id"]], 1)]) for v in variants
            if obs1[(v["id"], 1)]["err"] != "EXCLUDED"]
    vmap = {v["id"]: v for v in variants}
    total = 0
    with ProcessPoolExecutor(max_workers=16) as ex:
        for mism, n in ex.map(_work, jobs, chunksize=8):
            total += n
            for m in mism:
                ck.violation({"kind": "fault", "case": vmap[m["case"]], "base": bmap[origin[m["case"]]]},
                             f"fault case {m['case']}: {m['what'][:260]} :: {str(m['src'])[:200]}", {"kind": m["kind"]})
    ck.traces += total
    ck.evaluations += total
    ck.extra["faulted_and_recovery_renders"] = total
    ck.exhaustive = False
    ck.extra["excluded_shapes"] = ["faulty iterables consumed by first / last / length / in",
                                   "capability tests on raising objects"]


def replay(ck, rec):
    c = rec["case"]
    if c.get("kind") == "sweep":
        res = _sweep_work((0, c["template"], c["mode"], c["auto"]))
        for x in res:
            if x["fault_at"] == c["fault_at"] and x["end"] != "same":
                ck.violation(c, f"still ends {x['detail']!r}", rec.get("fingerprint"))
        return
    obs, r = jrun.spec_results("C38", [c["case"], c["base"]], name="replay", workers=2)
    mism, n = _work((c["case"], obs[(c["case"]["id"], 1)], c["base"], obs[(c["base"]["id"], 1)]))
    for m in mism:
        ck.violation(c, m["what"][:300], {"kind": m["kind"]})
