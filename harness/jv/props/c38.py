"""C38 - exceptions from data propagate unchanged and leave the engine usable.

Spec: spec/Jinja.tla with fault-carrying data: a callable whose k-th call raises a private
exception (fn mode raise_at), an iterable whose k-th step raises (iterfault), attributes /
items / __str__ whose fetch raises (raiser).  The documented absorption rules are part of
the semantics: AttributeError from an attribute fetch => the item is tried, LookupError /
TypeError from an item fetch => the attribute is tried => undefined, StopIteration escaping a
callable => undefined; every other exception ends the render with that exception
("Raised:<id>").  TLC computes the clean run of every program and, for every k up to the
number of calls the clean run made to each callable, the outcome of the faulted run.
Binding: real data objects raise one unique exception *object* per fault; the render must
raise exactly that object (identity), in sync and async mode, and afterwards the same
environment must render the clean program and another template exactly as the spec says.
"""
from __future__ import annotations

import random
from concurrent.futures import ProcessPoolExecutor

from .. import core, jgen, jrun
from .. import jast as J


def _work(args):
    core.use_repo()
    case, obs, clean_case, clean_obs = args
    out, n = [], 0
    for label, opts, how in (("sync", {}, "render"), ("async", {"enable_async": True}, "render_async")):
        env, srcs = jrun.make_env(case, **opts)
        real = jrun.real_render(case, 1, env=env, how=how)
        n += 1
        m = jrun.compare(obs, real)
        if m is not None:
            out.append({"case": case["id"], "what": f"[{label}] {m}", "src": srcs, "kind": "fault-outcome"})
        # the engine must still be usable: same environment, clean data, then another template
        again = jrun.real_render(clean_case, 1, env=env, how=how)
        n += 1
        m = jrun.compare(clean_obs, again)
        if m is not None:
            out.append({"case": case["id"], "what": f"[{label}] clean re-render after the fault: {m}", "src": srcs, "kind": "unusable-after-fault"})
        try:
            other = env.from_string("{{ 1 + 1 }}{% for i in [1,2] %}{{ i }}{% endfor %}")
            got = (other.render() if how == "render" else __import__("asyncio").run(other.render_async()))
            if got != "212":
                out.append({"case": case["id"], "what": f"[{label}] other template renders {got!r}", "src": srcs, "kind": "unusable-after-fault"})
        except Exception as e:  # noqa
            out.append({"case": case["id"], "what": f"[{label}] other template raises {e!r}", "src": srcs, "kind": "unusable-after-fault"})
    return out, n


def run(ck):
    quick = ck.tier == "quick"
    rnd = random.Random(ck.seed + 38)
    bases = [jgen.fault_base_case(rnd, i + 1) for i in range(120 if quick else 2500)]
    obs0, r0 = jrun.spec_results("C38", bases, name="clean", timeout=3000)
    ck.add_tlc(r0, f"Jinja.tla clean runs ({len(bases)} programs)")
    jrun.conformance(ck, bases, obs0, [{"label": "clean"}, {"label": "clean/async", "opts": {"enable_async": True}, "how": "render_async"}],
                     lambda m, c: {"kind": "render-mismatch", "variant": m["variant"]})
    variants, origin = [], {}
    for b in bases:
        o = obs0[(b["id"], 1)]
        if o["err"]:
            continue
        vs = jgen.fault_variants(b, o, len(bases) + len(variants) + 1)
        for v in vs:
            origin[v["id"]] = b["id"]
        variants += vs
    obs1, r1 = jrun.spec_results("C38", variants, name="faulted", timeout=3000)
    ck.add_tlc(r1, f"Jinja.tla faulted runs ({len(variants)} fault placements)")
    nraised = sum(1 for o in obs1.values() if o["err"].startswith("Raised:"))
    ck.extra["fault_placements"] = len(variants)
    ck.extra["placements_where_spec_says_exception_propagates"] = nraised
    ck.extra["placements_absorbed_or_not_reached"] = len(variants) - nraised
    bmap = {b["id"]: b for b in bases}
    jobs = [(v, obs1[(v["id"], 1)], bmap[origin[v["id"]]], obs0[(origin[v["id"]], 1)]) for v in variants
            if obs1[(v["id"], 1)]["err"] != "EXCLUDED"]
    vmap = {v["id"]: v for v in variants}
    total = 0
    with ProcessPoolExecutor(max_workers=16) as ex:
        for mism, n in ex.map(_work, jobs, chunksize=8):
            total += n
            for m in mism:
                ck.violation({"kind": "fault", "case": vmap[m["case"]], "base": bmap[origin[m["case"]]]},
                             f"fault case {m['case']}: {m['what'][:260]} :: {str(m['src'])[:200]}", {"kind": m["kind"]})
    ck.traces += total
    ck.evaluations += total
    ck.extra["faulted_and_recovery_renders"] = total
    ck.exhaustive = False
    ck.extra["excluded_shapes"] = ["faults in __bool__ / __len__", "faulty iterables consumed by filters or left by break",
                                   "capability tests on raising objects"]


def replay(ck, rec):
    c = rec["case"]
    obs, r = jrun.spec_results("C38", [c["case"], c["base"]], name="replay", workers=2)
    mism, n = _work((c["case"], obs[(c["case"]["id"], 1)], c["base"], obs[(c["base"]["id"], 1)]))
    for m in mism:
        ck.violation(c, m["what"][:300], {"kind": m["kind"]})
