"""C02 - compiled expressions evaluate as the documented expression semantics.

Specs: spec/ExprSyntax.tla (the documented precedence table as a minimal-parentheses
unparser) and spec/Jinja.tla / JValues.tla (expression evaluation: operators, chained
comparisons evaluating each operand once, short-circuit and/or returning operands,
conditional expressions, attribute-then-item vs item-then-attribute lookup, calls,
filters, tests, undefined).

Binding:
  1. parser: TLC prints the token sequence of every generated tree with only the
     parentheses the table requires; the real parser must rebuild exactly that tree.
  2. evaluation: TLC evaluates `{{ expr }}` on every data assignment; the real engine
     (default, async, sandboxed, optimizer off) must print the same text / raise the same
     error class, compile_expression must return the same value, and the calls made
     to recording data callables must be the ones the spec made, in the same order.
"""
from __future__ import annotations

import json
from concurrent.futures import ProcessPoolExecutor

from .. import core, jgen, jrun
from .. import jast as J


def fingerprint(m, case):
    return {"kind": "render-mismatch", "variant": m["variant"]}


VARIANTS = [{"label": "default"}, {"label": "unoptimized", "opts": {"optimized": False}},
            {"label": "async", "opts": {"enable_async": True}, "how": "render_async"},
            {"label": "sandboxed", "env_cls": "SandboxedEnvironment"}]


# -- 1. parser -----------------------------------------------------------------------------

def tokens_to_source(toks):
    out = []
    for t in toks:
        if t.startswith("#int:"):
            out.append(t[5:])
        elif t.startswith("#float:"):
            n, e = t[7:].split("/")
            out.append(repr(int(n) / (1 << int(e))))
        elif t.startswith("#str:"):
            out.append(J.lit_str(t[5:]))
        else:
            out.append(t)
    return " ".join(out)


def project(node):
    """jinja2.nodes expression -> the abstract syntax of jast (for tree comparison)."""
    from jinja2 import nodes as n
    if isinstance(node, n.Const):
        v = node.value
        if isinstance(v, bool): return {"k": "const", "v": J.vbool(v)}
        if isinstance(v, int): return {"k": "const", "v": J.vint(v)}
        if isinstance(v, float) and J.vfloat(v) is not None: return {"k": "const", "v": J.vfloat(v)}
        if v is None: return {"k": "const", "v": J.VNONE}
        if isinstance(v, str): return {"k": "const", "v": J.vstr(v, "lit")}
        return {"k": "const?", "v": repr(v)}
    if isinstance(node, n.Name): return {"k": "name", "n": node.name}
    if isinstance(node, n.List): return {"k": "list", "items": [project(x) for x in node.items], "tup": False}
    if isinstance(node, n.Tuple): return {"k": "list", "items": [project(x) for x in node.items], "tup": True}
    if isinstance(node, n.Dict): return {"k": "dict", "keys": [project(p.key) for p in node.items], "vals": [project(p.value) for p in node.items]}
    ops = {n.Add: "+", n.Sub: "-", n.Mul: "*", n.Div: "/", n.FloorDiv: "//", n.Mod: "%", n.Pow: "**"}
    for cls, op in ops.items():
        if type(node) is cls: return {"k": "bin", "op": op, "a": project(node.left), "b": project(node.right)}
    if isinstance(node, n.And): return {"k": "and", "a": project(node.left), "b": project(node.right)}
    if isinstance(node, n.Or): return {"k": "or", "a": project(node.left), "b": project(node.right)}
    if isinstance(node, n.Not): return {"k": "not", "a": project(node.node)}
    if isinstance(node, n.Neg): return {"k": "neg", "a": project(node.node)}
    if isinstance(node, n.Pos): return {"k": "pos", "a": project(node.node)}
    if isinstance(node, n.Compare):
        return {"k": "cmp", "a": project(node.expr), "ops": [{"op": o.op, "e": project(o.expr)} for o in node.ops]}
    if isinstance(node, n.CondExpr):
        d = {"k": "cond", "test": project(node.test), "a": project(node.expr1)}
        if node.expr2 is not None: d["b"] = project(node.expr2)
        return d
    if isinstance(node, n.Concat): return {"k": "concat", "items": [project(x) for x in node.nodes]}
    if isinstance(node, n.Getattr): return {"k": "getattr", "a": project(node.node), "n": node.attr}
    if isinstance(node, n.Getitem) and isinstance(node.arg, n.Slice):
        d = {"k": "slice", "a": project(node.node)}
        if node.arg.start is not None: d["lo"] = project(node.arg.start)
        if node.arg.stop is not None: d["hi"] = project(node.arg.stop)
        if node.arg.step is not None: d["step"] = project(node.arg.step)
        return d
    if isinstance(node, n.Getitem): return {"k": "getitem", "a": project(node.node), "i": project(node.arg)}
    if isinstance(node, n.Call):
        return {"k": "call", "f": project(node.node), "args": [project(a) for a in node.args],
                "kwnames": [k.key for k in node.kwargs], "kwvals": [project(k.value) for k in node.kwargs],
                **({"dyn": True} if node.dyn_args or node.dyn_kwargs else {})}
    if isinstance(node, n.Filter):
        return {"k": "filter", "a": project(node.node), "n": node.name, "args": [project(a) for a in node.args],
                "kwnames": [k.key for k in node.kwargs], "kwvals": [project(k.value) for k in node.kwargs]}
    if isinstance(node, n.Test):
        neg = False
        return {"k": "test", "a": project(node.node), "n": node.name, "args": [project(a) for a in node.args], "neg": False}
    return {"k": "?" + type(node).__name__}


def norm_tree(e):
    """Normal form for comparison: `x is not t` parses to Not(Test); drop string origins."""
    if isinstance(e, list):
        return [norm_tree(x) for x in e]
    if not isinstance(e, dict):
        return e
    e = {k: norm_tree(v) for k, v in e.items()}
    if e.get("k") == "test" and e.get("neg"):
        return {"k": "not", "a": dict(e, neg=False)}
    if e.get("k") == "const" and e["v"].get("t") == "str":
        return {"k": "const", "v": {"t": "str", "text": J.seg_text(e["v"]["s"])}}
    return e


def parser_check(ck, cases):
    import jinja2
    from jinja2 import nodes as n
    d = core.workdir("C02", "syn_cases")
    f = d / "cases.json"
    f.write_text(json.dumps([{"id": c["id"], "e": c["tpls"]["main"]["body"][0]["e"]} for c in cases]))
    r = core.run_tlc("C02", "ExprSyntax", "SPECIFICATION Spec\nINVARIANT C02_Balanced\n", env={"CASES_FILE": str(f)},
                     name="syntax", timeout=1800)
    ck.add_tlc(r, f"ExprSyntax.tla ({len(cases)} trees)")
    toks = {}
    for line in set(r.printed()):
        try:
            o = json.loads(line)
            toks[o["id"]] = o["toks"]
        except Exception:  # noqa
            pass
    env = jinja2.Environment()
    nfewer = 0
    for c in cases:
        if c["id"] not in toks:
            raise core.MachineryError(f"ExprSyntax printed nothing for case {c['id']}")
        src = tokens_to_source(toks[c["id"]])
        want = norm_tree(c["tpls"]["main"]["body"][0]["e"])
        try:
            tree = env.parse("{{ " + src + " }}")
            out = tree.body[0]
            got = norm_tree(project(out.nodes[0])) if isinstance(out, n.Output) and len(out.nodes) == 1 else {"k": "?"}
        except jinja2.TemplateSyntaxError as e:
            got = {"k": "syntax-error", "msg": str(e)}
        ck.traces += 1
        if src.count("(") < J.ux(c["tpls"]["main"]["body"][0]["e"]).count("("):
            nfewer += 1
        if got != want:
            ck.violation({"kind": "parse", "source": src, "expected_tree": want, "actual_tree": got},
                         f"parser builds a different tree for {src!r}: expected {json.dumps(want)[:300]} got {json.dumps(got)[:300]}",
                         {"kind": "parse-tree-mismatch"})
    ck.extra["trees_parsed"] = len(cases)
    ck.extra["trees_with_fewer_parens_than_full"] = nfewer


# -- 2. values and call logs ----------------------------------------------------------------

def abstract_py(v):
    from markupsafe import Markup
    import jinja2
    if isinstance(v, jinja2.Undefined): return {"t": "undef"}
    if isinstance(v, bool): return {"t": "bool", "b": v}
    if isinstance(v, int): return {"t": "int", "n": v}
    if isinstance(v, float): return J.vfloat(v) or {"t": "?", "repr": repr(v)}
    if v is None: return {"t": "none"}
    if isinstance(v, str): return {"t": "str", "text": str(v), "m": isinstance(v, Markup)}
    if isinstance(v, (list, tuple)): return {"t": "list", "v": [abstract_py(x) for x in v], "tup": isinstance(v, tuple)}
    if isinstance(v, dict): return {"t": "dict", "k": [abstract_py(k) for k in v], "v": [abstract_py(x) for x in v.values()]}
    if isinstance(v, J.Probe): return {"t": "obj", "id": v._jv_id}
    if isinstance(v, J.RecFn): return {"t": "fn", "id": v.fid}
    return {"t": "?", "repr": repr(v)[:80]}


def abstract_spec(v):
    t = v["t"]
    if t == "str": return {"t": "str", "text": J.expected_text(v["s"]), "m": v["m"]}
    if t == "list": return {"t": "list", "v": [abstract_spec(x) for x in v["v"]], "tup": v["tup"]}
    if t == "dict": return {"t": "dict", "k": [abstract_spec(x) for x in v["k"]], "v": [abstract_spec(x) for x in v["v"]]}
    if t == "undef": return {"t": "undef"}
    if t in ("obj", "fn"): return {"t": t, "id": v["id"]}
    return v


def _value_work(args):
    core.use_repo()
    import jinja2
    case, obs_by_d = args
    out = []
    # compile_expression has no template name: give the environment the case's autoescape mode
    env, srcs = jrun.make_env(case, autoescape=bool(case["tpls"]["main"]["auto"]))
    src = J.ux(case["tpls"]["main"]["body"][0]["e"])
    try:
        fn = env.compile_expression(src, undefined_to_none=False)
    except Exception as e:  # noqa
        return [{"case": case["id"], "d": 0, "what": f"compile_expression failed: {e!r}", "src": src}], 0
    n = 0
    for di, obs in obs_by_d.items():
        if obs["err"] == "EXCLUDED":
            continue
        log = []
        data = {k: J.to_py(v, case["objs"], log, {}) for k, v in case["datas"][di - 1].items()}
        vals = [e for e in obs["log"] if e[0] == "value"]
        calls_spec = [[e[1], e[2], list(e[3])] for e in obs["log"] if e[0] == "call"]
        try:
            got = fn(**data)
            err = ""
        except Exception as e:  # noqa
            got = None
            err = type(e).__name__
            for klass in type(e).__mro__:
                if klass.__name__ in J.ERRCLASS:
                    err = J.ERRCLASS[klass.__name__]
                    break
        n += 1
        calls_real = [[c[1], c[2], list(c[3])] for c in log]
        if obs["err"]:
            # the error may stem from printing (strict undefined) rather than evaluation: judge only when no value was produced
            if not vals and err != obs["err"]:
                out.append({"case": case["id"], "d": di, "src": src, "what": f"compile_expression: expected error {obs['err']}, got {err or abstract_py(got)}"})
            continue
        if err:
            out.append({"case": case["id"], "d": di, "src": src, "what": f"compile_expression raised {err}, spec value {vals}"})
            continue
        if vals:
            want = abstract_spec(vals[-1][1])
            have = abstract_py(got)
            if want != have:
                out.append({"case": case["id"], "d": di, "src": src, "what": f"compile_expression value {have} != spec value {want}"})
        if calls_real != calls_spec:
            out.append({"case": case["id"], "d": di, "src": src, "what": f"data callables invoked {calls_real}, spec says {calls_spec}"})
    return out, n


def value_check(ck, cases, obs):
    cases = [c for c in cases if c.get("emit_values")]
    by_case = {}
    for (cid, di), o in obs.items():
        by_case.setdefault(cid, {})[di] = o
    cmap = {c["id"]: c for c in cases}
    total = 0
    with ProcessPoolExecutor(max_workers=16) as ex:
        for mism, n in ex.map(_value_work, [(c, by_case[c["id"]]) for c in cases], chunksize=16):
            total += n
            for m in mism:
                ck.violation({"kind": "value", "case": cmap[m["case"]], "d": m["d"], "src": m["src"]},
                             f"case {m['case']} data#{m['d']} {m['src']!r}: {m['what']}", {"kind": "value-mismatch"})
    ck.traces += total
    ck.extra["compile_expression_evaluations"] = total


def run(ck):
    quick = ck.tier == "quick"
    cases = jgen.expr_cases(ck.seed * 15485863 + 2, 700 if quick else 12000, depth=3 if quick else 4)
    cases += jgen.expr_cases(ck.seed * 15485863 + 3, 300 if quick else 6000, start_id=len(cases) + 1, depth=3, numeric=True)
    cases += jgen.expr_cases(ck.seed * 15485863 + 4, 60 if quick else 600, start_id=len(cases) + 1, depth=2, collide=True)
    # lazy filters (map / select / reject / selectattr / rejectattr) with the consumers that read them
    cases += jgen.lazy_cases(ck.seed * 15485863 + 5, 300 if quick else 5000, start_id=len(cases) + 1)
    parser_check(ck, [c for c in cases if c["tpls"]["main"]["body"][0].get("k") == "out"])
    for bi, batch in enumerate(core.chunks(cases, 3000)):
        obs, r = jrun.spec_results("C02", batch, name=f"b{bi}", timeout=3000)
        ck.add_tlc(r, f"Jinja.tla expressions batch {bi} ({len(batch)} trees x {len(batch[0]['datas'])} data)")
        jrun.conformance(ck, batch, obs, VARIANTS, fingerprint)
        value_check(ck, batch, obs)
    ck.extra["expressions"] = len(cases)
    ck.exhaustive = False
    ck.extra["excluded_shapes"] = ["float results outside the exact dyadic rationals n/2^e (e <= 6, |n| <= 30000), negative zero",
                                   "string and list ordering", "substring `in`",
                                   "unary minus next to ** and ~ next to arithmetic (always parenthesised)",
                                   "repr of containers holding strings", "slices with a step", "*args/**kwargs call syntax"]


def replay(ck, rec):
    c = rec["case"]
    if c["kind"] == "parse":
        import jinja2
        from jinja2 import nodes as n
        tree = jinja2.Environment().parse("{{ " + c["source"] + " }}")
        got = norm_tree(project(tree.body[0].nodes[0]))
        if got != c["expected_tree"]:
            ck.violation(c, "parser still builds a different tree", rec.get("fingerprint"))
        return
    case = c["case"]
    obs, r = jrun.spec_results("C02", [case], name="replay", workers=2)
    if c["kind"] == "value":
        value_check(ck, [case], obs)
    else:
        v = [x for x in VARIANTS if x["label"] == c["variant"]] or VARIANTS[:1]
        jrun.conformance(ck, [case], obs, v, fingerprint, procs=1)
