"""C36 - async rendering always closes the generators it opens.

Spec: spec/AsyncGen.tla (life cycle of async generator instances: an
interpreter, with Python's suspension / unwinding / GeneratorExit semantics,
for the statement structure extracted from the code jinja2 generates) and
spec/AsyncGenTrace.tla (trace validation).

Pipeline per run:
  1. a corpus of template sets (hand-written core + seeded random compositions of
     blocks, super(), self.block(), extends, includes with/without context,
     imports, macros, call blocks, set/filter blocks, loop filters, loop
     controls, recursive loops; loop data = lists, tuples, ranges, dict views,
     plain iterators, sync generators (made afresh per run), async iterables);
  2. jv.asyncgen_util.Extractor reads the *generated* Python code of every
     template (and generate_async / render_async / make_module_async /
     _get_default_module_async / BlockReference._async_call and the loop-data
     adapter auto_aiter from the checkout under test) and projects it onto
     AsyncGen.tla's statement language;
  3. TLC decides C36_AllClosedAtTaskEnd for every extracted structure under
     every consumer behaviour (next / close after any chunk, cancellation or
     data fault at any await, any data branching): it reports the leaking
     behaviours per structure, proves the invariant for the others, and proves
     it for all structures in the idealised design (abandoned loops close);
  4. the real engine is driven by hand (no event loop) for every template set:
     complete render, consumer stops after k chunks for every k, cancellation
     and data fault at the j-th await for every j; every async generator is
     recorded through sys.set_asyncgen_hooks and must be closed when the task
     ends, no RuntimeWarning may be emitted;
  5. the recorded runs (generator states at every point where control is back
     in the driver) are validated as behaviours of the spec by TLC.
"""
from __future__ import annotations

import json
import random
import re
from concurrent.futures import ThreadPoolExecutor

from .. import core
from ..asyncgen_util import DataFault, Extractor, Runner, Unmodelled, _Gate, site_table

PID = "C36"

# ---------------------------------------------------------------------------
# data handed to every template (stateless: the driver decides at each gate)
# ---------------------------------------------------------------------------

async def f(*a):
    r = await _Gate(0)
    if r == "fault":
        raise DataFault("injected")
    return "v"


class ASeq:
    """Async iterable (not an async generator): every __anext__ awaits a gate."""

    def __init__(self, items):
        self.items = list(items)

    def __aiter__(self):
        return _AIt(self.items)


class _AIt:
    def __init__(self, items):
        self.items, self.i = items, 0

    def __aiter__(self):
        return self

    async def __anext__(self):
        r = await _Gate(1)
        if r == "fault":
            raise DataFault("injected")
        if self.i >= len(self.items):
            raise StopAsyncIteration
        self.i += 1
        return self.items[self.i - 1]


class Node:
    def __init__(self, v, c=()):
        self.v, self.c = v, list(c)


def data():
    d = {"f": f, "seq": [1, 0, 2], "one": [3], "aseq": ASeq([1, 0, 2]), "c": True, "d": False,
         "tree": [Node(1, [Node(2)]), Node(0)], "layout": "base", "layout2": "mid", "incname": "inc",
         "incname2": "incf", "tup": (1, 0, 2), "rng": range(3), "keys": {1: "a", 0: "b", 2: "c"}.keys()}
    d.update(one_shot_data())
    return d


def _count(items):
    for i in items:
        yield i


def _gnode(v, c=()):
    n = Node(v)
    n.c = c
    return n


def one_shot_data():
    """Loop data of the kinds that can be consumed only once - sync generator objects (generator
    expression, generator function) and plain iterators - made afresh for every run.  They go through
    the same `auto_aiter` / `AsyncLoopContext` adaptation as lists, by another branch of it."""
    return {"gseq": (i for i in [1, 0, 2]), "gseq2": _count([1, 0, 2]), "gone": (i for i in [3]),
            "itseq": iter([1, 0, 2]), "itseq2": iter((1, 0, 2)),
            "gtree": (n for n in [_gnode(1, (m for m in [_gnode(2)])), _gnode(0)])}


# names of loop data by kind (the composer picks among them)
SYNC_DATA = ["seq", "one", "tup", "rng", "keys", "gseq", "gseq2", "gone", "itseq", "itseq2"]


AUX = {
    "base": "B[{% block a %}ba{{ f() }}{% endblock %}|{% block b %}bb{% endblock %}]{{ f() }}",
    "basef": "{% block a %}{% for i in seq if i %}p{{ f() }}{% endfor %}{% endblock %}|{% block b %}bb{{ f() }}{% endblock %}",
    "mid": "{% extends 'base' %}{% block a %}m({{ super() }}){{ f() }}{% endblock %}",
    "inc": "I{{ f() }}J",
    "incf": "{% for i in seq if i %}<{{ f() }}>{% endfor %}",
    "incb": "{% block q %}q{{ f() }}{% endblock %}{{ self.q() }}",
    "incg": "{% for i in gseq2 %}<{{ i }}{{ f() }}>{% endfor %}",
    "mod": "{% macro mf() %}M{{ f() }}{% endmacro %}{% macro mg() %}{% for i in seq if i %}g{{ f() }}{% endfor %}{% endmacro %}m{{ f() }}",
}

CORE = [
    ("plain", "a{{ f() }}b{{ f() }}c"),
    ("loop", "{% for i in seq %}[{{ i }}{{ f() }}]{% endfor %}"),
    ("loopfilter", "{% for i in seq if i %}[{{ i }}{{ f() }}]{% endfor %}x"),
    ("loopfilter_ext", "{% for i in seq if i %}{{ loop.index }}{{ f() }}{% endfor %}x"),
    ("loopfilter_else", "{% for i in seq if d %}y{% else %}e{{ f() }}{% endfor %}"),
    ("loopfilter_break", "{% for i in seq if i %}{{ i }}{% break %}{% endfor %}z{{ f() }}"),
    ("aloop", "{% for i in aseq %}[{{ i }}]{% endfor %}"),
    ("aloopfilter", "{% for i in aseq if i %}[{{ f() }}]{% endfor %}"),
    ("nestedfilter", "{% for i in seq if i %}{% for j in one if j %}{{ f() }}{% endfor %}{% endfor %}"),
    ("block", "a{% block x %}x{{ f() }}y{% endblock %}b{{ f() }}"),
    ("nestedblocks", "{% block x %}x{% block y %}y{{ f() }}{% endblock %}{{ f() }}{% endblock %}"),
    ("blockinloop", "{% for i in seq %}{% block x scoped %}{{ i }}{{ f() }}{% endblock %}{% endfor %}"),
    ("selfblock", "{% block x %}x{{ f() }}{% endblock %}{{ self.x() }}"),
    ("extends", "{% extends 'base' %}{% block a %}ca{{ f() }}{% endblock %}"),
    ("extends_super", "{% extends 'base' %}{% block a %}s({{ super() }}){{ f() }}{% endblock %}"),
    ("extends2_super", "{% extends 'mid' %}{% block a %}t({{ super() }}){% endblock %}{% block b %}{{ f() }}{{ self.a() }}{% endblock %}"),
    ("extends_filterparent", "{% extends 'basef' %}{% block b %}({{ super() }}){% endblock %}"),
    ("extends_superfilter", "{% extends 'basef' %}{% block a %}[{{ super() }}]{% endblock %}"),
    ("include", "a{% include 'inc' %}b"),
    ("include_noctx", "a{% include 'inc' without context %}b{{ f() }}"),
    ("include_filter", "a{% include 'incf' %}b"),
    ("include_blocks", "a{% include 'incb' %}b"),
    ("include_inloop", "{% for i in seq if i %}{% include 'inc' %}{% endfor %}"),
    ("include_missing", "a{% include 'nope' ignore missing %}b{{ f() }}"),
    ("import", "{% import 'mod' as mm %}{{ mm.mf() }}|{{ mm.mg() }}"),
    ("fromimport", "{% from 'mod' import mf, mg %}{{ mg() }}{{ mf() }}"),
    ("importctx", "{% import 'mod' as mm with context %}{{ mm.mf() }}"),
    ("macro", "{% macro m() %}[{{ f() }}]{% endmacro %}{{ m() }}{{ m() }}"),
    ("macro_filter", "{% macro m() %}{% for i in seq if i %}{{ f() }}{% endfor %}{% endmacro %}a{{ m() }}b"),
    ("macro_inblock", "{% macro m() %}{% for i in seq if i %}{{ f() }}{% endfor %}{% endmacro %}{% block x %}{{ m() }}{% endblock %}"),
    ("callblock", "{% macro m() %}[{{ caller() }}]{% endmacro %}{% call m() %}c{{ f() }}{% endcall %}"),
    ("callblock_filter", "{% macro m() %}{% for i in seq if i %}{{ caller() }}{% endfor %}{% endmacro %}{% call m() %}c{{ f() }}{% endcall %}"),
    ("setblock", "{% set x %}s{{ f() }}{% for i in seq if i %}{{ f() }}{% endfor %}{% endset %}{{ x }}"),
    ("filterblock", "{% filter upper %}u{{ f() }}{% endfilter %}"),
    ("with", "{% with a = f() %}{{ a }}{% endwith %}"),
    ("ifelse", "{% if c %}{{ f() }}{% else %}n{% endif %}{% if d %}{% for i in seq if i %}{{ f() }}{% endfor %}{% endif %}"),
    ("recursive", "{% for n in tree recursive %}{{ n.v }}{{ f() }}{% if n.c %}{{ loop(n.c) }}{% endif %}{% endfor %}"),
    ("recursive_filter", "{% for n in tree if n.v recursive %}{{ n.v }}{{ f() }}{% if n.c %}{{ loop(n.c) }}{% endif %}{% endfor %}"),
    ("recursive_filter_fault_deep", "{% for n in tree if n.v recursive %}<{% if n.c %}{{ loop(n.c) }}{% endif %}{{ f() }}>{% endfor %}"),
    ("recursive_filter_include", "{% for n in tree if n.v recursive %}{% include 'inc' %}{% if n.c %}{{ loop(n.c) }}{% endif %}{% endfor %}x{{ f() }}"),
    ("recursive_filter_inblock", "{% block x %}{% for n in tree if n.v recursive %}{{ f() }}{% if n.c %}{{ loop(n.c) }}{% endif %}{{ f() }}{% endfor %}{% endblock %}"),
    ("recursive_filter_inmacro", "{% macro m(t) %}{% for n in t if n.v recursive %}{{ f() }}{% if n.c %}{{ loop(n.c) }}{% endif %}{% endfor %}{% endmacro %}a{{ m(tree) }}"),
    ("condextends", "{% if c %}{% extends layout %}{% endif %}x{% block a %}ca{{ f() }}{% endblock %}y"),
    ("condextends_const", "{% if c %}{% extends 'base' %}{% endif %}{% block b %}cb{{ f() }}{% endblock %}"),
    ("condextends_false", "{% if d %}{% extends 'base' %}{% endif %}x{% block a %}ca{{ f() }}{% endblock %}y{{ f() }}"),
    ("condextends_super", "{% if c %}{% extends layout2 %}{% endif %}{% block a %}[{{ super() }}]{{ f() }}{% endblock %}"),
    ("condextends_filterparent", "{% if c %}{% extends 'basef' %}{% endif %}{% block b %}({{ super() }}){% endblock %}"),
    ("dynextends", "{% extends layout %}{% block b %}{{ f() }}d{% endblock %}"),
    ("dyninclude", "a{% include incname %}b{{ f() }}{% include incname2 %}"),
    ("dyninclude_inloop", "{% for i in seq if i %}{% include incname %}{% endfor %}"),
    ("continue", "{% for i in seq if i %}{% if i == 1 %}{% continue %}{% endif %}{{ f() }}{% endfor %}"),
    # loop data that is a sync generator / a plain iterator / another builtin iterable: plain, extended
    # (AsyncLoopContext) and filtered loops, left early by the consumer, a cancellation, a fault or a break
    ("gloop", "{% for i in gseq %}[{{ i }}{{ f() }}]{% endfor %}x{{ f() }}"),
    ("gloop_ext", "{% for i in gseq2 %}{{ loop.index }}{{ f() }}{% endfor %}x"),
    ("gloopfilter_ext", "{% for i in gseq if i %}{{ loop.index }}:{{ i }}{{ f() }}{% endfor %}x"),
    ("gloop_break", "{% for i in gseq %}{{ i }}{% if i == 0 %}{% break %}{% endif %}{{ f() }}{% endfor %}z{{ f() }}"),
    ("itloop", "{% for i in itseq %}[{{ i }}]{% for j in rng if j %}{{ f() }}{% endfor %}{% endfor %}"),
    ("gloop_inblock_include", "{% extends 'base' %}{% block a %}{% for i in gseq %}[{{ i }}]{% include 'inc' %}{% endfor %}{% endblock %}"),
    ("gloop_macro", "{% macro m(s) %}{% for i in s %}{{ f() }}{% endfor %}{% endmacro %}a{{ m(gseq) }}b{% include 'incg' %}"),
    ("grecursive", "{% for n in gtree recursive %}{{ n.v }}{{ f() }}{% if n.c %}{{ loop(n.c) }}{% endif %}{% endfor %}"),
    ("block_set_include", "{% block x %}{% set y %}{% include 'inc' %}{% endset %}{{ y }}{% endblock %}"),
]


class Gen:
    """Seeded random template composer."""

    def __init__(self, rnd):
        self.r = rnd
        self.n = 0

    def uid(self, p):
        self.n += 1
        return f"{p}{self.n}"

    def body(self, depth, in_macro=False, in_loop=False, blocks_ok=True, budget=None):
        r = self.r
        if budget is None:
            budget = [r.randint(2, 5)]
        out = []
        for _ in range(r.randint(1, 3)):
            if budget[0] <= 0:
                break
            budget[0] -= 1
            kinds = ["text", "f", "f"]
            if depth > 0:
                kinds += ["for", "forif", "forif", "forext", "afor", "if", "inc", "incn", "incf", "incdyn", "set", "filter",
                          "with", "macro", "call", "import"]
                if not in_loop:
                    kinds += ["forrec"]
                if blocks_ok and not in_macro:
                    kinds += ["block", "block", "selfleaf"]
                if in_loop:
                    kinds += ["break"]
            k = r.choice(kinds)
            sub = lambda **kw: self.body(depth - 1, budget=budget, **{"in_macro": in_macro, "in_loop": in_loop,
                                                                     "blocks_ok": blocks_ok, **kw})
            if k == "text":
                out.append(r.choice("abc"))
            elif k == "f":
                out.append("{{ f() }}")
            elif k == "for":
                out.append("{% for i in " + r.choice(SYNC_DATA) + " %}" + sub(in_loop=True) + "{% endfor %}")
            elif k == "forif":
                out.append("{% for i in " + r.choice(SYNC_DATA + ["aseq", "aseq"]) + " if i %}" + sub(in_loop=True) + "{% endfor %}")
            elif k == "forext":
                out.append("{% for i in " + r.choice(["seq", "seq", "gseq", "itseq", "keys"]) + r.choice([" if i", " if i", ""])
                           + " %}{{ loop.index }}" + sub(in_loop=True) + "{% endfor %}")
            elif k == "afor":
                out.append("{% for i in aseq %}" + sub(in_loop=True) + "{% endfor %}")
            elif k == "if":
                out.append("{% if " + r.choice("cd") + " %}" + sub() + "{% else %}" + sub() + "{% endif %}")
            elif k == "forrec":
                # filtered + recursive: awaits before and after the recursion, at every depth
                out.append("{% for n in tree if n.v recursive %}" + r.choice(["{{ f() }}", "", "{% include 'inc' %}"])
                           + "{% if n.c %}{{ loop(n.c) }}{% endif %}" + r.choice(["{{ f() }}", "", "b"]) + "{% endfor %}")
            elif k == "incdyn":
                out.append("{% include " + r.choice(["incname", "incname2"]) + " %}")
            elif k == "inc":
                out.append("{% include 'inc' %}")
            elif k == "incn":
                out.append("{% include 'inc' without context %}")
            elif k == "incf":
                out.append("{% include '" + r.choice(["incf", "incb", "incg"]) + "' %}")
            elif k == "set":
                v = self.uid("v")
                out.append("{% set " + v + " %}" + sub(blocks_ok=False) + "{% endset %}{{ " + v + " }}")
            elif k == "filter":
                out.append("{% filter upper %}" + sub(blocks_ok=False) + "{% endfilter %}")
            elif k == "with":
                out.append("{% with w = f() %}" + sub() + "{% endwith %}")
            elif k == "macro":
                m = self.uid("m")
                out.append("{% macro " + m + "() %}" + sub(in_macro=True, in_loop=False, blocks_ok=False)
                           + "{% endmacro %}{{ " + m + "() }}")
            elif k == "call":
                m = self.uid("m")
                out.append("{% macro " + m + "() %}[{{ caller() }}]{% endmacro %}{% call " + m + "() %}"
                           + sub(in_macro=True, in_loop=False, blocks_ok=False) + "{% endcall %}")
            elif k == "import":
                a = self.uid("im")
                out.append("{% import 'mod' as " + a + " %}{{ " + a + "." + r.choice(["mf", "mg"]) + "() }}")
            elif k == "block":
                b = self.uid("b")
                out.append("{% block " + b + (" scoped" if in_loop else "") + " %}" + sub(in_loop=False) + "{% endblock %}")
            elif k == "selfleaf":
                b = self.uid("b")
                out.append("{% block " + b + " %}L{{ f() }}{% endblock %}{{ self." + b + "() }}")
            elif k == "break":
                out.append("{% if i == 2 %}{% break %}{% endif %}")
        return "".join(out)

    def program(self):
        r = self.r
        self.n = 0
        shape = r.choice(["plain", "plain", "extends", "extends", "extends2"])
        if shape == "plain":
            return self.body(2)
        parent = {"extends": r.choice(["base", "basef"]), "extends2": "mid"}[shape]
        how = r.choice(["const", "const", "cond", "cond", "dyn", "conddyn"])
        target = "'" + parent + "'"
        if how in ("dyn", "conddyn"):
            target = {"base": "layout", "mid": "layout2", "basef": "'basef'"}[parent]
        ext = "{% extends " + target + " %}"
        if how in ("cond", "conddyn"):
            ext = "{% if c %}" + ext + "{% endif %}" + r.choice(["", "t"])
        out = [ext]
        for b in r.sample(["a", "b"], r.randint(1, 2)):
            inner = self.body(2)
            if r.random() < 0.6:
                inner = r.choice(["{{ super() }}" + inner, inner + "{{ super() }}"])
            out.append("{% block " + b + " %}" + inner + "{% endblock %}")
        return "".join(out)


def make_env(templates):
    from jinja2 import Environment, FunctionLoader

    def load(name):
        if name not in templates:
            return None
        return templates[name], name, lambda: True

    env = Environment(enable_async=True, loader=FunctionLoader(load), extensions=["jinja2.ext.loopcontrols"],
                      cache_size=-1)
    env.globals.update(data())  # globals: visible in includes without context and imported modules too
    return env


def corpus(tier, seed):
    progs = [{"name": n, "templates": dict(AUX, main=src)} for n, src in CORE]
    rnd = random.Random(seed * 7919 + 36)
    g = Gen(rnd)
    want = 12 if tier == "quick" else 130
    tries = 0
    seen = {p["templates"]["main"] for p in progs}
    while want > 0 and tries < 5000:
        tries += 1
        src = g.program()
        if src in seen or len(src) > (260 if tier == "quick" else 400):
            continue
        seen.add(src)
        progs.append({"name": f"rand{tries}", "templates": dict(AUX, main=src)})
        want -= 1
    return progs


# ---------------------------------------------------------------------------
# real executions
# ---------------------------------------------------------------------------

def site_kind(short):
    if short.startswith("env:"):
        return short
    fn = short.split(":", 1)[1]
    last = fn.split(".")[-1]
    if re.fullmatch(r"t_\d+", last):
        return "loop-filter"
    if last.startswith("block_"):
        return "block"
    if last == "root":
        return "root"
    return last


def run_one(env, prog, mode, plan=None, stop=None):
    # one-shot loop data (generators, iterators) is made afresh for every run; templates see the
    # environment's globals through a ChainMap, so includes without context and imported modules do too
    env.globals.update(one_shot_data())
    t = env.get_template("main")
    r = Runner(t, {}, mode, plan, stop)
    r.run(set(prog["templates"]))
    return r


def all_runs(prog, max_gates):
    """complete runs in both modes; consumer stops after k chunks for every k;
    cancel and fault at the j-th await for every j (both modes)."""
    env = make_env(prog["templates"])
    runs = []
    for mode in ("render", "generate"):
        base = run_one(env, prog, mode)
        runs.append(base)
        if base.how != "complete" or base.gates > max_gates:
            continue
        for j in range(1, base.gates + 1):
            runs.append(run_one(env, prog, mode, {j: "cancel"}))
            runs.append(run_one(env, prog, mode, {j: "fault"}))
        if mode == "generate":
            for k in range(1, base.chunks + 1):
                runs.append(run_one(env, prog, mode, None, k))
    return runs


def judge_run(ck, prog, r, predicted, stats):
    """The property-level verdict on one real execution."""
    case = {"kind": "run", "templates": {k: v for k, v in prog["templates"].items()}, "mode": r.mode,
            "plan": {str(k): v for k, v in r.plan.items()}, "stop_after": r.stop_after}
    leaked = [s for s in r.final if s[1] != "closed"]
    for short, st in leaked:
        pred = (r.mode, r.how, short) in predicted
        stats["leaks"] += 1
        if not pred:
            stats["unpredicted"] += 1
            if len(stats["unpredicted_examples"]) < 8:
                stats["unpredicted_examples"].append({"main": prog["templates"]["main"], "mode": r.mode, "how": r.how,
                                                      "plan": r.plan, "stop_after": r.stop_after, "leaked": short})
        ck.violation(
            dict(case, leaked=short, state=st, how=r.how, predicted_by_spec=pred),
            f"async generator {short} left {st} when the task ended ({r.mode}, consumer/fault behaviour: {r.how}, "
            f"plan={r.plan}, stop_after={r.stop_after}) for main template {prog['templates']['main']!r}"
            + ("" if pred else " [not predicted by AsyncGen.tla for the extracted structure]"),
            {"kind": "unclosed-generator", "site": site_kind(short), "how": r.how},
        )
    for w in r.warnings:
        stats["warnings"] += 1
        ck.violation(dict(case, warning=w), f"warning during async render: {w} ({r.mode}, {r.how}) for "
                     f"{prog['templates']['main']!r}", {"kind": "warning", "how": r.how})
    for origin, name, st in r.other_final:
        if st == "closed":
            continue
        if origin == "engine":
            stats["leaks"] += 1
            ck.violation(
                dict(case, leaked=name, state=st, how=r.how),
                f"async generator {name} (jinja2 runtime helper) left {st} when the task ended ({r.mode}, {r.how}, "
                f"plan={r.plan}, stop_after={r.stop_after}) for main template {prog['templates']['main']!r}",
                {"kind": "unclosed-generator", "site": name, "how": r.how},
            )
        else:
            stats["out_of_scope_unclosed"].add(f"{origin}:{name}")
    return leaked


# ---------------------------------------------------------------------------
# TLC
# ---------------------------------------------------------------------------

def cfg_mc(fuel, ideal, invs, maxgens=20):
    s = f"""CONSTANTS
  MaxGens = {maxgens}
  Fuel = {fuel}
  Idealised = {"TRUE" if ideal else "FALSE"}
  CallsSuspend = FALSE
  Modes = {{"generate", "render"}}
SPECIFICATION Spec
INVARIANT TypeOK
INVARIANT C36_ChainDiscipline
INVARIANT C36_GuardedNeverLeaks
PROPERTY C36_ClosedIsFinal
"""
    for i in invs:
        s += f"INVARIANT {i}\n"
    return s


CFG_TRACE = """CONSTANTS
  MaxGens = 40
  Fuel = 0
  Idealised = FALSE
  CallsSuspend = TRUE
  Modes = {"generate", "render"}
INIT TInit
NEXT TNext
CONSTRAINT Collect
INVARIANT C36_AcceptedEndsClosed
"""

ACTIONS = ["If", "Many", "LoopExit", "LoopIterate", "Try", "EndTry", "Coro", "Jump", "Open", "AFor",
           "IterStart", "IterResume", "Yield", "Finish", "AClose", "UnwindStep", "UnwindExit", "PtPass",
           "PtSuspend", "GateResume", "GateCancel", "GateFault", "Chunk", "ConsNext", "ConsClose", "Report"]


def extract_all(ck, progs):
    structures, kept = [], []
    unmodelled = []
    for p in progs:
        try:
            env = make_env(p["templates"])
            ex = Extractor(env, p["templates"], data())
            st = ex.program("main")
        except Unmodelled as e:
            unmodelled.append({"program": p["name"], "main": p["templates"]["main"], "why": str(e), "_prog": p})
            continue
        structures.append(st)
        kept.append(p)
    return kept, structures, unmodelled


def validate_traces(ck, d, structures, traces, workers, name):
    """code->spec: TLC accepts or rejects every recorded run."""
    if not traces:
        return set()
    tf = d / f"{name}.json"
    tf.write_text(json.dumps(traces))
    r = core.run_tlc(PID, "AsyncGenTrace", CFG_TRACE, workers=workers,
                     env={"PROG_FILE": str(d / "progs.json"), "TRACE_FILE": str(tf)}, name=f"{name}_tlc", timeout=3000)
    return r


def run(ck):
    quick = ck.tier == "quick"
    # known findings shipped with this check (merged into known_findings.json by the maintainer)
    fd = core.VERIF / "findings.d" / "C36.json"
    if fd.exists():
        have = {k["id"] for k in core.load_known()}
        ck._known += [k for k in json.loads(fd.read_text())
                      if k["property"] == PID and k.get("status") == "open" and k["id"] not in have]

    progs = corpus(ck.tier, ck.seed)
    progs, structures, unmodelled = extract_all(ck, progs)
    unmodelled_progs = [u.pop("_prog") for u in unmodelled]
    if unmodelled:
        ck.extra.setdefault("drift", []).append({"unmodelled_generated_code": unmodelled[:10], "count": len(unmodelled)})
        print(f"SPEC-DRIFT: {len(unmodelled)} template set(s) compile to code the projection does not cover "
              f"(first: {unmodelled[0]['why']})")
    if len(progs) < 20:
        raise core.MachineryError(f"only {len(progs)} template sets could be projected: {unmodelled[:3]}")
    d = core.workdir(PID, "data")
    (d / "progs.json").write_text(json.dumps(structures))
    env = {"PROG_FILE": str(d / "progs.json")}
    fuel = 2 if quick else 3

    pool = ThreadPoolExecutor(12)
    # TLC run A: the structures as extracted, C36_AllClosedAtTaskEnd as an invariant.  (If it is violated TLC
    # stops at the first counterexample; the per-structure leak report is then produced by a second pass.)
    fa = pool.submit(core.run_tlc, PID, "AsyncGen", cfg_mc(fuel, False, ["C36_AllClosedAtTaskEnd"]), workers=8, env=env,
                     name="asis", timeout=3000)
    # TLC run B: idealised design (abandoned loops close their generator): the invariant holds for every structure
    fb = pool.submit(core.run_tlc, PID, "AsyncGen", cfg_mc(fuel, True, ["C36_AllClosedAtTaskEnd"]), workers=6, env=env,
                     name="ideal", coverage=quick, timeout=3000)

    # real executions (while TLC runs)
    stats = {"leaks": 0, "unpredicted": 0, "unpredicted_examples": [], "warnings": 0, "out_of_scope_unclosed": set()}
    runs_by_prog = []
    nruns = 0
    for p in progs:
        rs = all_runs(p, 30 if quick else 60)
        runs_by_prog.append(rs)
        nruns += len(rs)
        for r in rs:
            if r.mode == "render" and not r.plan and r.how != "complete":
                raise core.MachineryError(f"corpus template does not render: {p['templates']['main']!r}: "
                                          f"{getattr(r, 'error', r.how)}")

    # trace selection (code->spec validation starts while the model checking runs)
    rnd = random.Random(ck.seed + 36)
    traces, tindex = [], []
    for pi, (p, rs) in enumerate(zip(progs, runs_by_prog), 1):
        picked = list(rs)
        if quick:
            # all complete runs, plus a sample of the disturbed ones (every run is judged below)
            base = [r for r in picked if r.how == "complete"]
            rest = [r for r in picked if r.how != "complete"]
            rnd.shuffle(rest)
            picked = base + rest[:2]
        elif len(picked) > 26:
            base = [r for r in picked if r.how == "complete"]
            rest = [r for r in picked if r.how != "complete"]
            rnd.shuffle(rest)
            picked = base + rest[:24]
        for r in picked:
            traces.append({"pid": pi, "mode": r.mode, "ev": r.events})
            tindex.append((pi, r))
    nb = 2 if quick else 8
    batches = [traces[i::nb] for i in range(nb)]
    idx = [tindex[i::nb] for i in range(nb)]
    futs = [pool.submit(validate_traces, ck, d, structures, b, 5 if quick else 2, f"tr{i}") for i, b in enumerate(batches)]

    ra = fa.result()
    predicted = {}
    if ra.ok:
        ck.add_tlc(ra, f"AsyncGen as extracted, all {len(progs)} structures: C36_AllClosedAtTaskEnd")
        safe = list(range(1, len(progs) + 1))
        fc = None
    else:
        # some structure can leave a generator open: collect TLC's verdict per structure (leak report) ...
        ck.add_tlc(ra, "AsyncGen as extracted: C36_AllClosedAtTaskEnd", expect_ok=False)
        rr = core.run_tlc(PID, "AsyncGen", cfg_mc(fuel, False, []), workers=8, env=env, name="report", timeout=3000)
        ck.add_tlc(rr, "AsyncGen as extracted (leak report)")
        for line in sorted(set(rr.printed())):
            if not line.startswith("{"):
                continue
            b = json.loads(line)
            for short in b["leaked"]:
                predicted.setdefault(b["pid"], set()).add((b["mode"], b["how"], short))
        if not predicted:
            ck.add_tlc(ra, "AsyncGen as extracted: invariants")  # another invariant failed: report it as such
        # the spec's verdict per structure is itself a finding about the generated code
        for pid, leaks in sorted(predicted.items()):
            p = progs[pid - 1]
            for mode, how, short in sorted(leaks):
                ck.violation(
                    {"kind": "structure", "templates": p["templates"], "mode": mode, "how": how, "leaked": short,
                     "sites": [s for s in site_table(structures[pid - 1]) if not s["guarded"]]},
                    f"TLC: C36_AllClosedAtTaskEnd is violated for the structure extracted from the generated code of "
                    f"{p['templates']['main']!r}: {short} can be left open ({mode}, {how})",
                    {"kind": "unclosed-generator", "site": site_kind(short), "how": how},
                )
        # ... and check the invariant proper on every structure without a reported leak
        safe = [i for i in range(1, len(progs) + 1) if i not in predicted]
        (d / "progs_safe.json").write_text(json.dumps([structures[i - 1] for i in safe]))
        fc = pool.submit(core.run_tlc, PID, "AsyncGen", cfg_mc(fuel, False, ["C36_AllClosedAtTaskEnd"]), workers=8,
                         env={"PROG_FILE": str(d / "progs_safe.json")}, name="safe", timeout=3000)

    # property-level verdict on the real runs
    observed = {}
    for pi, (p, rs) in enumerate(zip(progs, runs_by_prog), 1):
        pred = predicted.get(pi, set())
        for r in rs:
            leaked = judge_run(ck, p, r, pred, stats)
            for s_ in leaked:
                observed.setdefault(pi, set()).add((r.mode, r.how, s_[0]))
    # template sets whose generated code could not be projected are still executed and judged
    for p in unmodelled_progs:
        for r in all_runs(p, 30 if quick else 60):
            nruns += 1
            judge_run(ck, p, r, set(), stats)
    ck.traces += nruns
    ck.evaluations += nruns

    rb = fb.result()
    ck.add_tlc(rb, "AsyncGen idealised design: C36_AllClosedAtTaskEnd")
    if quick:
        ck.require_coverage(rb, ACTIONS)  # vacuity guard (same actions as run A; coverage slows TLC, so off the critical path)
    if fc is not None:
        rc = fc.result()
        ck.add_tlc(rc, f"AsyncGen as extracted, {len(safe)} structures without reported leak: C36_AllClosedAtTaskEnd")

    # code->spec
    rejected = []
    for i, fu in enumerate(futs):
        r = fu.result()
        if not batches[i]:
            continue
        ck.add_tlc(r, f"AsyncGenTrace batch {i}")
        acc = {int(x[4:]) for x in r.printed() if x.startswith("ACC ")}
        for j in range(1, len(batches[i]) + 1):
            if j not in acc:
                rejected.append(idx[i][j - 1])
    pool.shutdown()
    ck.extra["traces_validated_by_tlc"] = len(traces)
    ck.extra["traces_rejected"] = len(rejected)
    for pi, r in rejected[:10]:
        p = progs[pi - 1]
        leaked = [s for s in r.final if s[1] != "closed"]
        # a run that is not a behaviour of the spec: the engine's generator life cycle differs from the
        # projected structure.  That alone is drift (the property-level verdict was given above).
        ck.extra.setdefault("drift", []).append(
            {"rejected_trace": {"main": p["templates"]["main"], "mode": r.mode, "plan": r.plan,
                                "stop_after": r.stop_after, "events": r.events[-3:]}})
    if rejected:
        print(f"SPEC-DRIFT: {len(rejected)} recorded run(s) are not behaviours of AsyncGen.tla for the extracted "
              f"structure (first: {progs[rejected[0][0] - 1]['templates']['main']!r} {rejected[0][1].mode} "
              f"plan={rejected[0][1].plan} stop={rejected[0][1].stop_after})")
    # spec said "can leak" but no real run did: report (data nondeterminism in the spec is wider than the data used)
    never = []
    for pi, leaks in predicted.items():
        got = {(m, h, s) for (m, h, s) in observed.get(pi, set())}
        miss = {(h, site_kind(s)) for (m, h, s) in leaks} - {(h, site_kind(s)) for (m, h, s) in got}
        if miss:
            never.append({"main": progs[pi - 1]["templates"]["main"], "predicted_not_observed": sorted(miss)})
    ck.extra["predicted_leaks_not_observed"] = never[:10]
    ck.extra["programs"] = len(progs)
    ck.extra["real_runs"] = nruns
    ck.extra["real_leaks"] = stats["leaks"]
    ck.extra["real_leaks_not_predicted_by_spec"] = stats["unpredicted"]
    ck.extra["real_leaks_not_predicted_examples"] = stats["unpredicted_examples"]
    ck.extra["structures_with_predicted_leak"] = len(predicted)
    ck.extra["structures_proved_closed"] = len(safe)
    ck.extra["out_of_scope_unclosed_generators"] = sorted(stats["out_of_scope_unclosed"])
    ck.extra["excluded_shapes"] = [
        "async generators created by filters (jinja2.filters: map/select/reject/selectattr/rejectattr) and by user "
        "data are not 'generators created for the template' - tracked and reported, not judged",
        "loop.length/revindex/revindex0/last/nextitem on a filtered loop (peeks into the filter generator)",
        "conditional / dynamic extends and include targets chosen at run time (structure not static)",
        "consumers that drop generate_async without aclose()",
    ]
    sites = {}
    for st in structures:
        for s in site_table(st):
            k = (site_kind(st["funcs"][s["fn"]]["short"]) if s["fn"] in st["funcs"] else "?", s["guarded"])
            sites[k] = sites.get(k, 0) + 1
    ck.extra["open_sites"] = [{"site": k[0], "guarded": k[1], "count": v} for k, v in sorted(sites.items())]
    ck.sample({"main": progs[2]["templates"]["main"], "runs": len(runs_by_prog[2]),
               "spec_predicted_leaks": sorted(predicted.get(3, []))})
    ck.exhaustive = True
    ck.extra["exhaustive_note"] = ("per template set: every k (chunks) and every j (await points) executed on the real "
                                   "engine; TLC explores every consumer/data behaviour of each extracted structure up "
                                   f"to Fuel={fuel} loop iterations; a sample of the runs (quick: 4 per template set, thorough: up to 26) "
                                   "is validated as traces by TLC")
    ck.assumptions += [
        "the hand driver (coroutine.send/throw) is what an event loop does to one task: cancellation = throw "
        "CancelledError at the current await",
        "the projection of generated code onto AsyncGen.tla's statements (jv.asyncgen_util.Extractor) is faithful; "
        "trace validation of the real runs against the same structures checks it",
    ]


def replay(ck, rec):
    c = rec["case"]
    fd = core.VERIF / "findings.d" / "C36.json"
    if fd.exists():
        have = {k["id"] for k in core.load_known()}
        ck._known += [k for k in json.loads(fd.read_text()) if k.get("status") == "open" and k["id"] not in have]
    prog = {"templates": c["templates"]}
    env = make_env(prog["templates"])
    if c["kind"] == "structure":
        # re-extract and let TLC decide again
        ex = Extractor(env, prog["templates"], data())
        st = ex.program("main")
        d = core.workdir(PID, "replay")
        (d / "progs.json").write_text(json.dumps([st]))
        r = core.run_tlc(PID, "AsyncGen", cfg_mc(3, False, []), env={"PROG_FILE": str(d / "progs.json")}, name="replay_tlc")
        for line in set(r.printed()):
            if line.startswith("{"):
                b = json.loads(line)
                if c["leaked"] in b["leaked"] and b["how"] == c["how"]:
                    ck.violation(c, f"TLC still finds {c['leaked']} left open ({b['mode']}, {b['how']})", rec.get("fingerprint"))
                    return
        return
    plan = {int(k): v for k, v in c.get("plan", {}).items()}
    r = run_one(env, prog, c["mode"], plan, c.get("stop_after"))
    leaked = [s for s in r.final if s[1] != "closed"]
    print("final generator states:", r.final, "warnings:", r.warnings)
    if "warning" in c:
        if r.warnings:
            ck.violation(c, f"still warns: {r.warnings}", rec.get("fingerprint"))
        return
    for short, st in leaked:
        if short == c["leaked"]:
            ck.violation(c, f"{short} still {st} at task end", rec.get("fingerprint"))
