"""C12 - whitespace control follows the documented trimming rules.

Specs: spec/Text.tla, spec/LexerRules.tla (declarative: the documented rules per
tag occurrence), spec/Lexer.tla (operational: shaped like Lexer.tokeniter).
TLC checks on every bounded source that the operational machine produces
exactly what the declared rules say (C12_OperationalEqualsDeclared,
C12_OnlyWhitespaceRemoved, C12_VariableTagsUntouchedByOptions, ...) and prints,
per source and configuration, the expected rendered text and token stream.
spec->code: every printed case is concretised (block tag = {%set(v)=1%},
variable tag = {{'V'}}, ...) and rendered / lexed by the real jinja2.
"""
from __future__ import annotations

import random
import time

from .. import core
from .. import lexer_util as lu


def four_cfgs(family="default", keep=False, nl="n"):
    return [lu.make_cfg(family, trim=t, lstrip=l, keep=keep, nl=nl) for t in (False, True) for l in (False, True)]


def check_records(ck, recs, cfg_by_name, *, render=True, tokens=True, kind="c12"):
    """Replay every finished spec case on the real engine and compare."""
    items = []
    meta = {}
    for i, rec in enumerate(recs):
        cfg = cfg_by_name[rec["cfg"]]
        cmap = lu.VARIANTS[lu.variant_of(rec["raw"])]
        source = lu.concretise(rec["raw"], cmap)
        want_render = render and rec["out"] != "?" and rec["oc"][0] == "eof"
        items.append((i, tuple(sorted(lu.env_options(cfg).items(), key=lambda kv: kv[0])), source, want_render))
        meta[i] = (rec, cfg, cmap, source, want_render)
    t0 = time.time()
    real = lu.real_run(items)
    ck.extra["real_engine_s"] = round(ck.extra.get("real_engine_s", 0) + time.time() - t0, 2)
    n_bad = 0
    for i, (rec, cfg, cmap, source, want_render) in meta.items():
        toks, err, rendered = real[i]
        case = {"kind": kind, "cfg": cfg, "raw": rec["raw"], "source": source,
                "variant": lu.variant_of(rec["raw"])}
        if want_render:
            expected = lu.concretise(rec["out"], cmap)
            if rendered != expected:
                n_bad += 1
                ck.violation(dict(case, expected=expected, actual=rendered, observable="render"),
                             f"{cfg['name']}: {source!r} renders {rendered!r}, the documented rules give {expected!r}",
                             {"kind": "render", "cfg": cfg["name"], "raw": rec["raw"]})
                continue
        if tokens:
            bad = lu.compare_tokens(rec, real[i], cmap)
            if bad:
                n_bad += 1
                ck.violation(dict(case, observable="lex", expected=bad[2]["exp"], actual=bad[2]["got"], real_error=err),
                             f"{cfg['name']}: Environment.lex({source!r}): {bad[1]}",
                             {"kind": bad[0], "cfg": cfg["name"], "raw": rec["raw"]})
                continue
            drift = lu.error_lineno_drift(rec, real[i])
            if drift:
                ck.extra.setdefault("drift", [])
                if len(ck.extra["drift"]) < 10:
                    ck.extra["drift"].append(dict(drift, source=source))
        if i % 997 == 0:
            ck.sample({"cfg": cfg["name"], "source": source, "rendered": rendered, "tokens": len(toks)})
    ck.traces += len(recs)
    ck.evaluations += len(recs)
    return n_bad


# --------------------------------------------------------------------------
# hand-over chains (syntax only): neighbouring tags separated by nothing or by a short, mostly
# blank text.  Every rule match of the tokenizer hands two facts to the next one - where it
# stopped and whether that is the start of a line - and lstrip_blocks / '-' at the next tag
# depend on them.  A raw block is the case where two different rules meet ({% raw %} is matched
# by the root rule, {% endraw %} by the raw-state rule), so it is drawn twice as often.
# --------------------------------------------------------------------------
LEAD = ["", "", "n", "an", "n_", "ant", "a", "a_", "nn", "_"]
GAP = ["_", "__", "t", "_t", "w", "n", "n_", "_n", "", "a", "a_", "_a", "n_a_"]
TAIL = ["", "n", "a", "na", "_n"]
CHAIN_BODIES = {"block": ["_B_", "B", "_nB_"], "var": ["_V_", "V"], "comment": ["_a_", "a", "_an_"],
                "rawopen": ["_R_", "R", "nR_"], "rawclose": ["_E_", "E", "_En"]}


def gen_handover(rng, cfg):
    ps = []
    lead = rng.choice(LEAD)
    if lead:
        ps.append(lu.text(lead))
    n_tags = rng.randint(2, 3)
    in_raw = False
    k = 0
    while k < n_tags or in_raw:
        kind = "rawclose" if in_raw else rng.choice(["block", "comment", "var", "rawopen", "rawopen"])
        l = rng.choice(lu.SIGNS)
        r = rng.choice(lu.SIGNS if kind in ("block", "comment", "rawclose") else ("", "-"))
        ps.append(lu.P(kind, l, r, rng.choice(CHAIN_BODIES[kind])))
        in_raw = kind == "rawopen"
        k += 1
        if k < n_tags or in_raw:
            gap = rng.choice(GAP)
            if gap:
                ps.append(lu.text(gap))
    tail = rng.choice(TAIL)
    if tail:
        ps.append(lu.text(tail))
    return ps


C12_INVARIANTS = [
    "InputsWellFormed", "C11_NormalizeAgrees", "C11_CommentsSilent", "C11_RawVerbatim",
    "C12_StructuredSourcesLex", "C12_OperationalEqualsDeclared", "C12_OnlyWhitespaceRemoved",
    "C12_VariableTagsUntouchedByOptions", "C39_LineAccurate", "C39_Lossless",
]


def run(ck):
    quick = ck.tier == "quick"
    rng = random.Random(ck.seed)
    cfgs = four_cfgs()
    by_name = {c["name"]: c for c in cfgs}

    # (1) exhaustive: TLC grows every sequence of <= k pieces over the full tag/modifier alphabet
    pieces = [lu.text("a"), lu.text("_"), lu.text("n")] + lu.tag_pieces()
    k = 2
    r, recs = lu.run_lexer("C12", "grow", grow=dict(pieces=pieces, cfgs=cfgs, max=k), invariants=C12_INVARIANTS,
                           coverage=quick, timeout=3000)
    ck.add_tlc(r, f"Lexer (grow, <= {k} of {len(pieces)} pieces x 4 trim/lstrip settings)")
    if quick:
        ck.require_coverage(r, ["Grow", "Start", "RootDirectiveStep", "RootDataStep", "CommentEndStep", "BlockEndStep", "VariableEndStep",
                                "TagWhitespaceStep", "TagAtomsStep", "RawEndStep", "EofStep"])
    if not recs:
        raise core.MachineryError("Lexer.tla printed no cases")
    check_records(ck, recs, by_name)
    ck.extra["exhaustive_cases"] = len(recs)
    if not quick:
        # every sequence of <= 3 pieces over text and block / comment / variable tags (a raw block
        # needs open + body + close, those are covered by <= 2 above and by the generated sources)
        p3 = [p for p in pieces if p["k"] not in ("rawopen", "rawclose")]
        r, recs = lu.run_lexer("C12", "grow3", grow=dict(pieces=p3, cfgs=cfgs, max=3), invariants=C12_INVARIANTS,
                               timeout=3000)
        ck.add_tlc(r, f"Lexer (grow, <= 3 of {len(p3)} pieces x 4 trim/lstrip settings)")
        check_records(ck, recs, by_name)
        ck.extra["exhaustive_cases_3"] = len(recs)

    # (2) random longer sources over the rich alphabet (tabs, other whitespace, \r\n, multi-line
    #     tags, comment / raw bodies with delimiter look-alikes), all four settings each
    n = 1000 if quick else 15000
    allcfgs = cfgs + four_cfgs(keep=True) + four_cfgs(nl="rn")
    by_name.update({c["name"]: c for c in allcfgs})
    cases = []
    for _ in range(n):
        ps = lu.gen_structured(rng, cfgs[0], rng.randint(3, 7))
        base = rng.choice([0, 0, 0, 4, 8])
        for j in range(4):
            cases.append({"ps": ps, "c": base + j, "st": True})
    # (3) hand-over chains: [text] tag (gap tag){1,2} [text] - what one tag's match leaves behind
    #     (consumed up to where? at the start of a line?) meets the left side of the next tag
    n_chain = 600 if quick else 8000
    for _ in range(n_chain):
        ps = gen_handover(rng, cfgs[0])
        base = rng.choice([0, 0, 0, 4, 8])
        for j in range(4):
            cases.append({"ps": ps, "c": base + j, "st": True})
    ck.extra["handover_chain_cases"] = n_chain * 4
    total = 0
    for part in core.chunks(cases, 48000):
        r, recs = lu.run_lexer("C12", "batch", cases=part, cfgs=allcfgs, invariants=C12_INVARIANTS, timeout=3000)
        ck.add_tlc(r, f"Lexer (batch of {len(part)} generated cases)")
        if len(recs) != len(part):
            raise core.MachineryError(f"TLC finished {len(recs)} of {len(part)} cases")
        check_records(ck, recs, by_name)
        total += len(recs)
    ck.extra["random_cases"] = total
    ck.exhaustive = False
    ck.extra["excluded_shapes"] = [
        "'+' on the right of a variable tag or of {% raw %} (syntax error)",
        "tag / comment bodies that begin or end with '-' or '+' (would be read as a modifier)",
        "comment bodies containing the comment end delimiter",
    ]
    ck.assumptions += [
        "tags are concretised as {%set(v)=1%} / {{'V'}} / {# a #} / raw blocks so that every piece sequence is a valid program",
        "abstract character classes are concretised to 4 fixed variants (other-whitespace = \\x0c, \\x85, U+2028, \\x1c)",
    ]


def replay(ck, rec):
    c = rec["case"]
    cfg = c["cfg"]
    res = lu.real_run([(0, tuple(sorted(lu.env_options(cfg).items())), c["source"], c.get("observable") == "render")])[0]
    toks, err, rendered = res
    if c.get("observable") == "render":
        if rendered != c["expected"]:
            ck.violation(c, f"still renders {rendered!r}, expected {c['expected']!r}", rec.get("fingerprint"))
    else:
        got, _ = lu.real_tokens(toks)
        if [list(x) for x in got] != [list(x) for x in c["expected"]]:
            ck.violation(c, f"token stream still differs: {got!r}", rec.get("fingerprint"))
