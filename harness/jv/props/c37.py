"""C37 - concurrent async renders do not interfere.

Spec: spec/AsyncConc.tla.  N tasks render on one environment; one TLA+ step =
one scheduler step (run a task up to its next await).  Per-render state
(counter, loop stack, autoescape stack, bound module, call stack, output) is
local in the abstract layer; the shared state is what the engine really shares:
the environment's template LRU cache, Template._module with the
check-await-set window of _get_default_module_async, and a mutable object all
renders reach from which per-render copies are built (op Copy).  TLC checks
C37_OutputsAsIfAlone (+ cache invariants) on every interleaving, refutes three
mutant designs (self-test), and prints, for every complete schedule, the outputs
it expects.

spec->code: every schedule TLC enumerates is replayed on the real engine: the
scenario's abstract programs are unparsed to Jinja templates (several concrete
renderings of the abstract counter: namespace / cycler / top-level set), the
tasks are real `render_async` coroutines driven by a deterministic scheduler
(hand driver; a sample also as real asyncio Tasks blocked on Futures) that
resumes the task the schedule names; each task's output must equal the output
TLC printed and the output of the same task rendered alone.
"""
from __future__ import annotations

import asyncio
import json
import random
from concurrent.futures import ThreadPoolExecutor

from .. import core

PID = "C37"


# ---------------------------------------------------------------------------
# abstract programs -> Jinja source
# ---------------------------------------------------------------------------

def T(s):
    return {"op": "T", "s": s}


G = {"op": "G"}
ME = {"op": "Me"}
RESET, INC, SHOW = {"op": "Reset"}, {"op": "Inc"}, {"op": "Show"}
COPY = {"op": "Copy"}   # the counter object is built from the mutable object all renders share (spec: sh.glob)
ESC, AUTOEND = {"op": "Esc"}, {"op": "AutoEnd"}
IDX, LOOPEND = {"op": "Idx"}, {"op": "LoopEnd"}
CALL = {"op": "Call"}
STR = {"op": "Str"}
CALLG = {"op": "CallG"}


def AUTO(b):
    return {"op": "AutoSet", "b": b}


def LOOP(n):
    return {"op": "LoopBegin", "n": n}


def IMP(m, ctx=False):
    return {"op": "Imp", "m": m, "ctx": ctx}


def INCN(m):
    return {"op": "IncN", "m": m}


def INCL(t):
    return {"op": "Inc_", "t": t}


COUNTER = {
    "ns": {"Reset": "{% set ns = namespace(c=0) %}", "Inc": "{% set ns.c = ns.c + 1 %}", "Show": "{{ ns.c }}"},
    "cycler": {"Reset": "{% set cy = cycler(0, 1, 2, 3, 4, 5, 6, 7, 8, 9) %}", "Inc": "{% set _d = cy.next() %}",
               "Show": "{{ cy.current }}"},
    "plain": {"Reset": "{% set c = 0 %}", "Inc": "{% set c = c + 1 %}", "Show": "{{ c }}"},
    # objects the runtime builds from a mutable object shared by all renders (gd: a dict {"c": g0}, gl: a list of
    # g0 items; environment globals or the same objects passed to every render): Copy builds the render's own object
    "nsg": {"Reset": "{% set ns = namespace(c=0) %}", "Copy": "{% set ns = namespace(gd) %}",
            "Inc": "{% set ns.c = ns.c + 1 %}", "Show": "{{ ns.c }}"},
    "nsg2": {"Reset": "{% set ns = namespace() %}{% set ns.c = 0 %}", "Copy": "{% set ns = namespace(gd, z=1) %}",
             "Inc": "{% set ns.c = ns.c + 1 %}", "Show": "{{ ns.c }}"},
    "dictg": {"Reset": "{% set d = dict(c=0) %}", "Copy": "{% set d = dict(gd) %}",
              "Inc": "{% set _d = d.update(c=d.c + 1) %}", "Show": "{{ d.c }}"},
    "listg": {"Reset": "{% set l = [] %}", "Copy": "{% set l = gl|list %}",
              "Inc": "{% set _d = l.append(0) %}", "Show": "{{ l|length }}"},
    # inside a shared (included) template: whatever form the including task uses
    "any": {"Show": "{{ ns.c if ns is defined else (cy.current if cy is defined else "
                    "(d.c if d is defined else (l|length if l is defined else c))) }}"},
}
GVARIANTS = ("nsg", "nsg2", "dictg", "listg")


def unparse(ops, variant):
    out = []
    for o in ops:
        k = o["op"]
        if k == "T":
            out.append(o["s"])
        elif k == "G":
            out.append("{{ gate() }}")
        elif k == "Me":
            out.append("{{ me }}")
        elif k in ("Reset", "Inc", "Show", "Copy"):
            out.append(COUNTER[variant][k])
        elif k == "AutoSet":
            out.append("{% autoescape " + ("on" if o["b"] else "off") + " %}")
        elif k == "AutoEnd":
            out.append("{% endautoescape %}")
        elif k == "Esc":
            out.append("{{ lt }}")
        elif k == "LoopBegin":
            out.append("{% for i in range(" + str(o["n"]) + ") %}")
        elif k == "LoopEnd":
            out.append("{% endfor %}")
        elif k == "Idx":
            out.append("{{ loop.index }}")
        elif k == "Imp":
            out.append('{% import "' + o["m"] + '" as m' + (" with context" if o["ctx"] else "") + " %}")
        elif k == "Call":
            out.append("{{ m.mac() }}")
        elif k == "CallG":
            out.append("{{ m.gmac() }}")
        elif k == "Str":
            out.append("{{ m }}")
        elif k == "IncN":
            out.append('{% include "' + o["m"] + '" without context %}')
        elif k == "Inc_":
            out.append('{% include "' + o["t"] + '" %}')
        else:
            raise core.MachineryError(f"unknown op {k}")
    return "".join(out)


def macs(sc):
    """Body of the awaiting macro `gmac` of every module: markup, an await, the module's name."""
    return {name: [T("<b>"), G, T(name), T("</b>")] for name in sc["mods"]}


def sources(sc):
    """All template sources of a scenario: shared ones by name, and one main per task."""
    shared = {}
    for name, body in sc["mods"].items():
        shared[name] = (unparse(body, "ns") + "{% macro mac() %}[" + name + "{{ tg }}{{ me }}]{% endmacro %}"
                        + "{% macro gmac() %}" + unparse(macs(sc)[name], "ns") + "{% endmacro %}")
    for name, body in sc["tmpls"].items():
        shared[name] = unparse(body, "any")
    shared["base"] = "{% block body %}{% endblock %}"
    mains = []
    for t in sc["tasks"]:
        src = unparse(t["prog"], t["variant"])
        if t.get("wrap"):
            src = '{% extends "base" %}{% block body %}' + src + "{% endblock %}"
        mains.append(src)
    return shared, mains


# ---------------------------------------------------------------------------
# scenarios
# ---------------------------------------------------------------------------

def task(me, prog, tg="", variant="ns", wrap=False, html=False):
    """html: the task's own template autoescapes (its name ends in .html, select_autoescape)."""
    return {"me": me, "tg": tg, "prog": prog, "variant": variant, "wrap": wrap, "html": html}


def core_scenarios():
    M1 = {"M": [T("p"), G, T("q")]}
    M2 = {"M": [T("p"), G, T("q"), G, T("r")], "N": [G, T("n")]}
    S = []
    # the check-await-set window of the module cache
    S.append({"cap": 50, "mods": M1, "tmpls": {}, "tasks": [task("A", [IMP("M"), CALL, T("a")]),
                                                               task("B", [IMP("M"), CALL, T("b")])]})
    M3 = {"M": [T("p"), G, T("q")], "N": [G, T("n")]}
    S.append({"cap": 50, "mods": M3, "tmpls": {}, "tasks": [task("A", [T("x"), IMP("M"), CALL]),
                                                               task("B", [IMP("M"), CALL, G, CALL]),
                                                               task("C", [IMP("M"), CALL])]})
    S.append({"cap": 50, "mods": M2, "tmpls": {}, "tasks": [task("A", [IMP("M"), STR, CALL]),
                                                               task("B", [T("b"), INCN("M"), G, INCN("N")])]})
    S.append({"cap": 1, "mods": M3, "tmpls": {}, "tasks": [task("A", [INCN("M"), INCN("N"), T("a")]),
                                                              task("B", [IMP("M", True), STR]),
                                                              task("C", [INCN("N"), IMP("M"), STR], tg="X")]})
    # private modules: template globals / with context
    S.append({"cap": 50, "mods": M1, "tmpls": {}, "tasks": [task("A", [IMP("M"), G, CALL], tg="X"),
                                                               task("B", [IMP("M"), G, CALL])]})
    S.append({"cap": 50, "mods": M1, "tmpls": {}, "tasks": [task("A", [IMP("M", True), G, CALL]),
                                                               task("B", [IMP("M"), G, CALL, ME])]})
    S.append({"cap": 50, "mods": M1, "tmpls": {}, "tasks": [task("A", [IMP("M"), CALL], tg="X"),
                                                               task("B", [IMP("M"), CALL], tg="Y"),
                                                               task("C", [IMP("M"), CALL])]})
    # counters in three concrete forms
    for v in ("ns", "cycler", "plain"):
        S.append({"cap": 50, "mods": {}, "tmpls": {}, "tasks": [
            task("A", [RESET, INC, G, SHOW, INC, G, SHOW], variant=v),
            task("B", [RESET, G, SHOW, INC, INC, INC, G, SHOW], variant=v, wrap=(v != "plain"))]})
    # objects built from a mutable object all renders share (environment global / the same render argument)
    for k, v in enumerate(GVARIANTS):
        P = [COPY, INC, G, SHOW, ME]
        S.append({"cap": 50, "mods": {}, "tmpls": {}, "g0": k % 3, "gsrc": ("env", "data")[k % 2],
                  "tasks": [task("A", P, variant=v), task("B", P, variant=v)]})
        S.append({"cap": 50, "mods": {}, "tmpls": {"I": [SHOW, G, ME]}, "g0": (k + 1) % 3, "gsrc": ("data", "env")[k % 2],
                  "tasks": [task("A", [COPY, G, INC, INC, G, SHOW, RESET, SHOW], variant=v, wrap=(k % 2 == 0)),
                            task("B", [RESET, INC, SHOW, COPY, INCL("I"), INC, SHOW], variant=GVARIANTS[(k + 1) % 4])]})
    # loop state
    S.append({"cap": 50, "mods": {}, "tmpls": {}, "tasks": [task("A", [LOOP(3), G, IDX, LOOPEND, T("a")]),
                                                              task("B", [LOOP(2), IDX, G, LOOPEND], wrap=True)]})
    S.append({"cap": 50, "mods": {}, "tmpls": {}, "tasks": [
        task("A", [RESET, LOOP(2), INC, LOOP(2), G, IDX, SHOW, LOOPEND, LOOPEND]),
        task("B", [RESET, LOOP(3), IDX, G, INC, LOOPEND, SHOW], variant="cycler")]})
    # evaluation context
    S.append({"cap": 50, "mods": {}, "tmpls": {}, "tasks": [task("A", [AUTO(True), G, ESC, AUTOEND, ESC]),
                                                              task("B", [AUTO(False), G, ESC, AUTOEND, G, ESC])]})
    S.append({"cap": 50, "mods": {}, "tmpls": {}, "tasks": [
        task("A", [AUTO(True), ESC, G, AUTO(False), ESC, G, AUTOEND, ESC, AUTOEND]),
        task("B", [ESC, G, AUTO(True), G, ESC, AUTOEND], wrap=True)]})
    # the same template object rendered by two / three tasks with different variables
    P = [ME, AUTO(True), G, ESC, AUTOEND, ESC, G, ME]
    S.append({"cap": 50, "mods": {}, "tmpls": {}, "tasks": [task("A", P), task("B", P)]})
    P = [RESET, LOOP(2), INC, G, IDX, SHOW, ME, LOOPEND]
    for v in ("ns", "cycler"):
        S.append({"cap": 50, "mods": {}, "tmpls": {}, "tasks": [task("A", P, variant=v, wrap=True),
                                                                  task("B", P, variant=v, wrap=True),
                                                                  task("C", P, variant=v, wrap=True)][:2 if v == "ns" else 3]})
    P = [IMP("M"), CALL, ME, G, STR]
    S.append({"cap": 50, "mods": M1, "tmpls": {}, "tasks": [task("A", P), task("B", P), task("C", P, tg="X")]})
    # a shared imported macro whose body awaits, called by tasks with different autoescape modes
    S.append({"cap": 50, "mods": {"M": []}, "tmpls": {}, "tasks": [
        task("A", [IMP("M"), CALLG, ESC], html=True), task("B", [IMP("M"), CALLG, ESC])]})
    S.append({"cap": 50, "mods": {"M": []}, "tmpls": {}, "tasks": [
        task("A", [IMP("M"), AUTO(True), CALLG, AUTOEND, CALLG]), task("B", [IMP("M"), T("b"), CALLG, ME]),
        task("C", [IMP("M"), CALLG], html=True)]})
    S.append({"cap": 50, "mods": M1, "tmpls": {}, "tasks": [
        task("A", [IMP("M"), CALLG, CALL], html=True, wrap=True), task("B", [IMP("M"), AUTO(False), CALLG, ESC, AUTOEND],
                                                                         html=True)]})
    P = [IMP("M"), ME, CALLG, ESC]
    S.append({"cap": 50, "mods": {"M": []}, "tmpls": {}, "tasks": [task("A", P, html=True), task("B", P, html=True),
                                                                    task("C", P)]})
    # a shared included template that switches autoescaping in its own evaluation context
    S.append({"cap": 50, "mods": {}, "tmpls": {"I": [AUTO(True), G, ESC, AUTOEND, ESC]}, "tasks": [
        task("A", [ESC, INCL("I"), ESC]), task("B", [AUTO(True), INCL("I"), G, ESC, AUTOEND])]})
    # includes of a shared template, small template caches
    for cap in (0, 1, 50):
        S.append({"cap": cap, "mods": {}, "tmpls": {"I": [SHOW, G, ME]}, "tasks": [
            task("A", [RESET, INC, INCL("I"), G, INCL("I")]),
            task("B", [RESET, INCL("I"), INC, INC, INCL("I")])]})
    # eviction between check and set of the module cache
    for cap in (0, 1):
        S.append({"cap": cap, "mods": M2, "tmpls": {}, "tasks": [task("A", [IMP("M"), CALL, IMP("N"), CALL]),
                                                                    task("B", [IMP("N"), CALL, IMP("M"), CALL])]})
    S.append({"cap": 1, "mods": M2, "tmpls": {"I": [ME, G]}, "tasks": [
        task("A", [IMP("N"), INCL("I"), CALL]), task("B", [INCL("I"), IMP("N"), CALL]), task("C", [IMP("N"), CALL])]})
    return S


def random_scenario(rnd):
    ntasks = rnd.choice([2, 2, 2, 3])
    maxg = 4 if ntasks == 2 else 2
    mods = {"M": rnd.choice([[G], [T("p"), G, T("q")], [T("p"), G, T("q"), G]]), "N": rnd.choice([[T("n")], [G, T("n")]])}
    tmpls = {"I": rnd.choice([[SHOW, G, ME], [ME, G], [T("i"), SHOW], [AUTO(True), G, ESC, AUTOEND], [ESC]])}
    tasks = []
    for ti in range(ntasks):
        variant = rnd.choice(["ns", "cycler", "plain"] + list(GVARIANTS))
        prog = [COPY if variant in GVARIANTS and rnd.random() < 0.7 else RESET]
        gates = [0]

        def gate():
            if gates[0] < maxg:
                gates[0] += 1
                prog.append(G)

        imported = False
        depth = 0
        autos = 0
        for _ in range(rnd.randint(3, 7)):
            k = rnd.choice(["T", "G", "G", "Me", "Inc", "Show", "Imp", "Call", "CallG", "CallG", "Str", "IncN", "Incl", "Loop",
                            "Auto", "Esc", "Copy"])
            if k == "T":
                prog.append(T(rnd.choice("xyz")))
            elif k == "G":
                gate()
            elif k == "Me":
                prog.append(ME)
            elif k == "Inc":
                if not (variant == "plain" and depth):
                    prog.append(INC)
            elif k == "Show":
                prog.append(SHOW)
            elif k == "Copy":
                if variant in GVARIANTS:
                    prog += [COPY if rnd.random() < 0.7 else RESET, INC]
            elif k == "Imp" and depth == 0:
                prog.append(IMP(rnd.choice(["M", "N"]), rnd.random() < 0.25))
                imported = True
            elif k == "Call" and imported:
                prog.append(CALL)
            elif k == "CallG" and imported and gates[0] < maxg:
                gates[0] += 1
                prog.append(CALLG)
            elif k == "Str" and imported:
                prog.append(STR)
            elif k == "IncN" and depth == 0:
                prog.append(INCN(rnd.choice(["M", "N"])))
            elif k == "Incl":
                # an include inside a module-gated budget: the included template has at most one gate
                if gates[0] < maxg or G not in tmpls["I"]:
                    prog.append(INCL("I"))
                    gates[0] += tmpls["I"].count(G)
            elif k == "Loop" and depth == 0 and gates[0] + 2 <= maxg:
                n = rnd.choice([2, 2, 3])
                body = rnd.choice([[G, IDX], [IDX, G], [IDX, SHOW]])
                if variant != "plain":
                    body = body + rnd.choice([[], [INC]])
                if body.count(G) * n + gates[0] <= maxg:
                    gates[0] += body.count(G) * n
                    prog += [LOOP(n)] + body + [LOOPEND]
            elif k == "Auto" and autos == 0:
                b = rnd.random() < 0.6
                prog.append(AUTO(b))
                if imported and gates[0] < maxg and rnd.random() < 0.5:
                    gates[0] += 1
                    prog.append(CALLG)
                else:
                    gate()
                prog.append(ESC)
                if rnd.random() < 0.5:
                    gate()
                    prog.append(ESC)
                prog.append(AUTOEND)
            elif k == "Esc":
                prog.append(ESC)
        tasks.append(task("ABC"[ti], prog, tg=rnd.choice(["", "", "", "X", "Y"]), variant=variant,
                          wrap=(variant != "plain" and rnd.random() < 0.3), html=rnd.random() < 0.4))
    if rnd.random() < 0.3:  # two tasks render the same template object
        tasks[1] = dict(tasks[0], me="B")
    return {"cap": rnd.choice([0, 1, 1, 50]), "mods": mods, "tmpls": tmpls, "tasks": tasks,
            "g0": rnd.choice([0, 1, 2]), "gsrc": rnd.choice(["env", "data"])}


def steps_bound(sc, t):
    """Upper bound on the scheduler steps of one task (every module body rendered, nothing cached)."""
    n, mult = 1, 1
    for o in t["prog"]:
        k = o["op"]
        if k == "LoopBegin":
            mult = o["n"]
        elif k == "LoopEnd":
            mult = 1
        elif k == "G":
            n += mult
        elif k in ("Imp", "IncN"):
            n += mult * sc["mods"][o["m"]].count(G)
        elif k == "CallG":
            n += mult
        elif k == "Inc_":
            n += mult * sc["tmpls"][o["t"]].count(G)
    return n


def small_enough(sc):
    b = [steps_bound(sc, t) for t in sc["tasks"]]
    return max(b) <= (5 if len(b) == 2 else 3)


def max_objects(sc):
    """Upper bound on template objects one behaviour can create (every get may miss)."""
    n = 0
    for t in sc["tasks"]:
        mult = 1
        n += 1 if t.get("wrap") else 0
        for o in t["prog"]:
            if o["op"] == "LoopBegin":
                mult = o["n"]
            elif o["op"] == "LoopEnd":
                mult = 1
            elif o["op"] in ("Imp", "Inc_", "IncN"):
                n += mult
    return n + 1


def spec_view(sc):
    """What TLC sees of a scenario (the concrete rendering variants are the harness' business)."""
    return {"cap": sc["cap"], "mods": sc["mods"], "tmpls": sc["tmpls"], "macs": macs(sc), "g0": sc.get("g0", 0),
            "tasks": [{"me": t["me"], "tg": t["tg"], "html": bool(t.get("html")),
                       "prog": ([{"op": "Get", "t": "base"}] if t.get("wrap") else []) + t["prog"]}
                      for t in sc["tasks"]]}


# ---------------------------------------------------------------------------
# the real engine under a deterministic scheduler
# ---------------------------------------------------------------------------

class _Gate:
    def __await__(self):
        yield "gate"
        return ""


async def gate():
    await _Gate()
    return ""


class World:
    """One environment + precompiled templates for a scenario."""

    def __init__(self, sc):
        from jinja2 import BaseLoader, Environment, TemplateNotFound, select_autoescape

        shared, mains = sources(sc)
        self.sc = sc
        world = self

        class CodeLoader(BaseLoader):
            def get_source(self, environment, template):
                if template not in shared:
                    raise TemplateNotFound(template)
                return shared[template], template, lambda: True

            def load(self, environment, name, globals=None):
                if name not in shared:
                    raise TemplateNotFound(name)
                code = world.codes.get(name)
                if code is None:
                    code = world.codes[name] = environment.compile(shared[name], name, name)
                return environment.template_class.from_code(environment, code, globals if globals is not None else {},
                                                            lambda: True)

        self.codes = {}
        self.env = Environment(enable_async=True, loader=CodeLoader(), cache_size=sc["cap"] if sc["cap"] else 0,
                               autoescape=select_autoescape(enabled_extensions=("html",), default=False,
                                                            default_for_string=False))
        self.env.globals["gate"] = gate
        self.shared_objects()
        self.main_src = mains
        # tasks with the same source and template globals render the *same* Template object
        self.main_key = []
        self.main_code = {}
        for i, src in enumerate(mains):
            ext = ".html" if sc["tasks"][i].get("html") else ".txt"
            key = (src, sc["tasks"][i]["tg"], ext)
            if key not in self.main_code:
                self.main_code[key] = self.env.compile(src, f"main{i}{ext}", f"main{i}{ext}")
            self.main_key.append(key)
        self.main_tmpl = {}

    def shared_objects(self):
        """The mutable objects all renders of one schedule share (spec: sh.glob = g0), new for every schedule."""
        g0 = self.sc.get("g0", 0)
        self.gd, self.gl = {"c": g0}, [0] * g0
        if self.sc.get("gsrc", "env") == "env":
            self.env.globals.update(gd=self.gd, gl=self.gl)

    def shared_untouched(self):
        g0 = self.sc.get("g0", 0)
        return self.gd == {"c": g0} and self.gl == [0] * g0

    def fresh(self):
        if self.env.cache is not None:
            self.env.cache.clear()
        self.main_tmpl = {}
        self.shared_objects()

    def coro(self, i):
        t = self.sc["tasks"][i]
        key = self.main_key[i]
        tmpl = self.main_tmpl.get(key)
        if tmpl is None:
            g = {"tg": t["tg"]} if t["tg"] else {}
            tmpl = self.main_tmpl[key] = self.env.template_class.from_code(
                self.env, self.main_code[key], self.env.make_globals(g), None)
        data = {"gd": self.gd, "gl": self.gl} if self.sc.get("gsrc", "env") == "data" else {}
        return tmpl.render_async(me=t["me"], lt="<", on=True, off=False, **data)


def step(coro):
    try:
        coro.send(None)
        return None
    except StopIteration as e:
        return ("ok", e.value)
    except Exception as e:  # noqa
        return ("raise", type(e).__name__ + ": " + str(e)[:80])


def run_schedule(world, sched):
    """Resume tasks in the order the schedule gives; returns (results, desync)."""
    world.fresh()
    n = len(world.sc["tasks"])
    coros = [world.coro(i) for i in range(n)]
    res = [None] * n
    desync = False
    for t in sched:
        i = t - 1
        if res[i] is not None:
            desync = True
            continue
        res[i] = step(coros[i])
    while any(r is None for r in res):  # the real task had more await points than the schedule: finish round robin
        desync = True
        for i in range(n):
            if res[i] is None:
                res[i] = step(coros[i])
    return res, desync


def run_alone(world, i):
    world.fresh()
    c = world.coro(i)
    while True:
        r = step(c)
        if r is not None:
            return r


def run_schedule_asyncio(world, sched):
    """The same schedule with real asyncio Tasks: every gate awaits a Future the driver resolves."""
    world.fresh()
    n = len(world.sc["tasks"])
    waiting = {}

    async def agate():
        fut = asyncio.get_running_loop().create_future()
        waiting[asyncio.current_task().get_name()] = fut
        await fut
        return ""

    async def guarded(i, start):
        await start
        return await world.coro(i)

    async def driver():
        loop = asyncio.get_running_loop()
        starts = [loop.create_future() for _ in range(n)]
        tasks = [asyncio.create_task(guarded(i, starts[i]), name=str(i)) for i in range(n)]
        started = [False] * n

        async def settle(i):
            for _ in range(10000):
                if tasks[i].done() or str(i) in waiting:
                    return
                await asyncio.sleep(0)
            raise core.MachineryError("asyncio replay: task neither blocked nor done")

        for t in list(sched) + [i + 1 for i in range(n)] * 64:
            i = t - 1
            if tasks[i].done():
                if all(x.done() for x in tasks):
                    break
                continue
            if not started[i]:
                started[i] = True
                starts[i].set_result(None)
            else:
                waiting.pop(str(i)).set_result(None)
            await settle(i)
        out = []
        for x in tasks:
            try:
                out.append(("ok", await x))
            except Exception as e:  # noqa
                out.append(("raise", type(e).__name__ + ": " + str(e)[:80]))
        return out

    old = world.env.globals["gate"]
    world.env.globals["gate"] = agate
    try:
        return asyncio.run(driver())
    finally:
        world.env.globals["gate"] = old


# ---------------------------------------------------------------------------
# TLC
# ---------------------------------------------------------------------------

def cfg(placeholder, cachectx, maxobj, invs=True, aliascopy=False):
    s = f"""CONSTANTS
  Placeholder = {"TRUE" if placeholder else "FALSE"}
  CacheCtx = {"TRUE" if cachectx else "FALSE"}
  AliasCopy = {"TRUE" if aliascopy else "FALSE"}
  MaxObj = {maxobj}
SPECIFICATION Spec
"""
    if invs:
        s += ("INVARIANT C37_OutputsAsIfAlone\nINVARIANT C37_PrefixAsIfAlone\nINVARIANT C37_CacheContextFree\n"
              "INVARIANT C37_CacheComplete\nINVARIANT C37_TemplateCacheBound\nINVARIANT C37_SharedObjectUntouched\n")
    return s


def scenarios(tier, seed):
    S = core_scenarios()
    rnd = random.Random(seed * 7919 + 37)
    want = 14 if tier == "quick" else 400
    while want:
        sc = random_scenario(rnd)
        if small_enough(sc):
            S.append(sc)
            want -= 1
    return S


def run(ck):
    quick = ck.tier == "quick"
    S = scenarios(ck.tier, ck.seed)
    maxobj = max(max_objects(sc) for sc in S)
    d = core.workdir(PID, "data")
    (d / "sets.json").write_text(json.dumps([spec_view(sc) for sc in S]))
    env = {"SET_FILE": str(d / "sets.json")}
    pool = ThreadPoolExecutor(4)
    fmain = pool.submit(core.run_tlc, PID, "AsyncConc", cfg(False, False, maxobj), workers=10, env=env, name="main",
                        timeout=3000, heap="6g")
    # detection self-tests: wrong designs (two of the module cache, aliasing copies) must be refuted by TLC
    core_n = len(core_scenarios())
    (d / "sets_core.json").write_text(json.dumps([spec_view(sc) for sc in S[:core_n]]))
    envc = {"SET_FILE": str(d / "sets_core.json")}
    f1 = pool.submit(core.run_tlc, PID, "AsyncConc", cfg(True, False, maxobj), workers=3, env=envc, name="self_placeholder",
                     timeout=3000)
    f2 = pool.submit(core.run_tlc, PID, "AsyncConc", cfg(False, True, maxobj), workers=3, env=envc, name="self_cachectx",
                     timeout=3000)
    f3 = pool.submit(core.run_tlc, PID, "AsyncConc", cfg(False, False, maxobj, aliascopy=True), workers=3, env=envc,
                     name="self_aliascopy", timeout=3000)

    # isolated renders of every task (the property's own reference point)
    worlds = [World(sc) for sc in S]
    alone = [[run_alone(w, i) for i in range(len(w.sc["tasks"]))] for w in worlds]

    r = fmain.result()
    ck.add_tlc(r, "AsyncConc: all interleavings of await points")
    lines = sorted(set(x for x in r.printed() if x.startswith("{")))
    if not lines:
        raise core.MachineryError("AsyncConc.tla printed no schedules")
    r1, r2, r3 = f1.result(), f2.result(), f3.result()
    for rr, nm in ((r1, "Placeholder"), (r2, "CacheCtx"), (r3, "AliasCopy")):
        ck.add_tlc(rr, f"AsyncConc self-test, mutant design {nm} (must be refuted)", expect_ok=False)
        ck.extra[f"selftest_mutant_design_{nm}_refuted_by_TLC"] = bool(rr.invariant_violated)
        if not rr.invariant_violated:
            raise core.MachineryError(f"self-test failed: mutant design {nm} was not refuted by TLC")
    pool.shutdown()

    nsched = 0
    per_scenario = {}
    desyncs = 0
    spec_alone_drift = []
    rnd = random.Random(ck.seed + 37)
    nasync = 0
    for line in lines:
        b = json.loads(line)
        sid = b["sid"]
        sched = [t for t in b["sched"] if t != 0]
        outs = b["outs"]
        if isinstance(outs, dict):
            outs = [outs[str(i + 1)] for i in range(len(outs))]
        expected = [("ok", "".join(o)) for o in outs]
        w = worlds[sid - 1]
        sc = S[sid - 1]
        per_scenario[sid] = per_scenario.get(sid, 0) + 1
        nsched += 1
        got, desync = run_schedule(w, sched)
        desyncs += desync
        if not w.shared_untouched():  # C37_SharedObjectUntouched on the engine
            shared, mains = sources(sc)
            ck.violation(
                {"kind": "shared-object-written", "scenario": sc, "sched": sched, "task": 1, "gd": w.gd, "gl": w.gl,
                 "main": mains, "shared": shared},
                f"the renders wrote the object they share: gd={w.gd!r} gl={w.gl!r} (initially c={sc.get('g0', 0)}) after "
                f"schedule {sched} of templates {mains} (objects from {sc.get('gsrc', 'env')})",
                {"kind": "shared-object-written", "variants": sorted({t['variant'] for t in sc['tasks']})},
            )
        runs = [("driver", got)]
        if rnd.random() < (0.08 if quick else 0.03):
            runs.append(("asyncio", run_schedule_asyncio(w, sched)))
            nasync += 1
        for how, res in runs:
            for i, (g, e, a) in enumerate(zip(res, expected, alone[sid - 1])):
                g = (g[0], str(g[1])) if g[0] == "ok" else g
                a2 = (a[0], str(a[1])) if a[0] == "ok" else a
                if g != a2:
                    shared, mains = sources(sc)
                    ck.violation(
                        {"kind": "interference", "scenario": sc, "sched": sched, "task": i + 1, "expected_spec": e[1],
                         "alone": a2, "got": g, "runner": how, "main": mains[i], "shared": shared},
                        f"task {sc['tasks'][i]['me']} rendered {g!r} under schedule {sched} but {a2!r} alone; "
                        f"template {mains[i]!r}, other tasks {[m for j, m in enumerate(mains) if j != i]}, "
                        f"shared {shared}, cache_size={sc['cap']} [{how}]",
                        {"kind": "interference", "ops": sorted({o['op'] for o in sc['tasks'][i]['prog']})},
                    )
                elif g != e:
                    if len(spec_alone_drift) < 5:
                        spec_alone_drift.append({"main": sources(sc)[1][i], "spec": e, "real": g})
        if nsched % 2000 == 1:
            ck.sample({"templates": sources(sc)[1], "schedule": sched, "outputs": [g[1] for g in got]})
    # spec's isolated output vs the engine's isolated output (not C37's business, but it must agree on the unchanged tree)
    if spec_alone_drift:
        ck.extra.setdefault("drift", []).append({"spec_vs_engine_output": spec_alone_drift})
        print(f"SPEC-DRIFT: the engine's output differs from AsyncConc.tla's for {len(spec_alone_drift)}+ task(s) "
              f"although it equals the isolated render (first: {spec_alone_drift[0]})")
    if desyncs:
        ck.extra.setdefault("drift", []).append({"schedules_where_await_points_differ_from_spec": desyncs})
        print(f"SPEC-DRIFT: in {desyncs} schedule(s) the real tasks did not suspend where AsyncConc.tla says "
              f"(outputs were still compared)")
    ck.traces += nsched
    ck.evaluations += nsched + nasync
    ck.extra["scenarios"] = len(S)
    ck.extra["schedules_replayed"] = nsched
    ck.extra["schedules_replayed_as_asyncio_tasks"] = nasync
    ck.extra["max_schedules_per_scenario"] = max(per_scenario.values())
    ck.extra["scenarios_without_schedule"] = [i for i in range(1, len(S) + 1) if i not in per_scenario]
    ck.extra["excluded_shapes"] = [
        "mutable objects (cycler / namespace / joiner) created at the top level of an imported, cached module and "
        "mutated by importers: shared by the documented module cache, not by concurrency",
        "user data shared between renders that a template mutates in place (objects the runtime builds from shared "
        "objects - namespace(gd), dict(gd), gl|list - are covered)",
        "threads (C29) - only asyncio-style interleaving at await points",
    ]
    ck.exhaustive = True
    ck.extra["exhaustive_note"] = ("every interleaving of await points of every scenario (2 tasks x <= 4 gates, 3 tasks x "
                                   "<= 2 gates, plus gates inside shared modules / includes) enumerated by TLC and replayed")
    ck.assumptions += [
        "an asyncio event loop interleaves tasks only at awaits that really suspend; the hand driver "
        "(coroutine.send) does exactly that; a sample of schedules is also replayed with real asyncio Tasks",
    ]


def replay(ck, rec):
    c = rec["case"]
    sc = c["scenario"]
    w = World(sc)
    i = c["task"] - 1
    a = run_alone(w, i)
    got, _ = run_schedule(w, c["sched"])
    g = got[i]
    print("alone:", a, "under schedule:", g)
    if (g[0], str(g[1])) != (a[0], str(a[1])):
        ck.violation(c, f"task still renders {g!r} under the schedule but {a!r} alone", rec.get("fingerprint"))
