"""C01 - every template source either compiles or fails with a template syntax
error.

Spec: spec/Syntax.tla.
 * Mode "skeletons": TLC derives every sentence of the token-level template
   grammar up to a token bound (three profiles: full expression grammar, all
   statements with cut-down expressions, single statement forms) and their
   token mutants (delete / duplicate / swap / replace), and prints each with
   the expectation the spec attaches to it: a sentence of the grammar written
   with distinct ordinary identifiers must compile, a mutant must compile or
   raise a template syntax error inside the source.
   Profile "scope" + action Rename: single binding statements whose bodies use
   names, with one special name (varargs, kwargs, caller, loop, self, super)
   written at every non-empty subset of the identifier positions.
 * Mode "strings": TLC grows every string over the delimiter-fragment alphabet
   (delimiter symbols are written out per syntax configuration) and prints in
   which configurations the string is plain data (must compile).  Pump
   continues every short string with open markup by a long run of one symbol
   (something opened and not closed for long, or never: must not hang).
 * Mode "outcomes": the distinct outcomes observed on the real engine are fed
   back and the Judge action prints Allowed(outcome) for each (the outcome
   classification of the property lives in the spec).

Real side: Environment.from_string under a 5 s (CPU time) watchdog in 7 environment
configurations (default, ERB-style multi-char delimiters, line statement +
line comment prefixes, trim+lstrip, async, sandboxed, i18n+do+loopcontrols+
debug), plus Environment.compile(raw=True) fed to ast.parse for sentences.
Python only writes cases out (token texts, delimiters and prefixes come from
the spec's legend), drives jinja2 and projects what happened.
"""
from __future__ import annotations

import ast
import json
import multiprocessing as mp
import os
import random
import re
import signal
import traceback
from concurrent.futures import ThreadPoolExecutor

from .. import core

PID = "C01"

ENV_CONFIGS = ["default", "erb", "line", "trim", "async", "sandbox", "ext"]
SYNTAX_OF = {"default": "default", "erb": "erb", "line": "line", "trim": "default",
             "async": "default", "sandbox": "default", "ext": "default"}

# identifier pools (input concretisation; all are NAME tokens for the lexer)
NAMES = {
    # pairwise distinct ordinary identifiers
    "ascii": ["a%d" % i for i in range(40)],
    # non-ASCII: continue characters like the middle dot, astral letters, NFKC-unstable
    # letters (no two of them equal after NFKC normalisation)
    "unicode": ["ä", "a·b", "\U00010400x", "ℌ", "ª", "x́", "ж", "_٠", "\U0001d431y",
                "µ", "ẛ", "k·", "あ", "ﬁ", "ſ_", "\U00010428", "z‿1", "ññ"]
               + ["u%dé" % i for i in range(24)],
    # Python keywords and names the generated code uses itself
    "pykw": ["class", "lambda", "yield", "import", "def", "l_0_x", "t_1", "context", "environment", "missing",
             "resolve", "undefined", "str", "escape", "markup_join", "TemplateRuntimeError", "Macro", "Namespace",
             "concat", "identity", "runtime", "blocks", "debug_info", "name", "root", "parent_template",
             "included_template", "async", "await", "print", "exec", "l_1_loop", "t_2", "fi1", "cond_expr_undefined",
             "caller_", "__class__x", "async_", "return", "global"],
    # aliasing / special names: the outcome is not predicted (compiles or syntax error)
    "alias": ["x"] * 40,
    "special": ["loop", "caller", "varargs", "kwargs", "self", "super", "true", "None", "_", "__class__", "ﬁ", "fi",
                "\U0001d431", "x", "False", "none", "namespace", "loop", "x", "caller"] * 2,
}
PREDICTED = ("ascii", "unicode", "pykw")
EXT_TOKS = {"break", "continue", "do", "trans", "endtrans", "pluralize", "debug"}


# --------------------------------------------------------------------------
# TLC
# --------------------------------------------------------------------------

def cfg(mode, maxtok=0, maxmut=0, mutset="none", maxlen=0, profile="expr", nameset="none", pumplen=0, pumpprefix=0,
        invariants=()):
    lines = ["CONSTANTS", f'  Mode = "{mode}"', f"  MaxTok = {maxtok}", f"  MaxMut = {maxmut}",
             f'  MutSet = "{mutset}"', f"  MaxLen = {maxlen}", f'  Profile = "{profile}"', f'  NameSet = "{nameset}"',
             f"  PumpLen = {pumplen}", f"  PumpPrefix = {pumpprefix}", "SPECIFICATION Spec"]
    lines += [f"INVARIANT {i}" for i in invariants]
    return "\n".join(lines) + "\n"


SK_INV = ("C01_GeneratorSound", "C01_SentencesBalanced")

RUNS = {
    "quick": [
        ("expr", dict(mode="skeletons", profile="expr", maxtok=5, invariants=SK_INV), ()),
        ("stmt", dict(mode="skeletons", profile="stmt", maxtok=12, invariants=SK_INV), ()),
        ("forms", dict(mode="skeletons", profile="forms", maxtok=20, maxmut=1, mutset="tiny", invariants=SK_INV), ()),
        ("scope", dict(mode="skeletons", profile="scope", maxtok=20, nameset="core", invariants=SK_INV), ()),
        ("strings", dict(mode="strings", maxlen=3, pumplen=40, pumpprefix=2, invariants=("C01_PlainPrefixClosed",)), ()),
        ("fold", dict(mode="skeletons", profile="fold", maxtok=22, invariants=SK_INV), ()),
        ("kwarg", dict(mode="skeletons", profile="kwarg", maxtok=32, nameset="core", invariants=SK_INV), ()),
        ("pairs", dict(mode="skeletons", profile="pairs", maxtok=24, nameset="core", invariants=SK_INV), ()),
        ("numbers", dict(mode="numbers", maxlen=3), ()),
    ],
    "thorough": [
        ("expr", dict(mode="skeletons", profile="expr", maxtok=7, invariants=SK_INV), ()),
        ("stmt", dict(mode="skeletons", profile="stmt", maxtok=16, invariants=SK_INV), ()),
        ("forms", dict(mode="skeletons", profile="forms", maxtok=20, maxmut=1, mutset="all", invariants=SK_INV), ()),
        ("forms2", dict(mode="skeletons", profile="forms", maxtok=20, maxmut=2, mutset="few", invariants=SK_INV),
         ("-simulate", "num=12000", "-depth", "60")),
        ("scope", dict(mode="skeletons", profile="scope", maxtok=24, nameset="all", invariants=SK_INV), ()),
        ("strings", dict(mode="strings", maxlen=4, pumplen=40, pumpprefix=2, invariants=("C01_PlainPrefixClosed",)), ()),
        ("fold", dict(mode="skeletons", profile="fold", maxtok=22, invariants=SK_INV), ()),
        ("kwarg", dict(mode="skeletons", profile="kwarg", maxtok=32, nameset="all", invariants=SK_INV), ()),
        ("pairs", dict(mode="skeletons", profile="pairs", maxtok=24, nameset="core", invariants=SK_INV), ()),
        ("numbers", dict(mode="numbers", maxlen=4), ()),
    ],
}


# --------------------------------------------------------------------------
# real side (worker processes)
# --------------------------------------------------------------------------

class Watchdog(BaseException):
    pass


def _alarm(signum, frame):
    raise Watchdog()


_W = {}


def _init_worker(legend):
    _W["legend"] = legend
    _W["envs"] = {}
    import warnings
    warnings.simplefilter("ignore")  # SyntaxWarnings of compile() about odd but valid generated code
    signal.signal(signal.SIGVTALRM, _alarm)


def _env(name):
    e = _W["envs"].get(name)
    if e is not None:
        return e
    from jinja2 import Environment
    from jinja2.sandbox import SandboxedEnvironment
    lg = _W["legend"]
    d = {k: "".join(v) for k, v in lg["delims"][SYNTAX_OF[name]].items()}
    kw = dict(block_start_string=d["BS"], block_end_string=d["BE"], variable_start_string=d["VS"],
              variable_end_string=d["VE"], comment_start_string=d["CS"], comment_end_string=d["CE"])
    if name == "line":
        kw.update(line_statement_prefix="".join(lg["line_statement_prefix"]),
                  line_comment_prefix="".join(lg["line_comment_prefix"]))
    if name == "trim":
        kw.update(trim_blocks=True, lstrip_blocks=True)
    if name == "async":
        kw.update(enable_async=True)
    if name == "ext":
        kw.update(extensions=["jinja2.ext.i18n", "jinja2.ext.do", "jinja2.ext.loopcontrols", "jinja2.ext.debug"])
    e = (SandboxedEnvironment if name == "sandbox" else Environment)(**kw)
    _W["envs"][name] = e
    return e


def write_out(case, envname, scheme):
    """tokens / symbols of a case -> source text for one environment configuration"""
    lg = _W["legend"]
    d = lg["delims"][SYNTAX_OF[envname]]
    if case["kind"] == "string":
        return "".join("".join(d[s]) if s in d else s for s in case["syms"])
    if case["kind"] == "number":
        # scheme = "frame:<i>": the spelling inside the i-th frame of the spec
        pre, post = lg["numframes"][int(scheme.split(":")[1])]
        nc = lg["numcodes"]
        return "".join("".join(d[s]) if s in d else (chr(nc[s]) if s in nc else s)
                       for s in list(pre) + list(case["syms"]) + list(post))
    pool = NAMES[scheme]
    codes = lg["codes"]
    parts = []
    k = 0
    for tk in case["toks"]:
        if tk in d:
            parts.append("".join(d[tk]))
        elif tk == "N" or tk == "K":
            parts.append(pool[k % len(pool)])
            k += 1
        elif tk in codes:
            parts.append("".join(chr(c) for c in codes[tk]))
        else:
            parts.append(lg["legend"].get(tk, tk))
    return " ".join(parts)


_SITE_SKIP = ("_compat",)


def _site(exc):
    tb = traceback.extract_tb(exc.__traceback__)
    site = "?"
    for fr in tb:
        fn = fr.filename.replace("\\", "/")
        if "/jinja2/" in fn:
            site = f"{fn.rsplit('/', 1)[1]}:{fr.name}"
    return site


def _norm_msg(msg):
    msg = re.sub(r"\(<[^>]*>, line \d+\)", "", str(msg))
    msg = re.sub(r"'[^']*'", "'..'", msg)
    msg = re.sub(r"\d+", "N", msg)
    return msg.split(":")[0].strip()[:70]


def _py_context(exc):
    """for a Python SyntaxError in generated code: the innermost named call
    around the offending position of the generated line"""
    text, off = getattr(exc, "text", None), getattr(exc, "offset", None)
    if not text or not off:
        return ""
    stack = []
    for m in re.finditer(r"([A-Za-z_][\w.]*)?\(|\)", text[: max(0, off - 1)]):
        if m.group(0) == ")":
            if stack:
                stack.pop()
        else:
            stack.append(m.group(1) or "")
    named = [s for s in stack if s]
    return named[-1] if named else ""


def load(envname, src, want_ast):
    """Loads one source; returns the projected outcome."""
    from jinja2 import TemplateSyntaxError
    env = _env(envname)
    signal.setitimer(signal.ITIMER_VIRTUAL, 5.0)  # user CPU time of this process: robust against a loaded machine
    try:
        try:
            env.from_string(src)
            if want_ast:
                ast.parse(env.compile(src, raw=True))
            return {"class": "ok", "lineno": 0}
        finally:
            signal.setitimer(signal.ITIMER_VIRTUAL, 0)
    except TemplateSyntaxError as e:
        ln = e.lineno
        return {"class": "tse", "lineno": ln if isinstance(ln, int) and 0 <= ln < 10**6 else -1,
                "exc": type(e).__name__, "site": _site(e), "msg": _norm_msg(e.message or "")}
    except Watchdog:
        return {"class": "other", "lineno": 0, "exc": "WatchdogTimeout", "site": "?", "msg": "no result after 5 s of CPU time"}
    except BaseException as e:  # noqa
        if isinstance(e, (KeyboardInterrupt, SystemExit)):
            raise
        o = {"class": "other", "lineno": 0, "exc": type(e).__name__, "site": _site(e), "msg": _norm_msg(e)}
        if isinstance(e, SyntaxError):
            o["py_context"] = _py_context(e)
        return o


def plan(case, seed_rng, tier):
    """which (environment configuration, naming scheme, expectation) to run a case under"""
    k = case["kind"]
    out = []
    if k == "string":
        # async / sandbox differ from default only behind the parser: needed only when a tag can open
        deep = "BS" in case["syms"] or "VS" in case["syms"] or "{" in case["syms"]
        # pumped strings: the three syntax configurations + one seeded other environment
        pumped = bool(case.get("muts"))
        extra = ENV_CONFIGS[3 + seed_rng % 4]
        for envname in ENV_CONFIGS:
            if pumped and SYNTAX_OF[envname] == "default" and envname not in ("default", extra):
                continue
            if envname in ("async", "sandbox") and not deep:
                continue
            exp = "compiles" if SYNTAX_OF[envname] in case["plain"] else "compiles-or-syntax-error"
            out.append((envname, "ascii", exp))
    elif k == "valid":
        for i, envname in enumerate(ENV_CONFIGS):
            out.append((envname, PREDICTED[(seed_rng + i) % 3], "compiles"))
        out.append(("default", "alias", "compiles-or-syntax-error"))
        out.append((ENV_CONFIGS[seed_rng % 7], "special", "compiles-or-syntax-error"))
    elif k == "number":
        for i in range(len(_W["legend"]["numframes"])):
            out.append(("default", f"frame:{i}", "compiles-or-syntax-error"))
        out.append((ENV_CONFIGS[1 + seed_rng % 6], "frame:0", "compiles-or-syntax-error"))
    elif k == "named":
        # a special name at some identifier positions (written by the spec); the other identifiers distinct,
        # and once all equal to one ordinary name
        out.append(("default", "ascii", "compiles-or-syntax-error"))
        out.append((ENV_CONFIGS[1 + seed_rng % 6], ("ascii", "alias")[(seed_rng >> 3) % 2], "compiles-or-syntax-error"))
    else:
        out.append(("default", "ascii", "compiles-or-syntax-error"))
        # tokens that are tags of an extension are tried where the extension is loaded
        second = "ext" if EXT_TOKS.intersection(case["toks"]) else ENV_CONFIGS[1 + seed_rng % 6]
        out.append((second, ("alias", "ascii", "special")[seed_rng % 3], "compiles-or-syntax-error"))
    return out


# a worker that has seen this many watchdog timeouts stops loading (every one of them is a VIOLATION
# already; a hang that a whole family of cases runs into would otherwise cost 5 s of CPU per case)
MAX_TIMEOUTS_PER_WORKER = 2


def _work(arg):
    lines, seed, tier = arg
    agg = {}
    n = 0
    done = 0
    for line in lines:
        if _W.get("timeouts", 0) >= MAX_TIMEOUTS_PER_WORKER:
            break
        done += 1
        case = json.loads(line)
        h = (hash(line) ^ seed) & 0xFFFFFF
        for envname, scheme, expect in plan(case, h, tier):
            src = write_out(case, envname, scheme)
            o = load(envname, src, want_ast=(case["kind"] == "valid" and envname == "default"))
            n += 1
            if o.get("exc") == "WatchdogTimeout":
                _W["timeouts"] = _W.get("timeouts", 0) + 1
            o["lines"] = case["lines"]
            o["expect"] = expect
            key = (o["class"], o["lineno"], o["lines"], expect, o.get("exc", ""), o.get("site", ""), o.get("msg", ""),
                   o.get("py_context", ""), case["kind"])
            a = agg.get(key)
            if a is None:
                a = agg[key] = {"count": 0, "examples": []}
            a["count"] += 1
            if len(a["examples"]) < 3:
                a["examples"].append({"src": src, "env": envname, "names": scheme, "kind": case["kind"],
                                      "toks": case.get("toks") or case.get("syms"), "muts": case.get("muts", [])})
    return n, done, len(lines) - done, agg


# --------------------------------------------------------------------------
# driver
# --------------------------------------------------------------------------

def _merge_findings(ck):
    f = core.VERIF / "findings.d" / f"{PID}.json"
    if f.exists():
        have = {k["id"] for k in core.load_known()} | {k["id"] for k in ck._known}  # known_findings.json wins
        for e in json.loads(f.read_text()):
            if e.get("property") == PID and e.get("status") == "open" and e["id"] not in have:
                ck._known.append(e)


def judge(ck, keys):
    """TLC classifies the distinct outcome records (spec operator Allowed)."""
    recs = sorted({(k[0], k[1], k[2], k[3]) for k in keys})
    d = core.workdir(PID, "outcomes-in")
    f = d / "outcomes.json"
    f.write_text(json.dumps([{"id": i + 1, "class": c, "lineno": ln, "lines": ls, "expect": ex}
                             for i, (c, ln, ls, ex) in enumerate(recs)]))
    r = core.run_tlc(PID, "Syntax", cfg("outcomes", invariants=("C01_ClassificationMonotone",)), name="Syntax-outcomes",
                     workers=1, env={"OUTCOME_FILE": str(f)})
    ck.add_tlc(r, "Syntax[outcomes]")
    verdict = {}
    for ln in set(r.printed()):
        v = json.loads(ln)
        verdict[recs[v["id"] - 1]] = v["allowed"]
    if len(verdict) != len(recs):
        raise core.MachineryError(f"Judge printed {len(verdict)} verdicts for {len(recs)} outcome records")
    return verdict


def fingerprint(key):
    cls, lineno, lines, expect, exc, site, msg, pyctx, kind = key
    if cls == "tse":
        what = "syntax-error-on-valid-source" if expect == "compiles" else "lineno-out-of-range"
        return {"kind": what, "exc": exc, "site": site, "msg": msg}
    fp = {"kind": "not-a-syntax-error", "exc": exc, "site": site, "msg": msg}
    if pyctx:
        fp["py_context"] = pyctx
    return fp


def run(ck):
    _merge_findings(ck)
    tier = ck.tier
    ncpu = os.cpu_count() or 4
    runs = RUNS[tier]

    def tlc(item):
        name, params, args = item
        sim = "-simulate" in args
        a = list(args) + (["-seed", str(ck.seed + 1)] if sim else [])
        return name, core.run_tlc(PID, "Syntax", cfg(**params), name=f"Syntax-{name}", workers=max(2, ncpu // 3),
                                  args=a, timeout=3000, heap="5g")

    with ThreadPoolExecutor(len(runs)) as ex:
        results = list(ex.map(tlc, runs))

    legend = None
    lines = set()
    counts = {}
    for name, r in results:
        if "-simulate" in dict((n, a) for n, _, a in runs)[name]:
            ck.exhaustive = False
            if r.invariant_violated:
                ck.add_tlc(r, f"Syntax[{name}]")
        else:
            ck.add_tlc(r, f"Syntax[{name}]")
        c = 0
        for ln in set(r.printed()):
            if ln.startswith('{"legend"'):
                legend = json.loads(ln)
            else:
                lines.add(ln)
                c += 1
        if c == 0:
            raise core.MachineryError(f"Syntax.tla run {name} printed no cases")
        counts[name] = c
    if legend is None:
        raise core.MachineryError("Syntax.tla printed no legend")
    lines = sorted(lines)
    ck.extra["cases_per_run"] = counts
    kinds = {}
    for ln in lines:
        k = re.search(r'"kind":"(\w+)"', ln).group(1)
        kinds[k] = kinds.get(k, 0) + 1
    ck.extra["cases_per_kind"] = kinds
    if not kinds.get("valid") or not kinds.get("string"):
        raise core.MachineryError(f"vacuous: {kinds}")
    if not kinds.get("mutant"):
        raise core.MachineryError("vacuous: no mutants generated")
    if not kinds.get("named"):
        raise core.MachineryError("vacuous: no sentences with special names generated")
    npumped = sum(1 for ln in lines if '"muts":[["pump"' in ln)
    if not npumped:
        raise core.MachineryError("vacuous: no pumped strings generated")
    ck.extra["pumped_strings"] = npumped
    for fam, mark in (("keyword-argument names", '"muts":[["kwname"'), ("identifier pairs", '"muts":[["pair"'),
                      ("number spellings", '"kind":"number"')):
        c = sum(1 for ln in lines if mark in ln)
        if not c:
            raise core.MachineryError(f"vacuous: no cases of the family {fam}")
        ck.extra["cases_" + fam.replace(" ", "_").replace("-", "_")] = c
    if not counts.get("fold"):
        raise core.MachineryError("vacuous: no constant-folding sentences")

    agg = {}
    loads = 0
    skipped = 0
    chunks = [(c, ck.seed, tier) for c in core.chunks(lines, 400)]
    import gc
    gc.freeze()  # keep the collector of the forked workers away from the (large) case list
    with mp.get_context("fork").Pool(min(16, ncpu), initializer=_init_worker, initargs=(legend,)) as pool:
        for n, ncases, nskipped, part in pool.imap_unordered(_work, chunks):
            loads += n
            ck.traces += ncases
            skipped += nskipped
            for k, v in part.items():
                a = agg.setdefault(k, {"count": 0, "examples": []})
                a["count"] += v["count"]
                a["examples"] = (a["examples"] + v["examples"])[:3]
    ck.evaluations += loads
    ck.extra["real_loads"] = loads
    if skipped:
        ck.exhaustive = False
        ck.extra["cases_not_loaded_after_watchdog_timeouts"] = skipped
        if not any(k[4] == "WatchdogTimeout" for k in agg):
            raise core.MachineryError("cases were skipped without a watchdog timeout on record")

    verdict = judge(ck, agg.keys())
    classes = {}
    for k, v in sorted(agg.items(), key=lambda kv: repr(kv[0])):
        classes[k[0]] = classes.get(k[0], 0) + v["count"]
        if verdict[(k[0], k[1], k[2], k[3])]:
            continue
        fp = fingerprint(k)
        for exm in v["examples"]:
            what = (f"{exm['env']} environment, {exm['src']!r}: expected {k[3]} within {k[2]} line(s), got "
                    + (f"{k[4]} at line {k[1]} ({k[6]})" if k[0] == "tse" else f"{k[4]}: {k[6]} [{k[5]}]")
                    + f"  ({v['count']} case(s) with this outcome)")
            ck.violation({"kind": "load", "env": exm["env"], "src": exm["src"], "lines": k[2], "expect": k[3],
                          "legend": legend, "toks": exm["toks"], "muts": exm["muts"]}, what, fp)
    ck.extra["outcome_classes"] = classes
    ck.extra["distinct_outcomes_judged"] = len(verdict)
    for k, v in list(agg.items())[:: max(1, len(agg) // 5)][:5]:
        ck.sample({"src": v["examples"][0]["src"], "env": v["examples"][0]["env"], "outcome": k[0],
                   "exc": k[4], "lineno": k[1]})
    literal_family(ck)
    ck.extra["environment_configurations"] = ENV_CONFIGS
    ck.extra["excluded_shapes"] = [
        "expectation `compiles` is attached only to sentences of the spec's grammar written with pairwise distinct "
        "ordinary identifiers, known filter / test names (upper, defined) and to strings without an opening "
        "delimiter; for everything else only `compiles or template syntax error inside the source` is claimed",
        "`never hangs` is decided by a 5 s watchdog on the bounded inputs only",
        "rendering of the loaded template is not part of this property",
    ]
    ck.assumptions += [
        "tokens are written out separated by single blanks; line numbers count `\\n` only",
        "string enumeration uses symbols for the delimiters, written out per syntax configuration "
        "(default `{% %} {{ }} {# #}`, ERB-style `<% %> <%= %> <%# %>`)",
    ]


# ---------------------------------------------------------------------------
# supplementary family: literal spellings.  Every short spelling over the number alphabet (which the
# lexer may read as one or several tokens) placed in an expression must load or fail with a template
# syntax error inside the source - the property's own classification, nothing is predicted.
# ---------------------------------------------------------------------------

def _lit_work(chunk):
    core.use_repo()
    import jinja2
    import warnings
    warnings.simplefilter("ignore")
    envs = [("default", jinja2.Environment()), ("async", jinja2.Environment(enable_async=True))]
    signal.signal(signal.SIGVTALRM, _alarm)
    out = []
    timeouts = 0
    for s_ in chunk:
        if timeouts >= MAX_TIMEOUTS_PER_WORKER:
            break
        for frame in ("{{ %s }}", "{%% if x == %s %%}y{%% endif %%}", "{{ [%s, 1] }}"):
            src = frame % s_
            for ename, env in envs[: 1 if frame != "{{ %s }}" else 2]:
                signal.setitimer(signal.ITIMER_VIRTUAL, 5.0)
                try:
                    try:
                        env.from_string(src)
                        ast.parse(env.compile(src, raw=True))
                    finally:
                        signal.setitimer(signal.ITIMER_VIRTUAL, 0)
                except jinja2.TemplateSyntaxError as e:
                    if not (isinstance(e.lineno, int) and 1 <= e.lineno <= 1):
                        out.append((src, ename, "TemplateSyntaxError with lineno %r outside the source" % (e.lineno,)))
                except Watchdog:
                    timeouts += 1
                    out.append((src, ename, "WatchdogTimeout: no result after 5 s of CPU time"))
                except BaseException as e:  # noqa
                    out.append((src, ename, f"{type(e).__name__}: {str(e)[:80]}"))
    return out, len(chunk) * 4


def literal_family(ck):
    import itertools
    from concurrent.futures import ProcessPoolExecutor
    alpha = "0179_.eExob-+"
    maxlen = 3 if ck.tier == "quick" else 4
    spellings = ["".join(t) for n in range(1, maxlen + 1) for t in itertools.product(alpha, repeat=n)]
    spellings += ["012", "0_9", "007", "1__0", "0x", "0b2", "0o8", "1e", "1.e5", "1_000_000.5", "1.000_000_1", "1e1_0_0", "1_2_3e2",
                  "9" * 400, "1" + "0" * 5000, "0x" + "f" * 300, "1e999", "1e-999", "0.0" + "0" * 400 + "1", "1_", "_1", "1.1.1", "1..2"]
    total = 0
    with ProcessPoolExecutor(max_workers=16) as ex:
        for bad, n in ex.map(_lit_work, list(core.chunks(spellings, 200))):
            total += n
            for src, ename, what in bad:
                ck.violation({"kind": "literal", "env": ename, "src": src},
                             f"{ename} environment, {src[:120]!r}: expected compiles or template syntax error, got {what}",
                             {"kind": "load-outcome", "exc": what.split(":")[0], "family": "literal-spelling"})
    ck.traces += total
    ck.extra["literal_spellings_loaded"] = total


def replay(ck, rec):
    _merge_findings(ck)
    c = rec["case"]
    if c.get("kind") != "load":
        raise core.MachineryError("spec-level violation: re-run ./check C01")
    _init_worker(c["legend"])
    o = load(c["env"], c["src"], want_ast=True)
    key = (o["class"], o["lineno"], c["lines"], c["expect"], o.get("exc", ""), o.get("site", ""), o.get("msg", ""),
           o.get("py_context", ""), "replay")
    verdict = judge(ck, [key])
    if not verdict[(key[0], key[1], key[2], key[3])]:
        ck.violation(c, f"{c['env']} environment, {c['src']!r}: still {o}", fingerprint(key))
