"""C27 - the bytecode cache never yields stale code and tolerates interrupted writes.

Specs: spec/BCCache.tla (loads / source changes / clears / external damage /
interrupted writes / failing memcache client, two environments sharing one
cache) and spec/BCCacheWrite.tla (the write path at file-operation granularity
with concurrent processes and crashes).

TLC checks the C27_* invariants for the behaviour the property demands
(KeyCoversConfig, GuardedRead = TRUE) and refutes them for the mechanism as
implemented (key ignores configuration -> F3; unguarded checksum read -> F2).

Binding (spec->code): TLC prints every transition of BCCache.tla's state graph
(mechanism-shaped: KeyCoversConfig = FALSE) with the modelled outcome `res` and
the set `allowed` of outcomes the property permits.  A driver walks two real
environments sharing one real FileSystemBytecodeCache (or a
MemcachedBytecodeCache over a fake client) along every edge: loads, source
changes, clear(), truncation of the real entry to an offset of the edge's
length class, foreign magic bytes, and *real* interrupted writes (the load runs
in a forked child that is killed at the chosen file operation / byte).  After
every load the rendered text / exception is compared with what a cache-less
environment of the same configuration renders for the spec's expected
(version, configuration); after every step the directory is compared with the
spec's entries (existence + length class).  Then every byte offset of a real
entry is truncated / used as crash point along the corresponding spec path.

spec/BCCacheSource.tla makes the source texts behind the versions explicit: TLC
enumerates every pair of texts that differ by one inserted / deleted / replaced
character (alphabet: ordinary characters, line terminators, the other
str.splitlines separators, blanks, case variants, non-ASCII) and checks that an
exact checksum separates them (refuted for a line-normalising one).  Every pair
is bound to versions 1, 2 of the load / modify / clear graph of BCCache.tla and
walked on a real environment + real cache.
"""
from __future__ import annotations

import json
import marshal
import os
import pickle
import random
import shutil
import sys
import tempfile
from concurrent.futures import ProcessPoolExecutor, ThreadPoolExecutor

from .. import core, graphwalk

# scratch directories live on tmpfs when there is one (the drivers do many small file operations)
SCRATCH = "/dev/shm" if os.path.isdir("/dev/shm") and os.access("/dev/shm", os.W_OK) else None
PID = "C27"
CTX_X = "<"
DAMAGE_EXC = {"EOFError", "UnpicklingError"}


# ---------------------------------------------------------------------------
# TLC
# ---------------------------------------------------------------------------

def mc_module(d, names, cfgof, trunc, stages, clear_stages=()):
    (d / "MCBCCache.tla").write_text(f"""---- MODULE MCBCCache ----
EXTENDS BCCache
MCNames == {core.tla_str(set(names))}
MCCfgOf == {core.tla_str(list(cfgof))}
MCTrunc == {core.tla_str(set(trunc))}
MCStages == {core.tla_str(set(stages))}
MCClearStages == {core.tla_str(set(clear_stages))}
====
""")
    return d / "MCBCCache.tla"


ALL_INV = ["TypeOK", "C27_RendersCurrentSourceUnderOwnConfig", "C27_DamagedIsMiss", "C27_NeverStaleSource",
           "C27_FinalNeverPartial", "C27_EntryConsistent", "C27_KeyedEntriesOwnConfig"]
ALL_STAGES = ["preTemp", "tempPartial", "tempFull", "replaced"]
CLEAR_STAGES = ["preTemp", "tempPartial", "tempFull"]     # where another environment's clear() may fall


def bcc_tlc(tag, *, names=("t",), nversions=2, cfgof=("c1", "c2"), store="fs", ignore=True, keycfg=False,
            guarded=True, trunc=range(6), foreign=True, stages=ALL_STAGES, clear_stages=CLEAR_STAGES, graph=False,
            invariants=ALL_INV, workers=4, coverage=False):
    d = core.workdir(PID, f"mc_{tag}")
    mod = mc_module(d, names, cfgof, trunc, stages, clear_stages)
    B = lambda b: "TRUE" if b else "FALSE"  # noqa
    cfg = f"""CONSTANTS
  Names <- MCNames
  NVersions = {nversions}
  CfgOf <- MCCfgOf
  Store = "{store}"
  IgnoreErrors = {B(ignore)}
  KeyCoversConfig = {B(keycfg)}
  GuardedRead = {B(guarded)}
  TruncClasses <- MCTrunc
  AllowForeign = {B(foreign)}
  Stages <- MCStages
  ClearStages <- MCClearStages
  None = None
  EmitGraph = {B(graph)}
SPECIFICATION Spec
"""
    if graph:
        cfg += "VIEW View\nINVARIANT TypeOK\n"
    else:
        cfg += "".join(f"INVARIANT {i}\n" for i in invariants)
    return core.run_tlc(PID, "MCBCCache", cfg, workers=workers, name=f"tlc_{tag}", extra_modules=[mod],
                        coverage=coverage, timeout=3000, heap="2g")


# the characters of BCCacheSource.tla's alphabet (name in the spec -> text in a template source)
ALPHABET = [("a", "a"), ("A", "A"), ("X", "{{ x }}"), ("SP", " "), ("TAB", "\t"), ("LF", "\n"), ("CR", "\r"),
            ("VT", "\x0b"), ("FF", "\x0c"), ("FS", "\x1c"), ("NEL", "\x85"), ("NBSP", "\xa0"), ("LS", "\u2028"),
            ("PS", "\u2029"), ("E", "\xe9")]
ALPHABET_3 = [c for c in ALPHABET if c[0] in ("a", "X", "SP", "LF", "CR", "FF", "LS", "E")]   # for 3-character texts
ALPHABET_MORE = [("GS", "\x1d"), ("RS", "\x1e"), ("ZWSP", "\u200b"), ("IDSP", "\u3000")]
LINE_ENDS = ["LF", "CR", "VT", "FF", "FS", "GS", "RS", "NEL", "LS", "PS"]
CHAR = dict(ALPHABET + ALPHABET_MORE)


def src_tlc(tag, *, alpha, maxlen, cks="exact", emit=False, workers=1):
    d = core.workdir(PID, f"mc_{tag}")
    names = [a for a, _ in alpha]
    mod = d / "MCBCCacheSource.tla"
    mod.write_text(f"""---- MODULE MCBCCacheSource ----
EXTENDS BCCacheSource
MCAlpha == {core.tla_str(names)}
MCLineEnds == {core.tla_str({a for a in names if a in LINE_ENDS})}
====
""")
    cfg = f"""CONSTANTS
  Alpha <- MCAlpha
  MaxLen = {maxlen}
  LineEnds <- MCLineEnds
  Cks = "{cks}"
  EmitCases = {"TRUE" if emit else "FALSE"}
SPECIFICATION Spec
INVARIANT TypeOK
INVARIANT C27_EditChangesSource
INVARIANT C27_ChecksumSeparatesSources
"""
    return core.run_tlc(PID, "MCBCCacheSource", cfg, workers=workers, name=f"tlc_{tag}", extra_modules=[mod],
                        timeout=3000, heap="2g")


def edit_pairs_of(r):
    """the (old, new) pairs BCCacheSource.tla printed, as concrete texts, without repetitions"""
    seen, out = set(), []
    for line in r.printed():
        if not line.startswith('{"'):
            continue
        rec = json.loads(line)
        if "old" not in rec or "new" not in rec:
            continue
        key = (tuple(rec["old"]), tuple(rec["new"]))
        if key in seen:
            continue
        seen.add(key)
        out.append(("".join(CHAR[c] for c in key[0]), "".join(CHAR[c] for c in key[1]),
                    f"{' '.join(key[0]) or '-'} -> {' '.join(key[1]) or '-'}"))
    if not out:
        raise core.MachineryError("BCCacheSource: TLC printed no edit pairs")
    return out


def write_tlc(tag, *, procs=2, use_temp=True, unique=True, workers=4, coverage=False, invariants=None):
    cfg = f"""CONSTANTS
  Procs = {{{", ".join(f"p{i}" for i in range(1, procs + 1))}}}
  Tags = {{1, 2}}
  UseTemp = {"TRUE" if use_temp else "FALSE"}
  MaxJunk = 2
  None = None
  TempIds = {{{", ".join(f"t{i}" for i in range(1, procs + 3))}}}
  UniqueTemp = {"TRUE" if unique else "FALSE"}
SYMMETRY TempSymmetry
SPECIFICATION Spec
CONSTRAINT JunkBound
INVARIANT TypeOK
INVARIANT C27_FinalNeverPartial
INVARIANT C27_ReaderSeesWholeEntries
INVARIANT C27_ClosedTempIsWhole
INVARIANT C27_TempNamesPrivate
PROPERTY C27_FinalChangesAtomically
PROPERTY C27_ClearLeavesWritersAlone
"""
    if invariants is not None:
        cfg = cfg[: cfg.index("INVARIANT")] + "".join(f"INVARIANT {i}\n" for i in invariants)
    return core.run_tlc(PID, "BCCacheWrite", cfg, workers=workers, name=f"tlc_{tag}", coverage=coverage,
                        timeout=3000, heap="2g")


# ---------------------------------------------------------------------------
# interrupting a real write.  At the armed point (a file operation seen by the audit hook, or the
# n-th byte handed to Bucket.write_bytecode) the cache directory is snapshotted -- that is what a
# killed process leaves behind -- and the load is aborted with a BaseException; whatever the
# code's exception handlers do afterwards is undone by restoring the snapshot.
# ---------------------------------------------------------------------------

class _Killed(BaseException):
    pass


class _Crash:
    armed = None        # (stage, byte offset): where the running load dies ...
    action = None       # ... or, when set, where this callable runs (once) and the load then continues
    fault = None        # (kind, byte offset): "write-oserror" | "replace-oserror" | "replace-interrupt"
    root = None         # cache directory being watched
    log = None          # list collecting the file operations of the write path (trace recording)
    snapshot = None     # {file name: bytes} of the cache directory at the moment of death
    dead = False        # the load has been killed: whatever its exception handlers do is not observed
    hooked = False
    proc = 1            # which writer ("process") the file operations seen right now belong to
    tag = 1             # the source version a writer starting now compiles
    keep_log = False    # the action at the armed point is another WRITER: its file operations are recorded too


def _log(ev):
    if _Crash.log is not None and not _Crash.dead:
        ev.setdefault("p", _Crash.proc)
        _Crash.log.append(ev)


def _die():
    if _Crash.action is not None:
        # another environment acts in the middle of the write; its file operations are not the writer's
        act, _Crash.action, _Crash.armed = _Crash.action, None, None
        if _Crash.keep_log:
            act()
            return
        log, _Crash.log = _Crash.log, None
        try:
            act()
        finally:
            _Crash.log = log
        _log({"ev": "clear"})
        return
    root = _Crash.root
    snap = {}
    for fn in os.listdir(root):
        with open(os.path.join(root, fn), "rb") as f:
            snap[fn] = f.read()
    _Crash.snapshot = snap
    _Crash.armed = None
    _Crash.dead = True
    raise _Killed()


def _audit(event, args):
    root = _Crash.root
    if root is None or (_Crash.armed is None and _Crash.log is None):
        return
    stage = _Crash.armed[0] if _Crash.armed else None
    if event == "tempfile.mkstemp":
        if str(args[0]).startswith(root):
            if stage == "preTemp":
                _die()
    elif event == "open":
        if isinstance(args[0], str) and os.path.dirname(args[0]) == root \
                and isinstance(args[2], int) and args[2] & (os.O_WRONLY | os.O_RDWR):
            if stage == "preTemp" and _Crash.armed is not None:
                _die()
            # a file of the cache directory is opened for writing: that is the writer's temporary file
            # (mkstemp's os.open as well as a plain open(..., "wb")); its NAME is part of the protocol
            _log({"ev": "create", "file": os.path.basename(args[0]), "tag": _Crash.tag})
    elif event == "os.rename":
        if str(args[0]).startswith(root):
            if stage == "tempFull":
                _die()
            f = _Crash.fault
            if f and f[0] in ("replace-oserror", "replace-interrupt"):
                _Crash.fault = None
                _log({"ev": "fault"})
                _log({"ev": "rename-failed"})
                raise OSError(13, "injected") if f[0] == "replace-oserror" else KeyboardInterrupt()
            _log({"ev": "rename"})
    elif event == "os.remove":
        if str(args[0]).startswith(root):
            _log({"ev": "remove"})


class _CutFile:
    """File proxy handed to Bucket.write_bytecode: logs the bytes written, and lets the process die
    (or the write fail) once `limit` bytes are on disk."""

    def __init__(self, f):
        self.f, self.pos = f, 0

    def write(self, data):
        data = bytes(data)
        a, ft = _Crash.armed, _Crash.fault
        limit = a[1] if a and a[0] == "tempPartial" else ft[1] if ft and ft[0] == "write-oserror" else None
        if limit is not None and self.pos + len(data) > limit:
            head = data[: limit - self.pos]
            self.f.write(head)
            self.f.flush()
            self.pos = limit
            _log({"ev": "write", "pos": self.pos})
            if a and a[0] == "tempPartial":
                _die()                      # returns only when an action ran instead
                rest = data[len(head):]
                return self.write(rest) if rest else len(head)
            _Crash.fault = None
            _log({"ev": "fault"})
            raise OSError(28, "injected: no space left on device")
        self.pos += len(data)
        r = self.f.write(data)
        _log({"ev": "write", "pos": self.pos})
        return r

    def __getattr__(self, name):
        return getattr(self.f, name)


def install_crash_points():
    from jinja2 import bccache

    if not _Crash.hooked:
        sys.addaudithook(_audit)
        _Crash.hooked = True
    if getattr(bccache.Bucket, "_jv_crash", False):
        return
    base = bccache.Bucket

    class CrashBucket(base):
        _jv_crash = True

        def write_bytecode(self, f):
            if _Crash.armed is not None or _Crash.fault is not None or _Crash.log is not None:
                return super().write_bytecode(_CutFile(f))
            return super().write_bytecode(f)

    CrashBucket.__name__ = base.__name__
    bccache.Bucket = CrashBucket


# ---------------------------------------------------------------------------
# the real system
# ---------------------------------------------------------------------------

def source_text(n, v):
    return "{% if true %}\n{% endif %}{{ x }}|{{ f() }}|" + f"{n}.v{v}"


def _unsafe():
    return "called"


_unsafe.unsafe_callable = True


def make_env(cfg, loader, bcc):
    import jinja2
    from jinja2.sandbox import SandboxedEnvironment

    kw = dict(loader=loader, bytecode_cache=bcc, cache_size=0)
    if cfg == "sandboxed":
        return SandboxedEnvironment(**kw)
    opts = {"plain": {}, "autoescape": {"autoescape": True}, "trim": {"trim_blocks": True},
            "async": {"enable_async": True}, "ktn": {"keep_trailing_newline": True}}[cfg]
    return jinja2.Environment(**kw, **opts)


def observe(fn):
    try:
        return ["text", fn()]
    except Exception as e:  # noqa
        return ["exc", type(e).__name__]


class FakeClientError(Exception):
    pass


class FakeClient:
    """Minimal memcache client whose behaviour the driver switches."""

    def __init__(self, real):
        self.real = real
        self.data = {}
        self.kind, self.c = "ok", 0

    def get(self, key):
        if self.kind == "raise":
            raise FakeClientError("get")
        if self.kind == "none":
            return None
        v = self.data.get(key)
        if v is not None and self.kind == "trunc":
            return v[: self.real.offset_in_class(self.c, len(v))]
        return v

    def set(self, key, value, timeout=None):
        if self.kind in ("raise", "setraise"):
            raise FakeClientError("set")
        self.data[key] = bytes(value)


_REFENVS = {}
_REFCACHE = {}


def refenv(cfg):
    """cache-less environment of configuration cfg: the property's own oracle (one per process)"""
    if cfg not in _REFENVS:
        import jinja2
        _REFENVS[cfg] = make_env(cfg, jinja2.DictLoader({}), None)
    return _REFENVS[cfg]


class Real:
    def __init__(self, store, binding, names, ignore, seed, texts=None):
        import jinja2
        from jinja2 import bccache

        install_crash_points()
        self.j, self.bccache = jinja2, bccache
        self.store, self.binding, self.names = store, dict(binding), list(names)
        self.rnd = random.Random(seed)
        self.texts = texts           # {version: source text} (an edit pair of BCCacheSource.tla) or None
        self.mapping = {n: self.text(n, 1) for n in names}
        self.dir = None
        if store == "fs":
            self.dir = tempfile.mkdtemp(prefix="jv_c27_", dir=SCRATCH)
            self.bc = bccache.FileSystemBytecodeCache(self.dir)
            self.bc_other = bccache.FileSystemBytecodeCache(self.dir)   # "another environment" on the same directory
        else:
            self.client = FakeClient(self)
            self.bc = bccache.MemcachedBytecodeCache(self.client, ignore_memcache_errors=ignore)
        self.cfgs = [self.binding["c1"], self.binding["c2"]]
        self.envs = [make_env(c, jinja2.DictLoader(self.mapping), self.bc) for c in self.cfgs]
        self.refenvs = {c: refenv(c) for c in set(self.cfgs)}
        self.refcache = _REFCACHE
        self.magic_end = len(bccache.bc_magic)
        self.cks_end = self.magic_end + len(pickle.dumps("0" * 40, 2))
        self.cause = {}
        self.last_full = 1200
        self.last_hint = None
        self.point_reached = True

    def close(self):
        if self.dir:
            shutil.rmtree(self.dir, ignore_errors=True)
            self.dir = None

    def text(self, n, v):
        """the source text of version v of template n"""
        if self.texts:
            return self.texts[str(v)]
        return source_text(n, v)

    def reset(self, seed, texts=None):
        """back to the initial state: empty cache, version 1 of every template, healthy client"""
        self.rnd = random.Random(seed)
        if texts is not None:
            self.texts = texts
        for n in self.names:
            self.mapping[n] = self.text(n, 1)
        self.cause.clear()
        if self.store == "fs":
            for fn in os.listdir(self.dir):
                os.remove(os.path.join(self.dir, fn))
        else:
            self.client.data.clear()
            self.client.kind, self.client.c = "ok", 0

    # -- references: what the property's own oracle (a cache-less compile) renders --------------
    def ctx(self):
        return {"x": CTX_X, "f": _unsafe}

    def ref(self, n, v, compile_cfg, run_env):
        """observation of: source version v of n compiled under compile_cfg, run in environment run_env"""
        text = self.text(n, v)
        key = (n, text, compile_cfg, self.cfgs[run_env - 1])
        if key not in self.refcache:
            cenv, renv = self.refenvs[compile_cfg], self.refenvs[self.cfgs[run_env - 1]]

            def go():
                code = cenv.compile(text, n, None)
                tpl = renv.template_class.from_code(renv, code, renv.make_globals(None), None)
                return tpl.render(**self.ctx())

            self.refcache[key] = observe(go)
        return self.refcache[key]

    def matches(self, obs, label, env, n):
        kind, v, c = label
        if kind == "render":
            return obs == self.ref(n, v, self.binding[c], env)
        if kind == "raise" and c == "client-error":
            return obs == ["exc", "FakeClientError"]
        if kind == "raise":
            return obs[0] == "exc" and obs[1] in DAMAGE_EXC
        return False

    # -- files ----------------------------------------------------------------------------------
    def path(self, n):
        return os.path.join(self.dir, self.bc.pattern % (self.bc.get_cache_key(n, None),))

    def memkey(self, n):
        return self.bc.prefix + self.bc.get_cache_key(n, None)

    def offset_in_class(self, c, size):
        """a byte offset of length class c, smaller than size (seeded choice inside the class)"""
        m, k = self.magic_end, self.cks_end
        lo, hi = {0: (0, 0), 1: (1, m - 1), 2: (m, m), 3: (m + 1, k - 1), 4: (k, k), 5: (k + 1, size - 1)}[c]
        hi = min(hi, size - 1)
        if hi < lo:
            raise core.MachineryError(f"no offset of class {c} below {size}")
        return self.rnd.randint(lo, hi)

    def class_of(self, data):
        m, k = self.magic_end, self.cks_end
        size = len(data)
        if size <= k:
            return 0 if size == 0 else 1 if size < m else 2 if size == m else 3 if size < k else 4
        try:
            marshal.loads(data[k:])
            return 6
        except (EOFError, ValueError, TypeError):
            return 5

    def project(self):
        """({name: length class of its stored entry}, left-over temporary files exist)"""
        if self.store == "mem":
            return {n: self.class_of(self.client.data[self.memkey(n)]) for n in self.names
                    if self.memkey(n) in self.client.data}, False
        finals = {self.path(n): n for n in self.names}
        out, junk = {}, False
        for fn in os.listdir(self.dir):
            p = os.path.join(self.dir, fn)
            if p in finals:
                with open(p, "rb") as f:
                    out[finals[p]] = self.class_of(f.read())
            else:
                junk = True
        return out, junk

    # -- operations -----------------------------------------------------------------------------
    def step(self, op, hint=None):
        k = op[0]
        if k == "load":
            env = self.envs[op[1] - 1]
            n = op[2]
            obs = observe(lambda: env.get_template(n).render(**self.ctx()))
            if self.store == "fs" and os.path.exists(self.path(n)):
                sz = os.path.getsize(self.path(n))
                if sz > self.cks_end:
                    self.last_full = sz
            return obs
        if k == "crash":
            return self.crash(op[1], op[2], op[3], hint)
        if k == "loadclear":
            return self.load_during_clear(op[1], op[2], op[3], hint)
        if k == "modify":
            self.mapping[op[1]] = self.text(op[1], op[2])
        elif k == "clear":
            self.bc.clear()
            self.cause.clear()
        elif k == "truncate":
            n, c = op[1][0], op[2]
            p = self.path(n)
            size = os.path.getsize(p)
            off = hint if hint is not None else self.offset_in_class(c, size)
            self.last_hint = off
            os.truncate(p, off)
            self.cause[n] = "external-truncation"
        elif k == "foreign":
            # an entry as another interpreter version would have left it: its magic, the checksum of the
            # source it was compiled from, and bytecode this interpreter must never run (a marker template)
            p = self.path(op[1][0])
            magic = self.bccache.bc_magic
            other = b"j2" + pickle.dumps(self.bccache.bc_version, 2) + \
                pickle.dumps((sys.version_info[0] << 24) | (sys.version_info[1] + 1), 2)
            if len(other) != len(magic) or other == magic:
                raise core.MachineryError("cannot build a foreign magic of the same length")
            with open(p, "rb") as f:
                data = f.read()
            cls = self.class_of(data)
            if len(data) <= self.cks_end:
                data = other + data[self.magic_end:]
            else:
                marker = self.refenvs[self.cfgs[0]].compile("FOREIGN-INTERPRETER-BYTECODE", op[1][0], None)
                code = marshal.dumps(marker)
                data = other + data[self.magic_end:self.cks_end] + (code if cls == 6 else code[: len(code) // 2])
            if self.class_of(data) != cls:
                raise core.MachineryError("foreign entry changed its length class")
            with open(p, "wb") as f:
                f.write(data)
        elif k == "mode":
            self.client.kind, self.client.c = op[1], op[2]
        else:
            raise core.MachineryError(f"unknown op {op}")
        return None

    def point_offset(self, stage, hint):
        if stage != "tempPartial":
            return 0
        if hint is not None:
            return hint
        return self.rnd.choice(
            [0, self.rnd.randint(1, self.magic_end - 1), self.magic_end,
             self.rnd.randint(self.magic_end + 1, self.cks_end - 1), self.cks_end,
             self.rnd.randint(self.cks_end + 1, self.cks_end + 400)])

    def load_during_clear(self, e, n, stage, hint):
        """the load runs to its end, but when its write reaches `stage` another environment sharing
        the directory calls clear(); returns the load's observation"""
        off = self.point_offset(stage, hint)
        env = self.envs[e - 1]
        _Crash.armed, _Crash.root, _Crash.dead = (stage, off), self.dir, False
        _Crash.action = self.bc_other.clear
        try:
            obs = observe(lambda: env.get_template(n).render(**self.ctx()))
        finally:
            reached = _Crash.action is None
            _Crash.armed = _Crash.action = None
        self.last_hint = off
        self.point_reached = reached
        if reached:
            self.cause.clear()
        return obs

    def load_during_write(self, e, n, stage, hint, version):
        """the load by environment e runs to its end, but when its write reaches `stage` the source
        changes to `version` and ANOTHER writer -- an environment of the same configuration with its
        own FileSystemBytecodeCache object on the same directory, i.e. another process -- loads the
        template and stores its entry; then the first writer continues.  File operations of both are
        recorded (p = 1 / 2).  Returns (observation of the first load, observation of the second)."""
        off = self.point_offset(stage, hint)
        env = self.envs[e - 1]
        if getattr(self, "env_other", None) is None:
            self.env_other = make_env(self.cfgs[e - 1], self.j.DictLoader(self.mapping), self.bc_other)
        inner = []

        def other_writer():
            mine = _Crash.tag
            _Crash.proc, _Crash.tag = 2, version
            try:
                self.mapping[n] = self.text(n, version)
                o = observe(lambda: self.env_other.get_template(n).render(**self.ctx()))
                inner.append(o)
                _log({"ev": "loaded" if o[0] == "text" else "raised"})
            finally:
                _Crash.proc, _Crash.tag = 1, mine

        _Crash.armed, _Crash.root, _Crash.dead = (stage, off), self.dir, False
        _Crash.action, _Crash.keep_log = other_writer, True
        try:
            obs = observe(lambda: env.get_template(n).render(**self.ctx()))
        finally:
            reached = _Crash.action is None
            _Crash.armed = _Crash.action = None
            _Crash.keep_log = False
            _Crash.proc = 1
        self.last_hint = off
        self.point_reached = reached
        return obs, (inner[0] if inner else None)

    def entry_version(self, n):
        """which source version the stored entry of n belongs to: the version v whose checksum the
        entry carries, provided the entry's code renders what version v renders; 0 when checksum and
        code disagree (or nothing fits)"""
        with open(self.path(n), "rb") as f:
            data = f.read()
        m, k = self.magic_end, self.cks_end
        cfg = self.cfgs[0]
        renv = self.refenvs[cfg]
        for v in (1, 2, 3):
            if data[m:k] != pickle.dumps(self.bc.get_source_checksum(self.text(n, v)), 2):
                continue

            def go():
                code = marshal.loads(data[k:])
                return renv.template_class.from_code(renv, code, renv.make_globals(None), None).render(**self.ctx())

            return v if observe(go) == self.ref(n, v, cfg, 1) else 0
        return 0

    def crash(self, e, n, stage, hint):
        """the load dies at `stage`: afterwards the directory is what it was at that moment"""
        off = self.point_offset(stage, hint)
        for attempt in range(1):
            _Crash.armed, _Crash.snapshot, _Crash.root, _Crash.dead = (stage, off), None, self.dir, False
            died = False
            try:
                self.envs[e - 1].get_template(n)
            except _Killed:
                died = True
            except Exception as ex:  # noqa
                _Crash.armed = None
                return ["load-raised-before-crash-point", stage, type(ex).__name__]
            finally:
                _Crash.armed = None
            if died:
                log, _Crash.log = _Crash.log, None       # restoring the snapshot is not part of the trace
                _Crash.dead = False
                for fn in os.listdir(self.dir):
                    os.remove(os.path.join(self.dir, fn))
                for fn, data in _Crash.snapshot.items():
                    with open(os.path.join(self.dir, fn), "wb") as f:
                        f.write(data)
                _Crash.log = log
                if log is not None:
                    log.append({"ev": "killed"})
                self.last_hint = off
                return ["crashed", stage, off]
            if stage == "replaced":
                return ["crashed", stage, off]        # died right after the rename: the load just completes
            return ["crash-point-not-reached", stage, off]
        return ["crash-point-not-reached", stage, off]


# ---------------------------------------------------------------------------
# comparing one step with the spec's edge
# ---------------------------------------------------------------------------

class Recorder:
    def __init__(self, meta):
        self.meta = meta
        self.viol = {}       # defect -> [count, examples]
        self.drift = []
        self.better = 0
        self.unexpected = 0
        self.trail = []
        self.samples = []

    def violation(self, defect, what, fp, edge):
        v = self.viol.setdefault(json.dumps(fp, sort_keys=True), [0, []])
        v[0] += 1
        if len(v[1]) < 2:
            case = dict(self.meta, kind="history", ops=[list(x) for x in self.trail], expect=edge)
            v[1].append({"case": case, "what": what, "fp": fp})


def entry_class(state, n, mode=None):
    for r in state["fs"]:
        if r["n"] == n:
            c = r["e"]["len"]
            if mode and mode["kind"] == "trunc":
                c = min(c, mode["c"])
            return c
    return None


def apply_edge(real, e, rec, hint=None):
    """-> True (in step with the spec) | "resync" """
    op = e["a"]
    real.last_hint = hint
    obs = real.step(op, hint)
    rec.trail.append([op, real.last_hint] if real.last_hint is not None else [op])
    m = rec.meta
    where = f"store={m['store']} configs={m['binding']} ignore_errors={m['ignore']} after {[t[0] for t in rec.trail[-6:]]}"
    if real.texts:
        where = f"sources={real.texts} ({m.get('pair', '')}) " + where
    verdict = True
    if op[0] == "loadclear" and not real.point_reached:
        rec.drift.append(f"{where}: the write never reached {op[3]}@{real.last_hint}")
        del rec.trail[:]
        return "resync"
    if op[0] in ("load", "loadclear"):
        env, n = op[1], op[2]
        allowed = any(real.matches(obs, lab, env, n) for lab in e["allowed"])
        as_model = real.matches(obs, e["res"], env, n)
        if not allowed:
            own = real.cfgs[env - 1]
            want = [real.ref(n, lab[1], real.binding[lab[2]], env) if lab[0] == "render" else lab for lab in e["allowed"]]
            cls = entry_class(e["s"], n, e["s"]["mode"] if m["store"] == "mem" else None)
            if as_model and e["res"][0] == "render" and real.binding[e["res"][2]] != own:
                fp = {"kind": "bcc", "defect": "shared-cache-other-config-code-served",
                      "as_model_key_ignores_config": True}
                what = (f"{where}: environment {env} ({own}) rendered {obs} from code compiled by the other "
                        f"environment ({real.binding[e['res'][2]]}); its own configuration renders {want}")
            elif obs[0] == "exc" and obs[1] in DAMAGE_EXC and cls in (2, 3):
                cause = "client-truncated-value" if m["store"] == "mem" else real.cause.get(n, "crashed-write")
                fp = {"kind": "bcc", "defect": "truncated-in-checksum-raises", "cause": cause}
                what = (f"{where}: entry truncated to length class {cls} (inside / right before the pickled "
                        f"checksum), load raised {obs[1]} instead of being a cache miss; expected {want}")
            else:
                fp = {"kind": "bcc", "defect": "wrong-outcome", "op": op[0], "store": m["store"],
                      "same_config": real.cfgs[0] == real.cfgs[1]}
                during = f" (another environment called clear() at {op[3]}@{real.last_hint} of the write)" \
                    if op[0] == "loadclear" else ""
                cur = e["s"]["src"][n]
                stale = [v for v in (1, 2, 3) if v != cur and (not real.texts or str(v) in real.texts)
                         and obs == real.ref(n, v, own, env)]
                note = ""
                if stale:
                    fp["defect"] = "stale-source-served"
                    note = f", which is what version {stale[0]} of the source ({real.text(n, stale[0])!r}) renders -- " \
                           f"the entry stored for it passed for the current source {real.text(n, cur)!r}"
                what = f"{where}: load by environment {env} ({own}){during} gave {obs}{note}; the property allows only {want}"
                rec.unexpected += 1
            rec.violation(fp["defect"], what, fp, e)
        if not as_model:
            if allowed:
                rec.better += 1
            verdict = "resync"
        elif len(rec.samples) < 2 and len(rec.trail) % 211 == 5:
            rec.samples.append({"store": m["store"], "configs": m["binding"], "history_tail": rec.trail[-5:],
                                "observed": obs})
    elif op[0] == "crash":
        if obs[0] == "load-raised-before-crash-point":
            # the load never got to write: reading the existing entry raised
            n = op[2]
            cls = entry_class(e["s"], n)
            if obs[2] in DAMAGE_EXC and cls in (2, 3):
                fp = {"kind": "bcc", "defect": "truncated-in-checksum-raises",
                      "cause": real.cause.get(n, "crashed-write")}
            else:
                fp = {"kind": "bcc", "defect": "wrong-outcome", "op": "load", "store": m["store"],
                      "same_config": real.cfgs[0] == real.cfgs[1]}
                rec.unexpected += 1
            rec.violation(fp["defect"], f"{where}: entry of length class {cls}: load raised {obs[2]} instead of "
                                        f"being a cache miss followed by a write", fp, e)
            verdict = "resync"
        elif obs[0] != "crashed":
            rec.drift.append(f"{where}: {obs}")
            verdict = "resync"
    # the stored entries
    got, gjunk = real.project()
    want_fs = {r["n"]: r["e"]["len"] for r in e["t"]["fs"]}
    if verdict is True and (got != want_fs or (m["store"] == "fs" and gjunk != e["t"]["junk"])):
        partial = {n: c for n, c in got.items() if c < 6 and want_fs.get(n) in (None, 6)}
        if op[0] == "crash" and partial:
            fp = {"kind": "bcc", "defect": "final-entry-partial-after-interrupted-write", "stage": op[3]}
            rec.violation(fp["defect"],
                          f"{where}: write interrupted at {obs} left a partial final entry {partial} "
                          f"(spec: unchanged or complete: {want_fs})", fp, e)
            rec.unexpected += 1
        elif len(rec.drift) < 5:
            rec.drift.append(f"{where}: stored entries {got} junk={gjunk}, spec {want_fs} junk={e['t']['junk']}")
        verdict = "resync"
    if verdict is not True:
        del rec.trail[:]
    return verdict


def is_init(st):
    return not st["fs"] and not st["junk"] and st["mode"]["kind"] == "ok" and all(v == 1 for v in st["src"].values())


def replay_component(args):
    """walk one real system (store, configuration binding) along every edge, then the byte sweeps"""
    core.use_repo()
    meta, edges, seed, sweep = args
    G = graphwalk.Graph(edges, is_init)
    rec = Recorder(meta)
    counter = [0]

    pool = []

    class Lease:
        """graphwalk closes and re-makes the real system at every restart: hand the same one out again"""

        def __init__(self, real):
            self.real = real

        def __getattr__(self, name):
            return getattr(self.real, name)

        def close(self):
            pool.append(self.real)

    def make():
        counter[0] += 1
        del rec.trail[:]
        if pool:
            real = pool.pop()
            real.reset(seed * 1000 + counter[0])
        else:
            real = Real(meta["store"], meta["binding"], meta["names"], meta["ignore"], seed * 1000 + counter[0])
        return Lease(real)

    def apply(real, e, fresh):
        if rec.unexpected >= 5:
            return False
        return apply_edge(real, e, rec)

    try:
        stats = graphwalk.walk(G, make, apply, max_bad=1)
        stats["sweep_cases"] = 0
        if sweep and meta["store"] == "fs" and rec.unexpected < 5:
            stats["sweep_cases"] = byte_sweeps(G, make, rec, sweep)
    finally:
        for real in pool:
            real.close()
    stats["viol"] = rec.viol
    stats["drift"] = rec.drift[:5]
    stats["better"] = rec.better
    stats["samples"] = rec.samples
    return stats


def framed(frame, body):
    """the template source an edit text of BCCacheSource.tla stands for"""
    if frame == "bare":
        return body
    if frame == "after-long-text":      # the edited characters are the last ones of a long source
        return "long " * 400 + "{{ x }}|" + body
    raise core.MachineryError(f"unknown frame {frame}")


def replay_edit_pairs(args):
    """versions 1, 2 of the load / modify / clear graph bound to every edit pair (old, new) of
    BCCacheSource.tla in turn: two real environments over one real cache walk every edge of it"""
    core.use_repo()
    meta, edges, pairs, seed = args
    G = graphwalk.Graph(edges, is_init)
    rec = Recorder(dict(meta))
    real = Real(meta["store"], meta["binding"], meta["names"], meta["ignore"], seed,
                texts={"1": "", "2": "x"})
    stats = {"edges": 0, "steps": 0, "restarts": 0, "unvisited": 0, "bad": 0, "pairs": 0}
    counter = [0]

    class Lease:
        def __getattr__(self, name):
            return getattr(real, name)

        def close(self):
            pass

    try:
        for old, new, label in pairs:
            if rec.unexpected >= 5:
                break
            texts = {"1": framed(meta["frame"], old), "2": framed(meta["frame"], new)}
            rec.meta = dict(meta, texts=texts, pair=label)

            def make():
                counter[0] += 1
                del rec.trail[:]
                real.reset(seed * 1000 + counter[0], texts)
                return Lease()

            st = graphwalk.walk(G, make, lambda r, e, fresh: apply_edge(r, e, rec), max_bad=1)
            for k in ("edges", "steps", "restarts", "unvisited", "bad"):
                stats[k] += st[k]
            stats["pairs"] += 1
    finally:
        real.close()
    stats["sweep_cases"] = 0
    stats["viol"] = rec.viol
    stats["drift"] = rec.drift[:5]
    stats["better"] = rec.better
    stats["samples"] = rec.samples[:1]
    return stats


def follow(G, node, op):
    ei, e = G.step(node, lambda r: r["a"] == op)
    if e is None:
        raise core.MachineryError(f"spec graph has no edge {op} from state {node}")
    return G.E[ei][1], e


def byte_sweeps(G, make, rec, sweep):
    """every byte offset of a real entry as truncation point, as crash point and as the point where
    another environment's clear() falls, along the spec paths
    clear; load(1); truncate(class of offset); load(e),   clear; crash(1, tempPartial@offset); load(e)   and
    clear; loadclear(e, tempPartial@offset); load(other)"""
    real = make()
    n = real.names[0]
    key = [n, "*"]
    cases = 0
    try:
        node = G.init
        node, e = follow(G, node, ["load", 1, n])
        apply_edge(real, e, rec)
        with open(real.path(n), "rb") as f:
            full = len(f.read())
        tstep, cstep = sweep

        def cls(off):
            m, k = real.magic_end, real.cks_end
            return 0 if off == 0 else 1 if off < m else 2 if off == m else 3 if off < k else 4 if off == k else 5

        boundary = {0, 1, real.magic_end - 1, real.magic_end, real.magic_end + 1, real.cks_end - 1, real.cks_end,
                    real.cks_end + 1, full - 1}
        for off in range(full):
            for env in (1, 2):
                plans = []
                if off % tstep == 0 or off in boundary or real.magic_end <= off <= real.cks_end:
                    plans.append([(["clear"], None), (["load", 1, n], None), (["truncate", key, cls(off)], off),
                                  (["load", env, n], None)])
                if off % cstep == 0 or off in boundary:
                    plans.append([(["clear"], None), (["crash", 1, n, "tempPartial"], off), (["load", env, n], None)])
                    plans.append([(["clear"], None), (["loadclear", env, n, "tempPartial"], off),
                                  (["load", 3 - env, n], None)])
                for plan in plans:
                    cases += 1
                    del rec.trail[:]
                    for op, hint in plan:
                        node, e = follow(G, node, op)
                        apply_edge(real, e, rec, hint)
                    if rec.unexpected >= 5:
                        return cases
    finally:
        real.close()
    return cases


# ---------------------------------------------------------------------------
# code -> spec: file-operation traces of the real write path, validated by TLC (BCCacheWriteTrace.tla)
# ---------------------------------------------------------------------------

def record_write_traces(args):
    """Run the real dump_bytecode undisturbed, killed at every stage / byte offset of the chosen set,
    with a failing write and a failing os.replace; returns [(scenario, [events])]."""
    core.use_repo()
    seed, step = args
    real = Real("fs", {"c1": "plain", "c2": "plain"}, ["t"], True, seed)
    n = "t"
    traces = []
    try:
        _Crash.root = real.dir
        real.step(["load", 1, n])
        with open(real.path(n), "rb") as f:
            full = len(f.read())
        m, k = real.magic_end, real.cks_end

        def cls(pos):
            return 0 if pos == 0 else 1 if pos < m else 2 if pos == m else 3 if pos < k else 4 if pos == k \
                else 5 if pos < full else 6

        def final_event():
            got, _ = real.project()
            junk = len([fn for fn in os.listdir(real.dir) if os.path.join(real.dir, fn) != real.path(n)])
            ev = {"ev": "final", "c": got.get(n, -1), "junk": junk, "p": 0}
            if ev["c"] == 6:
                ev["tag"] = real.entry_version(n)
            return ev

        def scenario(name, steps):
            """steps: list of ("load",) ("kill", stage, off) ("fault", kind, off) ("clear",) ("modify", v)"""
            real.reset(seed)
            _Crash.root = real.dir
            _Crash.proc = _Crash.tag = 1
            log = _Crash.log = []
            try:
                for st in steps:
                    if st[0] == "load":
                        o = real.step(["load", 1, n])
                        log.append({"ev": "loaded" if o[0] == "text" else "raised"})
                    elif st[0] == "loadclear":
                        o = real.load_during_clear(1, n, st[1], st[2])
                        log.append({"ev": "loaded" if o[0] == "text" else "raised"})
                    elif st[0] == "loadwrite":
                        o, _ = real.load_during_write(1, n, st[1], st[2], st[3])
                        log.append({"ev": "loaded" if o[0] == "text" else "raised", "p": 1})
                        _Crash.tag = st[3]
                    elif st[0] == "kill":
                        real.crash(1, n, st[1], st[2])
                    elif st[0] == "fault":
                        _Crash.fault = (st[1], st[2])
                        try:
                            real.envs[0].get_template(n)
                            log.append({"ev": "loaded"})
                        except BaseException:  # noqa  (the injected error propagates, as documented)
                            log.append({"ev": "raised"})
                        _Crash.fault = None
                    elif st[0] == "clear":
                        _Crash.log = None
                        real.bc.clear()
                        _Crash.log = log
                        log.append({"ev": "clear"})
                    elif st[0] == "modify":
                        real.step(["modify", n, st[1]])
                        _Crash.tag = st[1]
                    log.append(final_event())
            finally:
                _Crash.log = None
                _Crash.fault = None
                _Crash.proc = _Crash.tag = 1
            ids = {}
            for e in log:
                e.setdefault("p", 1)
                if e["ev"] == "write":
                    e["c"] = cls(e.pop("pos"))
                elif e["ev"] == "create":      # temporary files numbered in order of first appearance
                    e["name"] = ids.setdefault(e.pop("file"), len(ids) + 1)
            traces.append((name, log))

        boundary = {0, 1, m - 1, m, m + 1, k - 1, k, k + 1, full - 1}
        offsets = [o for o in range(full) if o % step == 0 or o in boundary]
        scenario("normal", [("load",)])
        scenario("rewrite after source change", [("load",), ("modify", 2), ("load",), ("load",)])
        scenario("clear and write again", [("load",), ("clear",), ("load",)])
        scenario("replace fails with OSError", [("fault", "replace-oserror", 0), ("load",)])
        scenario("replace interrupted", [("load",), ("modify", 2), ("fault", "replace-interrupt", 0), ("load",)])
        for stage in ("preTemp", "tempFull"):
            scenario(f"another environment clears at {stage}", [("loadclear", stage, 0), ("load",)])
            scenario(f"another environment clears at {stage}, over an old entry",
                     [("load",), ("modify", 2), ("loadclear", stage, 0), ("load",)])
        for stage in ("preTemp", "tempFull", "replaced"):
            scenario(f"killed at {stage}", [("kill", stage, 0), ("load",)])
            scenario(f"killed at {stage} over an old entry", [("load",), ("modify", 2), ("kill", stage, 0), ("load",)])
        # two writers of the same key, interleaved: the source changes and a second environment (own cache
        # object, same directory) stores the entry while the first is at `stage` of its write
        for stage in ("preTemp", "tempFull"):
            scenario(f"another environment writes the changed source at {stage}",
                     [("loadwrite", stage, 0, 2), ("load",), ("load",)])
            scenario(f"another environment writes the changed source at {stage}, over an old entry, then a kill",
                     [("load",), ("modify", 2), ("loadwrite", stage, 0, 3), ("load",), ("modify", 2), ("kill", "tempPartial", k),
                      ("load",)])
        for off in offsets:
            if off % (step * 3) == 0 or off in boundary:
                scenario(f"another environment writes the changed source after {off} bytes",
                         [("loadwrite", "tempPartial", off, 2), ("load",), ("load",)])
            if off in boundary:
                scenario(f"another environment writes the changed source after {off} bytes, over an old entry",
                         [("load",), ("modify", 2), ("loadwrite", "tempPartial", off, 3), ("load",)])
            scenario(f"killed after {off} bytes", [("kill", "tempPartial", off), ("load",)])
            scenario(f"another environment clears after {off} bytes", [("loadclear", "tempPartial", off), ("load",)])
            if off % (step * 3) == 0 or off in boundary:
                scenario(f"write fails after {off} bytes", [("fault", "write-oserror", off), ("load",)])
                scenario(f"killed after {off} bytes over an old entry, twice",
                         [("load",), ("modify", 2), ("kill", "tempPartial", off), ("kill", "tempPartial", off),
                          ("clear",), ("load",)])
    finally:
        _Crash.root = None
        real.close()
    return traces


def validate_write_traces(ck, traces):
    d = core.workdir(PID, "wtraces")
    tf = d / "traces.json"
    tf.write_text(json.dumps([t for _, t in traces]))
    cfg = """CONSTANTS
  Procs = {1, 2}
  Tags = {1, 2, 3}
  UseTemp = TRUE
  MaxJunk = 9
  None = None
  TempIds = {1, 2, 3, 4, 5, 6, 7, 8, 9, 10, 11, 12}
  UniqueTemp = TRUE
SPECIFICATION TSpec
CONSTRAINT Collect
INVARIANT C27_FinalNeverPartial
POSTCONDITION Post
"""
    r = core.run_tlc(PID, "BCCacheWriteTrace", cfg, workers=1, env={"TRACE_FILE": str(tf)}, name="tlc_wtraces",
                     timeout=1800, heap="2g")
    ck.add_tlc(r, "BCCacheWriteTrace (real file-operation traces)")
    rejected = None
    for line in r.printed():
        if line.startswith('{"rejected"'):
            rejected = sorted(json.loads(line)["rejected"])
    if rejected is None:
        raise core.MachineryError("BCCacheWriteTrace: no REJECTED line in TLC output")
    bad = 0
    for idx in rejected:
        name, tr = traces[idx - 1]
        partial = [e for e in tr if e["ev"] == "final" and 0 <= e["c"] < 6]
        raised = [j for j, e in enumerate(tr) if e["ev"] == "raised"
                  and not any(x["ev"] == "fault" for x in tr[max(0, j - 6):j])]
        creates = [e for e in tr if e["ev"] == "create"]
        live, shared = {}, []         # writer -> name of its temporary file while it is in progress
        for e in tr:
            if e["ev"] == "create":
                if any(nm == e["name"] for q, nm in live.items() if q != e["p"]):
                    shared.append(e)
                live[e["p"]] = e["name"]
            elif e["ev"] in ("rename", "remove", "killed"):
                live.pop(e["p"], None)
        mixed = [e for e in tr if e["ev"] == "final" and e["c"] == 6 and e.get("tag") == 0]
        if mixed:
            bad += 1
            ck.violation({"kind": "write-trace", "scenario": name, "trace": tr},
                         f"write path, scenario '{name}': the stored entry carries the checksum of one source version "
                         f"and code that does not belong to it (two writers' bytes mixed): it passes for up to date and "
                         f"stale code is served; file operations {[(e['p'], e['ev'], e.get('name')) for e in tr if e['ev'] in ('create', 'rename', 'rename-failed')]} "
                         f"are not a behaviour of BCCacheWrite.tla",
                         {"kind": "bcc", "defect": "final-entry-mixes-two-writers", "stage": "trace"})
        elif shared:
            bad += 1
            ck.violation({"kind": "write-trace", "scenario": name, "trace": tr},
                         f"write path, scenario '{name}': two writers of the same key used the SAME temporary file "
                         f"(name #{shared[0]['name']}): BCCacheWrite.tla demands a private temporary file per writer "
                         f"(C27_TempNamesPrivate), TLC rejects the trace {[(e['p'], e['ev']) for e in tr][:14]}",
                         {"kind": "bcc", "defect": "temp-file-shared-by-two-writers", "stage": "trace"})
        elif partial:
            bad += 1
            ck.violation({"kind": "write-trace", "scenario": name, "trace": tr},
                         f"write path, scenario '{name}': the file operations {[e['ev'] for e in tr]} are not a "
                         f"behaviour of the temp-file + replace protocol and left a partial final entry {partial[0]}",
                         {"kind": "bcc", "defect": "final-entry-partial-after-interrupted-write", "stage": "trace"})
        elif raised:
            bad += 1
            ck.violation({"kind": "write-trace", "scenario": name, "trace": tr},
                         f"write path, scenario '{name}': the load raised although nothing was made to fail; its file "
                         f"operations {[e['ev'] for e in tr]} are not a behaviour of the temp-file + replace protocol "
                         f"(a concurrent clear() may only cause a miss)",
                         {"kind": "bcc", "defect": "load-raised-in-write-path", "stage": "trace"})
        else:
            ck.extra.setdefault("drift", []).append(
                f"write-path trace '{name}' is not a behaviour of BCCacheWrite.tla: {[e['ev'] for e in tr]}"[:300])
    ck.extra["write_traces_validated"] = len(traces)
    ck.extra["write_traces_rejected"] = len(rejected)
    return len(traces)


# ---------------------------------------------------------------------------
# one file under several template names (spec/BCCacheAlias.tla)
# ---------------------------------------------------------------------------

# search path [root, root/theme]: root/theme/page.html is "theme/page.html", "page.html" and "./page.html"
ALIAS_NAMES = {"theme/page.html": "fp", "page.html": "fp", "./page.html": "fp", "other.html": "fo"}
ALIAS_FILES = {"fp": "theme/page.html", "fo": "other.html"}


def alias_tlc(tag, *, mode="name+file", graph=False, invariants=("TypeOK", "C27_CodeCompiledForOwnName",
                                                                 "C27_EntriesKeptApartByName")):
    d = core.workdir(PID, f"mc_{tag}")
    mod = d / "MCBCCacheAlias.tla"
    fo = " @@ ".join(f'{core.tla_str(n)} :> {core.tla_str(f)}' for n, f in ALIAS_NAMES.items())
    mod.write_text(f"""---- MODULE MCBCCacheAlias ----
EXTENDS BCCacheAlias
MCNames == {core.tla_str(set(ALIAS_NAMES))}
MCFiles == {core.tla_str(set(ALIAS_FILES))}
MCFileOf == {fo}
====
""")
    cfg = f"""CONSTANTS
  Names <- MCNames
  Files <- MCFiles
  FileOf <- MCFileOf
  NVersions = 2
  KeyMode = "{mode}"
  None = None
  EmitGraph = {"TRUE" if graph else "FALSE"}
SPECIFICATION Spec
""" + "".join(f"INVARIANT {i}\n" for i in invariants)
    return core.run_tlc(PID, "MCBCCacheAlias", cfg, workers=2, name=f"tlc_{tag}", extra_modules=[mod],
                        timeout=1800, heap="1g")


def alias_source(f, v):
    # shows the template's own name three ways: {{ self }}, a relative include resolved by join_path, Template.name
    return "{{ self }}|{% include './header.html' %}|" + f"{f}.v{v}"


def replay_alias(args):
    """walk a real environment (FileSystemLoader over [root, root/theme], join_path resolving './x' relative to
    the including template, real FileSystemBytecodeCache; a fresh Environment + cache object per load) along
    every edge of BCCacheAlias.tla's graph; a load must show what a cache-less environment shows for TLC's
    `allowed` = (current version of the file, compiled for the loaded name)"""
    core.use_repo()
    import posixpath
    import jinja2
    edges, seed = args

    class RelEnvironment(jinja2.Environment):
        def join_path(self, template, parent):
            if template.startswith("./"):
                return posixpath.normpath(posixpath.join(posixpath.dirname(parent), template))
            return template

    root = tempfile.mkdtemp(prefix="jv_c27a_", dir=SCRATCH)
    cdir = tempfile.mkdtemp(prefix="jv_c27c_", dir=SCRATCH)
    os.mkdir(os.path.join(root, "theme"))
    for p_, t in (("header.html", "ROOT-HEADER"), ("theme/header.html", "THEME-HEADER")):
        with open(os.path.join(root, p_), "w") as f:
            f.write(t)
    stamp = [0]

    def put(f, v):
        p_ = os.path.join(root, ALIAS_FILES[f])
        with open(p_, "w") as fh:
            fh.write(alias_source(f, v))
        stamp[0] += 10
        os.utime(p_, (1_000_000 + stamp[0], 1_000_000 + stamp[0]))

    def env(cached):
        return RelEnvironment(loader=jinja2.FileSystemLoader([root, os.path.join(root, "theme")]), cache_size=0,
                              bytecode_cache=jinja2.FileSystemBytecodeCache(cdir) if cached else None)

    def show(e, n):
        def go():
            t = e.get_template(n)
            return [t.name, t.render()]
        return observe(go)

    rec = Recorder({"kind": "alias"})
    viol = []

    class RealA:
        def close(self):
            pass

    def make():
        del rec.trail[:]
        for f in ALIAS_FILES:
            put(f, 1)
        for fn in os.listdir(cdir):
            os.remove(os.path.join(cdir, fn))
        return RealA()

    def apply(real, e, fresh):
        op = e["a"]
        rec.trail.append(op)
        if op[0] == "modify":
            put(op[1], op[2])
        elif op[0] == "clear":
            jinja2.FileSystemBytecodeCache(cdir).clear()
        elif op[0] == "load":
            n = op[1]
            got = show(env(True), n)
            al, res = e["allowed"], e["res"]
            if al["v"] != e["s"]["src"][ALIAS_NAMES[n]] or al["n"] != n:
                raise core.MachineryError(f"BCCacheAlias: allowed {al} is not the current source for {n}")
            want = show(env(False), al["n"])       # the property's own oracle: a cache-less environment
            if got != want:
                other = [m for m in ALIAS_NAMES if m != n and ALIAS_NAMES[m] == ALIAS_NAMES[n]
                         and got == show(env(False), m)]
                fp = {"kind": "bcc", "defect": "code-of-another-template-name-served" if other else "wrong-outcome-alias"}
                if len(viol) < 3:
                    viol.append({"case": {"kind": "alias", "ops": list(rec.trail)}, "fp": fp,
                                 "what": f"one file under several template names, search path [root, root/theme], after "
                                         f"{rec.trail[-5:]}: loading {n!r} through the bytecode cache gave {got}"
                                         + (f", which is what template {other[0]!r} (same file) shows" if other else "")
                                         + f"; a cache-less environment shows {want} (spec: code compiled for name "
                                         f"{al['n']!r} from version {al['v']})"})
                return "resync" if res == al else True
        return True

    try:
        G = graphwalk.Graph(edges, lambda st: not st["fs"] and all(v == 1 for v in st["src"].values()))
        stats = graphwalk.walk(G, make, apply, max_bad=1)
    finally:
        shutil.rmtree(root, ignore_errors=True)
        shutil.rmtree(cdir, ignore_errors=True)
    stats["viol"] = viol
    return stats


def edges_of(r):
    seen, out = set(), []
    for line in r.printed():
        if line.startswith('{"s"') and line not in seen:
            seen.add(line)
            out.append(json.loads(line))
    if not out:
        raise core.MachineryError("BCCache graph: TLC printed no edges")
    return out


def expect_refuted(ck, r, inv, label):
    ck.tlc_runs.append({"spec": label, "distinct_states": r.distinct, "states_generated": r.generated,
                        "depth": r.depth, "wall_s": round(r.wall, 2), "expected": f"{inv} refuted"})
    ck.states += r.distinct
    ck.transitions += r.generated
    ok = inv in r.invariant_violated
    ck.extra.setdefault("model_refutations", {})[label] = ok
    if not ok:
        raise core.MachineryError(f"self-test failed: {label} did not refute {inv}")


def load_own_findings(ck):
    """findings.d/C27.json holds the genuine defects this check found; honour them until the
    maintainer has merged them into known_findings.json"""
    f = core.VERIF / "findings.d" / "C27.json"
    if f.exists():
        have = {k["id"] for k in core.load_known()}      # merged entries (open or fixed) take precedence
        for k in json.loads(f.read_text()):
            if k["id"] not in have and k.get("status") == "open" and k["property"] == PID:
                ck._known.append(k)


def run(ck):
    import time
    quick = ck.tier == "quick"
    load_own_findings(ck)
    t0 = time.time()
    with ThreadPoolExecutor(6) as ex:
        # -- 1. model checking -------------------------------------------------------------------
        mc = {
            "intended fs 2 configs": ex.submit(bcc_tlc, "int_fs", keycfg=True, coverage=quick,
                                               stages=("tempPartial", "replaced") if quick else ALL_STAGES),
            "intended fs 2 names": ex.submit(bcc_tlc, "int_fs2", keycfg=True, names=("t", "u"),
                                             trunc=(3,) if quick else (3, 5), foreign=False,
                                             stages=("tempPartial",) if quick else ("tempPartial", "replaced"),
                                             workers=4 if quick else 8),
            "intended mem ignore": ex.submit(bcc_tlc, "int_mem1", keycfg=True, store="mem", ignore=True),
            "intended mem no-ignore": ex.submit(bcc_tlc, "int_mem0", keycfg=True, store="mem", ignore=False),
            "as implemented, same config": ex.submit(bcc_tlc, "impl_same", cfgof=("c1", "c1")),
            "write protocol 2 procs": ex.submit(write_tlc, "w2", procs=2, coverage=quick),
        }
        # the source texts behind the versions: every one-character edit of every text of the bounded family
        src = {"source texts, one edit": ex.submit(src_tlc, "src", alpha=ALPHABET + ([] if quick else ALPHABET_MORE),
                                                   maxlen=2, emit=True)}
        if not quick:
            src["source texts, one edit, 3 characters"] = ex.submit(src_tlc, "src3", alpha=ALPHABET_3, maxlen=3, emit=True)
        if not quick:
            mc["write protocol 3 procs"] = ex.submit(write_tlc, "w3", procs=3)
            mc["intended fs 3 versions"] = ex.submit(bcc_tlc, "int_fs3", keycfg=True, nversions=3)
        ref = {
            "key ignores configuration (F3)": (ex.submit(bcc_tlc, "impl_key", invariants=["C27_RendersCurrentSourceUnderOwnConfig"]),
                                               "C27_RendersCurrentSourceUnderOwnConfig"),
            "unguarded checksum read (F2)": (ex.submit(bcc_tlc, "impl_read", keycfg=True, guarded=False,
                                                       invariants=["C27_DamagedIsMiss"]), "C27_DamagedIsMiss"),
            "direct write instead of temp+replace": (ex.submit(write_tlc, "wdirect", use_temp=False),
                                                     "C27_FinalNeverPartial"),
            "one fixed temporary name shared by all writers": (
                ex.submit(write_tlc, "wfixed", unique=False, invariants=["C27_FinalNeverPartial"]), "C27_FinalNeverPartial"),
            "checksum over line-normalised source": (ex.submit(src_tlc, "src_lines", alpha=ALPHABET, maxlen=1, cks="lines"),
                                                     "C27_ChecksumSeparatesSources"),
        }
        # -- 2. graphs for the replay (mechanism-shaped key, guarded read) ------------------------
        gr = {
            "same": ex.submit(bcc_tlc, "g_same", cfgof=("c1", "c1"), stages=("tempPartial",), graph=True),
            "diff": ex.submit(bcc_tlc, "g_diff", stages=("tempPartial",), graph=True),
            "crash": ex.submit(bcc_tlc, "g_crash", trunc=(3,), foreign=False, graph=True),
            "names2": ex.submit(bcc_tlc, "g_names2", names=("t", "u"), trunc=(), foreign=False,
                                stages=("tempPartial",), graph=True),
            "mem1": ex.submit(bcc_tlc, "g_mem1", store="mem", ignore=True, graph=True),
            "mem0": ex.submit(bcc_tlc, "g_mem0", store="mem", ignore=False, graph=True),
            "edit": ex.submit(bcc_tlc, "g_edit", cfgof=("c1",), trunc=(), foreign=False, stages=(),
                              clear_stages=(), graph=True),
        }
        alias = ex.submit(alias_tlc, "alias", graph=True)      # invariants checked and graph printed in one run
        ref["key = file name alone (one file, several template names)"] = (
            ex.submit(alias_tlc, "alias_file", mode="file", invariants=("C27_CodeCompiledForOwnName",)),
            "C27_CodeCompiledForOwnName")
        for label, f in mc.items():
            r = f.result()
            ck.add_tlc(r, f"BCCache {label}")
            if quick and label == "intended fs 2 configs":
                ck.require_coverage(r, ["Load", "CrashedLoad", "Modify", "Clear", "Truncate", "ForeignMagic"])
            if quick and label == "write protocol 2 procs":
                ck.require_coverage(r, ["CreateTemp", "Write", "CloseTemp", "Replace", "Crash", "Read", "ClearAll",
                                        "WriteFails", "ReplaceFails"])
        for label, (f, inv) in ref.items():
            expect_refuted(ck, f.result(), inv, label)
        graphs = {}
        for label, f in gr.items():
            r = f.result()
            ck.add_tlc(r, f"BCCache graph {label}")
            graphs[label] = edges_of(r)
        r = alias.result()
        ck.add_tlc(r, "BCCacheAlias key = name + file name (+ graph)")
        alias_edges = edges_of(r)
        pairs = {}
        for label, f in src.items():
            r = f.result()
            ck.add_tlc(r, f"BCCacheSource {label}")
            pairs[label] = edit_pairs_of(r)
    t1 = time.time()
    # -- 3. replay -----------------------------------------------------------------------------------
    same_b = [("plain", "plain")] + ([] if quick else [("async", "async"), ("sandboxed", "sandboxed")])
    diff_b = [("plain", "autoescape"), ("plain", "sandboxed"), ("plain", "async"), ("plain", "trim")]
    if not quick:
        diff_b += [("autoescape", "sandboxed"), ("async", "trim")]
    tasks = []

    def task(store, b, names, ignore, edges, sweep):
        meta = {"store": store, "binding": {"c1": b[0], "c2": b[1]}, "names": list(names), "ignore": ignore}
        tasks.append((meta, edges, ck.seed * 97 + len(tasks), sweep))

    for i, b in enumerate(same_b):
        task("fs", b, ["t"], True, graphs["same"], (2 if quick else 1, 7 if quick else 1) if i == 0 or not quick else None)
    for i, b in enumerate(diff_b):
        task("fs", b, ["t"], True, graphs["diff"], ((2 if quick else 1, 7 if quick else 1) if i == 0 or not quick else None))
    for b in diff_b[: 2 if quick else len(diff_b)]:
        task("fs", b, ["t", "u"], True, graphs["names2"], None)
        task("fs", b, ["t"], True, graphs["crash"], None)
    for b in ([("plain", "plain"), ("plain", "autoescape")] if quick else same_b + diff_b):
        task("mem", b, ["t"], True, graphs["mem1"], None)
        task("mem", b, ["t"], False, graphs["mem0"], None)
    tasks.sort(key=lambda t: -(len(t[1]) + (40000 if t[3] else 0)))
    # versions 1, 2 bound to every edit pair of BCCacheSource.tla (both environments the same configuration)
    etasks = []
    # (keep_trailing_newline shows every character of the source in the output; the default configuration
    # drops one final newline, so an edit of it cannot be observed there)
    variants = [("ktn", "bare"), ("plain", "after-long-text")]
    if not quick:
        variants += [("plain", "bare"), ("ktn", "after-long-text"), ("trim", "bare"), ("sandboxed", "after-long-text")]
    for label, plist in pairs.items():
        vs = variants if "3 characters" not in label else variants[:1]
        nchunks = max(1, min(16, len(plist) // 150))
        for cfg, frame in vs:
            for i in range(nchunks):
                meta = {"store": "fs", "binding": {"c1": cfg, "c2": cfg}, "names": ["t"], "ignore": True, "frame": frame}
                etasks.append((meta, graphs["edit"], plist[i::nchunks], ck.seed * 89 + len(etasks)))
    ck.extra["edit_pairs"] = {label: len(plist) for label, plist in pairs.items()}
    ck.extra["edit_pair_variants"] = [f"{c} / {f}" for c, f in variants]
    edges = steps = sweeps = better = unvisited = 0
    drift = []
    with ProcessPoolExecutor(max_workers=16) as ex:
        wt = ex.submit(record_write_traces, (ck.seed, 9 if quick else 1))
        al = ex.submit(replay_alias, (alias_edges, ck.seed))
        results = [ex.submit(replay_component, t) for t in tasks]
        eresults = [ex.submit(replay_edit_pairs, t) for t in etasks]
        results = [f.result() for f in results]
        t2 = time.time()
        ntraces = validate_write_traces(ck, wt.result())
        eresults = [f.result() for f in eresults]
        ast_ = al.result()
        ck.extra["alias_edges_replayed"] = ast_["edges"]
        edges += ast_["edges"]
        steps += ast_["steps"]
        for v in ast_["viol"]:
            ck.violation(v["case"], v["what"], v["fp"])
        ck.extra["phase_wall_s"] = {"tlc": round(t1 - t0, 1), "graph_replay": round(t2 - t1, 1),
                                    "traces_and_edit_pairs_after_that": round(time.time() - t2, 1)}
        ck.extra["edit_pair_walks"] = sum(st["pairs"] for st in eresults)
        for t, st in list(zip(tasks, results)) + list(zip(etasks, eresults)):
            edges += st["edges"]
            steps += st["steps"]
            sweeps += st["sweep_cases"]
            better += st["better"]
            unvisited += st["unvisited"]
            drift += st["drift"]
            for s in st["samples"]:
                ck.sample(s)
            for _, (count, examples) in sorted(st["viol"].items()):
                for i in range(count):
                    # further cases of one fingerprint in a component are counted only when known
                    ex_ = examples[min(i, len(examples) - 1)]
                    if i < len(examples) or _known(ck, ex_["fp"]):
                        ck.violation(ex_["case"], ex_["what"], ex_["fp"])
    ck.traces = edges + sweeps + ntraces
    ck.evaluations = steps
    ck.extra.update({
        "graph_edges_replayed": edges, "real_steps_executed": steps, "byte_offset_cases": sweeps,
        "components": len(tasks) + len(etasks), "edges_not_reached_because_the_code_left_the_model": unvisited,
        "loads_better_than_modelled_mechanism": better,
    })
    if drift:
        ck.extra["drift"] = drift[:10]
        for d in drift[:3]:
            print(f"SPEC-DRIFT property=C27 {d}"[:400])
    ck.extra["excluded_shapes"] = [
        "entries whose bytes are altered other than by losing a tail or by another interpreter's magic "
        "(bit flips inside the marshalled code): the property speaks of truncated / foreign / stale entries",
        "a memcache client that fails with ignore_memcache_errors=False: the client's error propagates, as documented",
        "concurrent processes are model-checked (BCCacheWrite.tla) but replayed only as interrupted writes",
    ]
    ck.exhaustive = not quick
    ck.extra["exhaustive_note"] = ("every transition of the bounded state graphs is replayed; byte offsets: "
                                   "truncation every 2nd offset + the whole checksum range + class boundaries, crash every 7th offset + boundaries in quick; every offset in thorough")
    ck.assumptions += [
        "killing a forked child at a file operation / after n flushed bytes is what an interrupted write leaves behind",
        "a cache-less environment of the same configuration is the reference for 'what compiling the current source renders'",
    ]


def _known(ck, fp):
    return any(core._fp_match(k["fingerprint"], fp) for k in ck._known)


def replay(ck, rec):
    load_own_findings(ck)
    case = rec["case"]
    meta = {k: case[k] for k in ("store", "binding", "names", "ignore")}
    real = Real(meta["store"], meta["binding"], meta["names"], meta["ignore"], 1, texts=case.get("texts"))
    r = Recorder(dict(meta, **{k: case[k] for k in ("texts", "pair", "frame") if k in case}))
    try:
        for item in case["ops"][:-1]:
            real.step(item[0], item[1] if len(item) > 1 else None)
        last = case["ops"][-1]
        r.trail = [list(x) for x in case["ops"][:-1]]
        apply_edge(real, case["expect"], r, last[1] if len(last) > 1 else None)
    finally:
        real.close()
    for _, (count, examples) in r.viol.items():
        for ex_ in examples:
            ck.violation(ex_["case"], ex_["what"], ex_["fp"])
