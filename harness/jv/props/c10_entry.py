"""C10 (first sentence): render, generate, stream (any buffer size), dump and str(module)
produce the same text - the text spec/Jinja.tla defines for the program."""
from __future__ import annotations

import io
import os
import tempfile
from concurrent.futures import ProcessPoolExecutor

from .. import core, jgen, jrun
from .. import jast as J


def _work(args):
    core.use_repo()
    case, obs_by_d = args
    out, n = [], 0
    env, srcs = jrun.make_env(case)
    if case.get("tglobals"):
        t = env.get_template(case["main"], globals={k: J.to_py(v, case["objs"], [], {}) for k, v in case["tglobals"].items()})
    else:
        t = env.get_template(case["main"])
    for di, obs in obs_by_d.items():
        if obs["err"]:
            continue
        exp = J.expected_text(obs["out"])
        def data():
            return {k: J.to_py(v, case["objs"], [], {}) for k, v in case["datas"][di - 1].items()}
        got = {}
        try:
            got["render"] = t.render(**data())
            got["generate"] = "".join(t.generate(**data()))
            got["stream"] = "".join(t.stream(**data()))
            for size in (2, 3, 5, 8):
                st = t.stream(**data())
                st.enable_buffering(size)
                chunks = list(st)
                got[f"stream/{size}"] = "".join(chunks)
            bio = io.BytesIO()
            t.stream(**data()).dump(bio, encoding="utf-8")
            got["dump(fileobj,utf-8)"] = bio.getvalue().decode("utf-8")
            for enc in ("utf-16", "utf-8-sig", "iso2022_jp", "hz", "utf-32"):
                bio = io.BytesIO()
                try:
                    want = exp.encode(enc)
                except UnicodeEncodeError:
                    continue
                t.stream(**data()).dump(bio, encoding=enc)
                # compare the bytes: a stateful codec must be flushed exactly once, at the end
                got[f"dump(fileobj,{enc})"] = exp if bio.getvalue() == want else f"bytes {bio.getvalue()!r} != {want!r}"
                st = t.stream(**data()); st.enable_buffering(2)
                bio = io.BytesIO(); st.dump(bio, encoding=enc)
                got[f"dump(buffered,{enc})"] = exp if bio.getvalue() == want else f"bytes {bio.getvalue()!r} != {want!r}"
            bio = io.BytesIO()
            st = t.stream(**data()); st.enable_buffering(3); st.dump(bio, encoding="latin-1", errors="xmlcharrefreplace")
            got["dump(buffered,latin-1)"] = exp if bio.getvalue() == exp.encode("latin-1", "xmlcharrefreplace") else repr(bio.getvalue())
            sio = io.StringIO()
            t.stream(**data()).dump(sio)
            got["dump(text fileobj)"] = sio.getvalue()
            fd, path = tempfile.mkstemp(prefix="jvc10_")
            os.close(fd)
            try:
                t.stream(**data()).dump(path)
                got["dump(path)"] = open(path, "rb").read().decode("utf-8")
            finally:
                os.unlink(path)
            got["str(make_module(vars))"] = str(t.make_module(data()))
        except Exception as e:  # noqa
            got["exception"] = repr(e)[:200]
        n += len(got)
        for how, text in got.items():
            if text != exp:
                out.append({"case": case["id"], "d": di, "how": how, "expected": exp, "actual": text, "src": srcs})
    return out, n


def fp(m):
    f = {"kind": "entry-point-mismatch", "how": m["how"]}
    return f


def run(ck):
    quick = ck.tier == "quick"
    cases = jgen.corpus(ck.seed + 10, *((120, 80, 80, 60) if quick else (3000, 1500, 1500, 1000)))
    # stateful codecs need non-ASCII text and empty outputs to show a missing flush / doubled mark
    N, C = J.Name, J.Const
    jp = [{"s": J.vstr("\u65e5\u672c"), "t": J.vstr("x\u8a9e"), "c": J.vbool(True)}, {"s": J.vstr(""), "t": J.vstr("\u672c"), "c": J.vbool(False)}]
    for body in ([J.Out(N("s")), J.Text("a"), J.Out(N("t"))], [J.If([N("c")], [[J.Out(N("s"))]])], [J.If([C(False)], [[J.Text("x")]])],
                 [J.For(J.TName("i"), J.List([C(1), C(2)]), [J.Out(N("t")), J.Out(N("i"))])], [J.Text("k"), J.Out(N("t"))]):
        cases.append(J.make_case(len(cases) + 1, {"main": J.template(body, False)}, "main", jp))
    # every assignment form in every kind of scope: what a template exports (and so what its module is made of) is
    # decided per form and scope; the module entry point must still give the text of the other entry points
    forms = [lambda: ([J.Set("ea", C(1))], ["ea"]),
             lambda: ([J.Set(J.TTuple([J.TName("eb"), J.TName("ec")]), J.List([C(1), N("s")], tup=True))], ["eb", "ec"]),
             lambda: ([J.SetBlock("ed", [J.Text("x"), J.Out(N("s"))])], ["ed"]),
             lambda: ([J.Macro("em", [], [], [J.Text("m")])], ["em"]),
             lambda: ([J.Set("ea", C(1)), J.Set(J.TTuple([J.TName("ea"), J.TName("ef")]), J.List([C(3), C(4)], tup=True))], ["ea", "ef"])]
    scopes = [lambda b: b, lambda b: [J.For(J.TName("i"), J.List([C(1), C(2)]), b)], lambda b: [J.If([N("c")], [b], [J.Text("E")])],
              lambda b: [J.With([("w", C(1))], b)], lambda b: [J.Block("bb", b)],
              lambda b: [J.Macro("mm", [], [], b), J.Out(J.Call(N("mm")))], lambda b: [J.For(J.TName("i"), J.List([]), [J.Text("-")], b)],
              lambda b: [J.For(J.TName("i"), J.List([C(1)]), [J.If([N("c")], [b])])],
              lambda b: [J.For(J.TName("i"), J.List([C(1)]), [J.For(J.TName("j"), J.List([C(1), C(2)]), b)])]]
    for fm in forms:
        for sc in scopes:
            stm, names = fm()
            body = [J.Text("A")] + sc(stm + [J.Out(N(names[0]))]) + [J.Text("|")] + [J.Out(J.Test(N(nm), "defined")) for nm in names]
            cases.append(J.make_case(len(cases) + 1, {"main": J.template(body, False)}, "main", jp))
    obs, r = jrun.spec_results("C10", cases, name="entry", timeout=3000)
    ck.add_tlc(r, f"Jinja.tla ({len(cases)} programs)")
    by_case = {}
    for (cid, di), o in obs.items():
        by_case.setdefault(cid, {})[di] = o
    cmap = {c["id"]: c for c in cases}
    total = 0
    with ProcessPoolExecutor(max_workers=16) as ex:
        for mism, n in ex.map(_work, [(c, by_case[c["id"]]) for c in cases], chunksize=8):
            total += n
            for m in mism:
                ck.violation({"kind": "entry", "case": cmap[m["case"]], "d": m["d"], "how": m["how"], "src": m["src"]},
                             f"{m['how']} of case {m['case']} data#{m['d']} gives {m['actual']!r:.150}, expected {m['expected']!r:.150}",
                             fp(m))
    ck.traces += total
    ck.evaluations += total
    ck.extra["entry_point_results_compared"] = total
    ck.exhaustive = False


def replay(ck, rec):
    case = rec["case"]["case"]
    obs, r = jrun.spec_results("C10", [case], name="replay", workers=2)
    by = {}
    for (cid, di), o in obs.items():
        by.setdefault(cid, {})[di] = o
    mism, n = _work((case, by[case["id"]]))
    for m in mism:
        ck.violation(rec["case"], f"{m['how']} still differs", fp(m))
