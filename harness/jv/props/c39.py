"""C39 - the raw token stream is lossless and line-accurate.

Specs: spec/Lexer.tla (operational token stream as <<lineno, type, start, end>>
ranges), spec/LexerRules.tla (what the documented rules remove), spec/Text.tla.
TLC checks C39_Lossless (tokens in order, disjoint; the gaps between them are
exactly the whitespace the declared rules remove on the left of tags, what is
removed on the right travels inside the tag's end token) and C39_LineAccurate
(every token carries 1 + the number of line feeds before its start) and prints
the token stream of every case.  spec->code: list(Environment.lex(source)) must
be that stream (types, line numbers, values = slices of the concrete source;
tokens between a tag's begin and end are compared as whitespace / non-whitespace
runs because Literals/C14 own their inner structure).
"""
from __future__ import annotations

import random

from .. import core
from .. import lexer_util as lu
from .c12 import check_records, four_cfgs  # noqa: F401
from .c12 import replay as _replay12

JUNK_INV = ["C11_NormalizeAgrees", "C11_PlainVerbatim", "C39_LineAccurate", "C39_Lossless",
            "C12_VariableTagsUntouchedByOptions"]


def line_cfgs():
    out = []
    for fam in ("default", "asp", "multi", "pct", "angle"):
        for t, l in ((False, False), (True, True), (True, False), (False, True)):
            out.append(lu.make_cfg(fam, trim=t, lstrip=l))
    for fam in lu.NEIGHBOURS:
        out.append(lu.make_cfg(fam))
    # neighbours in the other settings: only keep_trailing_newline / newline sequence / one prefix differs
    out.append(lu.make_cfg("default", keep=True))
    out.append(lu.make_cfg("default", nl="rn"))
    out.append(lu.make_cfg("default", lsp="%"))
    out.append(lu.make_cfg("default", lcp="##"))
    for t, l in ((False, False), (True, True), (False, True)):
        out.append(lu.make_cfg("default", trim=t, lstrip=l, lsp="%", lcp="##"))
        out.append(lu.make_cfg("default", trim=t, lstrip=l, lsp="##", lcp="#", keep=True))
        out.append(lu.make_cfg("multi", trim=t, lstrip=l, lsp="@", lcp="//", nl="rn"))
    return out


def check_extraction(ck, recs, by_name, limit):
    """Message extraction relies on token positions: babel_extract must report every gettext call
    of a generated source on the line the specification gives to that call's token."""
    import io
    from jinja2.ext import babel_extract

    n = 0
    for rec in recs:
        if n >= limit:
            break
        if rec["out"] == "?" or rec["oc"][0] != "eof":
            continue
        src = rec["src"]
        expected = [ln for ln, ty, s, e in rec["toks"] if ty == "atom" and src[s - 1:e - 1] == "V"]
        if not expected:
            continue
        cfg = by_name[rec["cfg"]]
        cmap = dict(lu.VARIANTS[lu.variant_of(rec["raw"])], V="_('V')")
        source = lu.concretise(rec["raw"], cmap)
        o = lu.env_options(cfg)
        options = {k: v for k, v in o.items() if isinstance(v, str) and k != "newline_sequence"}
        options.update({k: ("true" if o[k] else "false") for k in ("trim_blocks", "lstrip_blocks", "keep_trailing_newline")})
        options["silent"] = "false"
        try:
            got = [(ln, msg) for ln, _f, msg, _c in babel_extract(io.BytesIO(source.encode("utf-8")), ("_",), (), options)]
        except Exception as e:  # noqa
            got = ["raise", type(e).__name__, str(e)[:200]]
        n += 1
        if got != [(ln, "V") for ln in expected]:
            ck.violation({"kind": "c39-extract", "cfg": cfg, "source": source, "expected_lines": expected, "actual": got},
                         f"{cfg['name']}: babel_extract({source!r}) reports {got!r}, the token lines are {expected!r}",
                         {"kind": "extract-lineno", "cfg": cfg["name"], "raw": rec["raw"]})
    ck.traces += n
    ck.extra["babel_extract_cases"] = ck.extra.get("babel_extract_cases", 0) + n


def run(ck):
    quick = ck.tier == "quick"
    rng = random.Random(ck.seed)

    # (1) junk: every string <= k over text, whitespace, newline and delimiter characters --
    #     unterminated tags, stray delimiters, comments, errors; token stream only
    jcfgs = [lu.make_cfg(trim=False, lstrip=False), lu.make_cfg(trim=True, lstrip=True)]
    by_name = {c["name"]: c for c in jcfgs}
    alphabet = [lu.text(ch) for ch in ["a", "_", "n", "{", "%", "}", "#", "-"]]
    k = 4 if quick else 5
    r, recs = lu.run_lexer("C39", "junk", grow=dict(pieces=alphabet, cfgs=jcfgs, max=k, structured=False),
                           invariants=JUNK_INV, coverage=quick, timeout=3000)
    ck.add_tlc(r, f"Lexer (every string <= {k} over 8 characters x 2 settings, tags found by the machine)")
    check_records(ck, recs, by_name, kind="c39")
    ck.extra["exhaustive_junk_cases"] = len(recs)
    cov1 = r.coverage() if quick else {}

    # (2) longer random junk over a wider alphabet (raw / endraw words, brackets, '+', tabs, \r)
    wide = ["a", "_", "n", "{", "%", "}", "#", "-", "+", "R", "E", "B", "V", "(", ")", "t", "w", "r", "{%", "%}", "{{", "}}", "{#", "#}"]
    seeds = ["{%R%}", "{%-_R_-%}n", "{%_R_%}a{%_E", "{%_R_%}n{%-_E_+%}", "{#_a", "{{_(a_}}", "{%_B_)%}", "{%_a#", "{%+R%}",
             "{{V+}}", "{%_B_+%}n", "{#-a-#}n_", "n__{%_B_%}n"]
    cases = []
    n_junk = 1500 if quick else 40000
    for _ in range(n_junk):
        parts = [rng.choice(wide) for _ in range(rng.randint(4, 14))]
        if rng.random() < 0.4:
            parts.insert(rng.randrange(len(parts) + 1), rng.choice(seeds))
        s = "".join(parts)
        cases.append({"ps": [lu.text(s)], "c": rng.randrange(2), "st": False})
    # (3) structured sources: multi-line tags, comments and raw blocks, every modifier, custom
    #     delimiter families, line statements and line comments
    lcfgs = line_cfgs()
    allcfgs = jcfgs + lcfgs
    by_name.update({c["name"]: c for c in allcfgs})
    n_struct = 1500 if quick else 40000
    for _ in range(n_struct):
        ci = 2 + rng.randrange(len(lcfgs))
        cfg = allcfgs[ci]
        if cfg["lsp"]:
            ps = lu.gen_line_structured(rng, cfg, rng.randint(3, 8))
        else:
            ps = lu.gen_structured(rng, cfg, rng.randint(3, 7))
        cases.append({"ps": ps, "c": ci, "st": True})
    for part in core.chunks(cases, 20000):
        r, recs = lu.run_lexer("C39", "batch", cases=part, cfgs=allcfgs, coverage=quick, timeout=3000)
        ck.add_tlc(r, f"Lexer (batch of {len(part)} generated sources)")
        if len(recs) != len(part):
            raise core.MachineryError(f"TLC finished {len(recs)} of {len(part)} cases")
        check_records(ck, recs, by_name, kind="c39")
        check_extraction(ck, recs, by_name, 600 if quick else 6000)
        if quick:
            cov = dict(cov1)
            for a, v in r.coverage().items():
                cov[a] = (0, cov.get(a, (0, 0))[1] + v[1])
            need = ["Start", "RootDirectiveStep", "RootDataStep", "CommentEndStep", "CommentMissingEndStep",
                    "BlockEndStep", "VariableEndStep", "LineStatementEndStep", "TagWhitespaceStep", "TagAtomsStep",
                    "TagOperatorStep", "UnexpectedCharStep", "RawEndStep", "RawMissingEndStep", "LineCommentStep",
                    "EofStep"]
            missing = [a for a in need if cov.get(a, (0, 0))[1] == 0]
            ck.extra["actions_covered"] = {a: cov.get(a, (0, 0))[1] for a in need}
            if missing:
                raise core.MachineryError(f"vacuous model: actions never taken: {missing}")
    ck.extra["generated_cases"] = len(cases)
    ck.exhaustive = False
    ck.extra["excluded_shapes"] = [
        "a line statement followed by a blank line (the end rule swallows the blank lines; the property excludes it)",
        "a line statement / line comment right after whitespace removed by a '-' modifier",
        "whitespace between text and a mid-line line comment",
        "'-' or '+' directly after a line statement / line comment prefix (undocumented modifier)",
    ]
    ck.assumptions += [
        "the gaps between raw tokens are the whitespace removed on the LEFT of tags; whitespace removed on the right "
        "of a tag (\"-%}\", trim_blocks newline) is carried inside the value of that tag's end token",
    ]


def replay(ck, rec):
    c = rec["case"]
    if c.get("kind") == "c39-extract":
        import io
        from jinja2.ext import babel_extract
        o = lu.env_options(c["cfg"])
        options = {k: v for k, v in o.items() if isinstance(v, str) and k != "newline_sequence"}
        options.update({k: ("true" if o[k] else "false") for k in ("trim_blocks", "lstrip_blocks", "keep_trailing_newline")})
        options["silent"] = "false"
        got = [ln for ln, _f, _m, _c in babel_extract(io.BytesIO(c["source"].encode("utf-8")), ("_",), (), options)]
        if got != c["expected_lines"]:
            ck.violation(c, f"babel_extract still reports lines {got!r}", rec.get("fingerprint"))
    else:
        _replay12(ck, rec)
