"""C11 - plain text, comments and raw blocks render verbatim.

Specs: spec/Text.tla (line breaks, declaratively and the way tokeniter splits
and joins), spec/LexerRules.tla (ExpectedPlain, raw / comment rules),
spec/Lexer.tla (operational).  TLC checks C11_NormalizeAgrees,
C11_PlainVerbatim, C11_CommentsSilent, C11_RawVerbatim (and the C12 / C39
invariants) and prints the expected rendering of every case; every case is
rendered by the real jinja2 in every newline_sequence / keep_trailing_newline
combination.
"""
from __future__ import annotations

import random

from .. import core
from .. import lexer_util as lu
from .c12 import check_records, replay  # noqa: F401  (same case format)


def nl_cfgs(family="default"):
    out = []
    for nl in ("n", "rn", "r"):
        for keep in (False, True):
            # the automatic options must not matter for plain text: vary them along
            out.append(lu.make_cfg(family, trim=keep, lstrip=(nl != "n"), keep=keep, nl=nl))
    return out


def run(ck):
    quick = ck.tier == "quick"
    rng = random.Random(ck.seed)
    cfgs = nl_cfgs()
    by_name = {c["name"]: c for c in cfgs}

    # (1) exhaustive: every string <= k over text, partial delimiters and the line-break forms
    #     that contains no delimiter start, in all 6 newline_sequence x keep combinations
    alphabet = [lu.text(ch) for ch in ["a", "_", "{", "%", "#", "}", "r", "n"]]
    k = 4 if quick else 5
    # quick: 3 of the 6 combinations (every newline_sequence, keep on and off)
    gcfgs = [cfgs[1], cfgs[2], cfgs[5]] if quick else cfgs
    r, recs = lu.run_lexer("C11", "plain", grow=dict(pieces=alphabet, cfgs=gcfgs, max=k, plain=True),
                           coverage=quick, timeout=3000)
    ck.add_tlc(r, f"Lexer (every delimiter-free string <= {k} over 8 characters x {len(gcfgs)} newline configurations)")
    if quick:
        ck.require_coverage(r, ["Grow", "Start", "RootDataStep", "EofStep"])
    check_records(ck, recs, by_name, kind="c11")
    ck.extra["exhaustive_plain_cases"] = len(recs)
    if not quick:
        sub = [cfgs[2], cfgs[5]]
        r, recs = lu.run_lexer("C11", "plain6", grow=dict(pieces=alphabet, cfgs=sub, max=6, plain=True), timeout=3000)
        ck.add_tlc(r, "Lexer (every delimiter-free string <= 6 x 2 newline configurations)")
        check_records(ck, recs, by_name, kind="c11")
        ck.extra["exhaustive_plain_cases_len6"] = len(recs)

    # (2) random long texts with Unicode / control whitespace, lone delimiter characters
    # (3) comments and raw blocks with bodies full of delimiter look-alikes
    fams = ["default", "asp", "multi"]
    allcfgs = [c for f in fams for c in nl_cfgs(f)]
    by_name.update({c["name"]: c for c in allcfgs})
    cases = []
    n_plain = 1000 if quick else 20000
    n_body = 1500 if quick else 30000
    for _ in range(n_plain):
        ci = rng.randrange(len(allcfgs))
        cases.append({"ps": [lu.text(list(_chars(lu.gen_plain(rng, allcfgs[ci], rng.randint(5, 40)))))], "c": ci, "st": True})
    for _ in range(n_body):
        ci = rng.randrange(len(allcfgs))
        cfg = allcfgs[ci]
        pre = [lu.text(rng.choice(["a", "n", "_", "an_", "rn", ""]))]
        post = [lu.text(rng.choice(["a", "n", "_", "n_a", "rn", "", "nn"]))]
        if rng.random() < 0.5:
            body = "".join(rng.choice([b for b in lu.comment_bodies(cfg) if b] + ["r", "rn", "_w_"]) for _ in range(rng.randint(1, 3)))
            if body[:1] in "-+" or body[-1:] in "-+" or "".join(cfg["ce"]) in body + "".join(cfg["ce"])[:-1]:
                body = "_" + body.strip("-+").replace("".join(cfg["ce"]), "a") + "_"
            mid = [lu.P("comment", rng.choice(lu.SIGNS), rng.choice(lu.SIGNS), body)]
        else:
            mid = [lu.P("rawopen", rng.choice(lu.SIGNS), rng.choice(("", "-")), rng.choice(lu.TAG_BODIES["rawopen"]))]
            for _ in range(rng.randint(0, 4)):
                x = rng.random()
                if x < 0.4:
                    mid.append(lu.text(rng.choice(lu.raw_lookalikes(cfg))))
                elif x < 0.7:
                    mid.append(lu.text(rng.choice(["a", "_", "n", "rn", "_n_", "w", "t", "r"])))
                else:
                    mid.append(rng.choice(lu.tag_pieces()[:]))
                    if mid[-1]["k"] == "rawclose":
                        mid.pop()
            mid.append(lu.P("rawclose", rng.choice(lu.SIGNS), rng.choice(lu.SIGNS), rng.choice(lu.TAG_BODIES["rawclose"])))
        ps = [p for p in pre + mid + post if p["k"] != "text" or p["b"]]
        ok = True
        for a, b in zip(ps, ps[1:]):
            f, g = lu.flat(a, cfg), lu.flat(b, cfg)
            if f and g and f[-1] == "r" and g[0] == "n":
                ok = False
        if ok:
            cases.append({"ps": ps, "c": ci, "st": True})
    for part in core.chunks(cases, 20000):
        r, recs = lu.run_lexer("C11", "batch", cases=part, cfgs=allcfgs, timeout=3000)
        ck.add_tlc(r, f"Lexer (batch of {len(part)} generated texts / comments / raw blocks)")
        if len(recs) != len(part):
            raise core.MachineryError(f"TLC finished {len(recs)} of {len(part)} cases")
        check_records(ck, recs, by_name, kind="c11")
    ck.extra["generated_cases"] = len(cases)
    ck.exhaustive = False
    ck.extra["excluded_shapes"] = [
        "comment bodies that contain the comment end or begin / end with '-' or '+'",
        "raw bodies that contain a complete endraw tag",
    ]


def _chars(s):
    """'rn' in PLAIN_ALPHABET is two abstract characters."""
    return s
