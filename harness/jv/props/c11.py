"""C11 - plain text, comments and raw blocks render verbatim.

Specs: spec/Text.tla (line breaks, declaratively and the way tokeniter splits
and joins), spec/LexerRules.tla (ExpectedPlain, raw / comment rules),
spec/Lexer.tla (operational).  TLC checks C11_NormalizeAgrees,
C11_PlainVerbatim, C11_CommentsSilent, C11_RawVerbatim (and the C12 / C39
invariants) and prints the expected rendering of every case; every case is
rendered by the real jinja2 in every newline_sequence / keep_trailing_newline
combination, under environments with finalize hooks of every calling
convention and autoescape (LexerRules!Printed: they act on variable tags only).
spec/LexerShare.tla: lazy token streams of several environments over shared
lexers (C11_OwnNewlineSettings); TLC enumerates every interleaving, run_share
replays each on real Parser / Environment.lex objects.
"""
from __future__ import annotations

import json
import random
import time

from .. import core
from .. import lexer_util as lu
from .c12 import check_records
from .c12 import replay as replay_case  # (same case format)


# rendering hooks of the environment (finalize by the way it is called, autoescape): they process the
# result of variable expressions and must never see template data (LexerRules!Printed / RenderChars)
HOOKS = [("", False), ("plain", False), ("env", True), ("ctx", False), ("ctx", True), ("evalctx", False),
         ("evalctx", True), ("", True)]


def nl_cfgs(family="default", hooks=None):
    """hooks: None = no finalize / autoescape; a list = one (finalize, autoescape) pair per configuration, in turn."""
    out = []
    for nl in ("n", "rn", "r"):
        for keep in (False, True):
            fin, ae = hooks[len(out) % len(hooks)] if hooks else ("", False)
            # the automatic options must not matter for plain text: vary them along
            out.append(lu.make_cfg(family, trim=keep, lstrip=(nl != "n"), keep=keep, nl=nl, fin=fin, ae=ae))
    return out


def run(ck):
    quick = ck.tier == "quick"
    rng = random.Random(ck.seed)
    # (the six newline configurations carry: none, finalize(context, v), finalize(eval_ctx, v) + autoescape,
    #  finalize(v), finalize(env, v) + autoescape, finalize(context, v) + autoescape)
    cfgs = nl_cfgs(hooks=[("", False), ("ctx", False), ("evalctx", True), ("plain", False), ("env", True), ("ctx", True)])
    by_name = {c["name"]: c for c in cfgs}

    # (1) exhaustive: every string <= k over text, partial delimiters and the line-break forms
    #     that contains no delimiter start, in all 6 newline_sequence x keep combinations
    alphabet = [lu.text(ch) for ch in ["a", "_", "{", "%", "#", "}", "r", "n"]]
    k = 4 if quick else 5
    # quick: 3 of the 6 combinations (every newline_sequence, keep on and off)
    gcfgs = [cfgs[1], cfgs[2], cfgs[5]] if quick else cfgs
    r, recs = lu.run_lexer("C11", "plain", grow=dict(pieces=alphabet, cfgs=gcfgs, max=k, plain=True),
                           coverage=quick, timeout=3000)
    ck.add_tlc(r, f"Lexer (every delimiter-free string <= {k} over 8 characters x {len(gcfgs)} newline configurations)")
    if quick:
        ck.require_coverage(r, ["Grow", "Start", "RootDataStep", "EofStep"])
    check_records(ck, recs, by_name, kind="c11")
    ck.extra["exhaustive_plain_cases"] = len(recs)
    if not quick:
        sub = [cfgs[2], cfgs[5]]
        r, recs = lu.run_lexer("C11", "plain6", grow=dict(pieces=alphabet, cfgs=sub, max=6, plain=True), timeout=3000)
        ck.add_tlc(r, "Lexer (every delimiter-free string <= 6 x 2 newline configurations)")
        check_records(ck, recs, by_name, kind="c11")
        ck.extra["exhaustive_plain_cases_len6"] = len(recs)

    # (2) random long texts with Unicode / control whitespace, lone delimiter characters
    # (3) comments and raw blocks with bodies full of delimiter look-alikes
    fams = ["default", "asp", "multi"]
    allcfgs = [c for f in fams for h in HOOKS for c in nl_cfgs(f, hooks=[h])]
    by_name.update({c["name"]: c for c in allcfgs})
    cases = []
    n_plain = 1000 if quick else 20000
    n_body = 1500 if quick else 30000
    for _ in range(n_plain):
        ci = rng.randrange(len(allcfgs))
        cases.append({"ps": [lu.text(list(_chars(lu.gen_plain(rng, allcfgs[ci], rng.randint(5, 40)))))], "c": ci, "st": True})
    for _ in range(n_body):
        ci = rng.randrange(len(allcfgs))
        cfg = allcfgs[ci]
        pre = [lu.text(rng.choice(["a", "n", "_", "an_", "rn", ""]))]
        post = [lu.text(rng.choice(["a", "n", "_", "n_a", "rn", "", "nn"]))]
        kind = rng.random()
        if kind < 0.08:
            # a variable tag between the texts: the one place the rendering hooks of the configuration act on
            # (shows that the hook is installed: the data around it must still be verbatim)
            mid = [lu.P("var", rng.choice(lu.SIGNS), rng.choice(("", "-")), rng.choice(lu.TAG_BODIES["var"]))]
        elif kind < 0.54:
            body = "".join(rng.choice([b for b in lu.comment_bodies(cfg) if b] + ["r", "rn", "_w_"]) for _ in range(rng.randint(1, 3)))
            if body[:1] in "-+" or body[-1:] in "-+" or "".join(cfg["ce"]) in body + "".join(cfg["ce"])[:-1]:
                body = "_" + body.strip("-+").replace("".join(cfg["ce"]), "a") + "_"
            mid = [lu.P("comment", rng.choice(lu.SIGNS), rng.choice(lu.SIGNS), body)]
        else:
            mid = [lu.P("rawopen", rng.choice(lu.SIGNS), rng.choice(("", "-")), rng.choice(lu.TAG_BODIES["rawopen"]))]
            for _ in range(rng.randint(0, 4)):
                x = rng.random()
                if x < 0.4:
                    mid.append(lu.text(rng.choice(lu.raw_lookalikes(cfg))))
                elif x < 0.7:
                    mid.append(lu.text(rng.choice(["a", "_", "n", "rn", "_n_", "w", "t", "r"])))
                else:
                    mid.append(rng.choice(lu.tag_pieces()[:]))
                    if mid[-1]["k"] == "rawclose":
                        mid.pop()
            mid.append(lu.P("rawclose", rng.choice(lu.SIGNS), rng.choice(lu.SIGNS), rng.choice(lu.TAG_BODIES["rawclose"])))
        ps = [p for p in pre + mid + post if p["k"] != "text" or p["b"]]
        ok = True
        for a, b in zip(ps, ps[1:]):
            f, g = lu.flat(a, cfg), lu.flat(b, cfg)
            if f and g and f[-1] == "r" and g[0] == "n":
                ok = False
        if ok:
            cases.append({"ps": ps, "c": ci, "st": True})
    # (4) multi-token templates for the interleaved streams below, under 4 newline configurations that are equal
    #     in everything else (same TLC batch: they lead the list, so their ids are 1..n)
    share_cfgs = [lu.make_cfg(nl=nl, keep=keep) for nl, keep in SHARE_CFGS]
    share_srcs = share_sources(rng, 40 if quick else 300)
    share_cases = [{"ps": ps, "c": len(allcfgs) + ci, "st": True} for ps in share_srcs for ci in range(len(share_cfgs))]
    allcfgs = allcfgs + share_cfgs
    by_name.update({c["name"]: c for c in share_cfgs})
    cases = share_cases + cases
    share_recs = []
    for k, part in enumerate(core.chunks(cases, 20000)):
        r, recs = lu.run_lexer("C11", "batch", cases=part, cfgs=allcfgs, timeout=3000)
        ck.add_tlc(r, f"Lexer (batch of {len(part)} generated texts / comments / raw blocks)")
        if len(recs) != len(part):
            raise core.MachineryError(f"TLC finished {len(recs)} of {len(part)} cases")
        check_records(ck, recs, by_name, kind="c11")
        if k == 0:
            share_recs = sorted((x for x in recs if x["id"] <= len(share_cases)), key=lambda x: x["id"])
    ck.extra["generated_cases"] = len(cases)
    ck.exhaustive = False

    # the newline settings are those of the environment that renders, also while the token streams of
    # several environments (lexers are shared objects, tokenising is lazy) are consumed interleaved
    run_share(ck, rng, quick, share_cfgs, share_srcs, share_recs)
    ck.extra["excluded_shapes"] = [
        "comment bodies that contain the comment end or begin / end with '-' or '+'",
        "raw bodies that contain a complete endraw tag",
    ]


# --------------------------------------------------------------------------
# LexerShare: interleaved lazy token streams of environments that differ in the newline settings only
# --------------------------------------------------------------------------
SHARE_CFGS = [("n", False), ("rn", False), ("n", True), ("r", True)]      # [nl, keep]; default trim / lstrip
SHARE_TEXT = ["an", "arn", "a_nan", "nra_n", "ar", "a&nn", "rn_a_n", "n"]


def share_cfg_text(n_cfgs, keyfields, refresh, ndata, maxstreams, maxtouch, emit):
    return (
        "CONSTANTS\n"
        "  CfgSeq <- MCShareCfgs\n"
        f"  KeyFields = {{{', '.join(core.tla_str(k) for k in keyfields)}}}\n  Refresh = {core.tla_str(refresh)}\n"
        f"  NData = {ndata}\n  MaxStreams = {maxstreams}\n  MaxTouch = {maxtouch}\n  Emit = {core.tla_str(emit)}\n"
        "SPECIFICATION Spec\nINVARIANT C11_OwnNewlineSettings\nINVARIANT C11_CachedLexersMatchKey\n"
    )


def share_sources(rng, n):
    """Piece sequences text (comment | raw block) text [comment text]: what splits plain text into several
    data tokens.  Every text holds a line break (newline_sequence shows in every data token) and most
    templates end with one (keep_trailing_newline shows)."""
    out = []
    while len(out) < n:
        ps = []
        for j in range(rng.choice([2, 2, 3])):
            if j or rng.random() < 0.8:
                t = rng.choice(SHARE_TEXT)
                if ps and t[0] == "n" and lu.flat(ps[-1], lu.make_cfg())[-1:] == ["r"]:
                    continue
                ps.append(lu.text(t))
            if j == 0 and rng.random() < 0.35:
                ps += [lu.P("rawopen", "", "", "_R_"), lu.text(rng.choice(["a{{n", "an{#", "_nra"])), lu.P("rawclose", "", "", "_E_")]
            else:
                ps.append(lu.P("comment", "", "", rng.choice(["_a_", "_an_", "a"])))
        ps.append(lu.text(rng.choice(["an", "a_n", "arn", "a", "nan", "ann"])))
        out.append(ps)
    return out


def run_share(ck, rng, quick, cfgs, sources, recs):
    """recs: what every configuration must make of every source (tokens and rendered text from Lexer.tla),
    ordered by source, then configuration."""
    from jinja2 import Environment
    from jinja2.lexer import TokenStream
    from jinja2.parser import Parser

    opts = [lu.env_options(c) for c in cfgs]
    if len(recs) != len(sources) * len(cfgs):
        raise core.MachineryError("share sources: TLC did not finish every case")
    cmap = lu.VARIANTS[0]
    by_tokens = {}          # number of data tokens -> [per-configuration records of one source]
    for k in range(len(sources)):
        rs = sorted(recs[k * len(cfgs):(k + 1) * len(cfgs)], key=lambda x: x["id"])
        counts = {sum(1 for t in x["toks"] if t[1] == "data") for x in rs}
        if len(counts) == 1 and all(x["oc"][0] == "eof" for x in rs):
            by_tokens.setdefault(counts.pop(), []).append(rs)

    mc = core.workdir("C11", "share-in") / "MCLexerShare.tla"
    mc.write_text("---- MODULE MCLexerShare ----\nEXTENDS LexerShare\nMCShareCfgs == "
                  + core.tla_str([{"nl": nl, "keep": keep} for nl, keep in SHARE_CFGS]) + "\n====\n")
    # vacuity guard: a lexer shared across the newline settings and re-pointed on every lookup must break the model
    r2 = core.run_tlc("C11", "MCLexerShare", share_cfg_text(len(cfgs), [], True, 2, 2, 1, False), name="share-mutant",
                      workers=2, extra_modules=[mc], timeout=600)
    ck.add_tlc(r2, "LexerShare with one lexer re-pointed on every lookup (must violate)", expect_ok=False)
    if "C11_OwnNewlineSettings" not in r2.invariant_violated:
        raise core.MachineryError("C11_OwnNewlineSettings is vacuous: a shared, re-pointed lexer does not violate it")

    hists = []
    for ndata in ([2] if quick else [2, 3]):
        if not by_tokens.get(ndata):
            raise core.MachineryError(f"no generated template has {ndata} data tokens in every configuration")
        r = core.run_tlc("C11", "MCLexerShare", share_cfg_text(len(cfgs), ["nl", "keep"], False, ndata, 2, 1, True),
                         name=f"share{ndata}", coverage=quick, extra_modules=[mc], timeout=3000)
        ck.add_tlc(r, f"LexerShare ({len(cfgs)} newline configurations, 2 lazy streams of {ndata} data tokens, 1 other use)")
        if quick:
            ck.require_coverage(r, ["Open", "Pull", "Touch", "Finish"])
        hs = sorted(set(h for h in r.printed() if h.startswith("[")))
        if not hs:
            raise core.MachineryError("LexerShare.tla printed no histories")
        hists += [(ndata, json.loads(h)) for h in hs]
    ck.extra["share_histories_enumerated"] = len(hists)

    def overlapped(h):
        """another configuration acts while a stream is open"""
        open_cfgs = []
        for ev in h:
            if ev[0] == "open":
                open_cfgs.append(ev[1])
            elif ev[0] == "touch" and any(c != ev[1] for c in open_cfgs):
                return True
        return len(set(open_cfgs)) > 1

    budget = 8000 if quick else 60000
    if len(hists) > budget:
        hot = [x for x in hists if overlapped(x[1])]
        rng.shuffle(hot)
        cold = [x for x in hists if not overlapped(x[1])]
        rng.shuffle(cold)
        hists = hot[:budget - budget // 10] + cold[:budget // 10]
        ck.exhaustive = False

    t0 = time.time()
    n = bad = 0
    for ndata, h in hists:
        pool = by_tokens[ndata]
        envs = {}

        def env_of(i):
            if i not in envs:
                envs[i] = Environment(**opts[i - 1])
            return envs[i]

        streams = []
        problem = None
        for step, ev in enumerate(h):
            if ev[0] == "open":
                rs = pool[rng.randrange(len(pool))]
                rec = rs[ev[1] - 1]
                src = lu.concretise(rec["raw"], cmap)
                env = env_of(ev[1])
                if ev[2] == "parser":
                    st = {"how": "parser", "cfg": ev[1], "rec": rec, "src": src, "parser": Parser(env, src), "toks": []}
                else:
                    st = {"how": "lex", "cfg": ev[1], "rec": rec, "src": src, "gen": env.lex(src), "toks": []}
                streams.append(st)
            elif ev[0] == "pull":
                st = streams[ev[1] - 1]
                if st["how"] == "parser":
                    st["toks"].append(next(st["parser"].stream))
                else:
                    for tok in st["gen"]:
                        st["toks"].append(tok)
                        if tok[1] == "data":
                            break
            else:
                rs = pool[rng.randrange(len(pool))]
                rec = rs[ev[1] - 1]
                got = env_of(ev[1]).from_string(lu.concretise(rec["raw"], cmap)).render()
                if got != lu.concretise(rec["out"], cmap):
                    problem = (step, ev[1], "render", lu.concretise(rec["raw"], cmap), lu.concretise(rec["out"], cmap), got)
        for k, st in enumerate(streams):
            rec = st["rec"]
            if st["how"] == "parser":
                p = st["parser"]
                while p.stream.current.type != "eof":
                    st["toks"].append(next(p.stream))
                p.stream = TokenStream(iter(st["toks"]), None, None)
                try:
                    got = env_of(st["cfg"]).from_string(p.parse()).render()
                except Exception as e:  # noqa
                    got = ["raise", type(e).__name__, str(e)[:200]]
                exp = lu.concretise(rec["out"], cmap)
                if got != exp and not problem:
                    problem = (len(h), st["cfg"], f"render of stream {k + 1}", st["src"], exp, got)
            else:
                st["toks"] += list(st["gen"])
                cmp = lu.compare_tokens(rec, ([tuple(t) for t in st["toks"]], None, None), cmap)
                if cmp and not problem:
                    problem = (len(h), st["cfg"], f"Environment.lex tokens of stream {k + 1}", st["src"], cmp[2]["exp"], cmp[2]["got"])
        n += 1
        if problem:
            bad += 1
            step, c, what, src, exp, got = problem
            others = sorted({cfgs[ev[1] - 1]["name"] for ev in h if ev[0] in ("open", "touch") and ev[1] != c})
            if bad <= 20:
                ck.violation({"kind": "share-history", "history": h, "ndata": ndata, "config": cfgs[c - 1]["name"], "source": src,
                              "expected": exp, "actual": got, "what": what},
                             f"{cfgs[c - 1]['name']}: {what}: {src!r} gives {got!r}, its own newline settings give {exp!r} "
                             f"(token streams interleaved with environments {others}; history {h})",
                             {"kind": "share-history", "cfg": cfgs[c - 1]["name"]})
        elif n % 499 == 0:
            ck.sample({"history": h, "streams": [[cfgs[st["cfg"] - 1]["name"], st["src"]] for st in streams]})
    ck.traces += n
    ck.evaluations += n
    ck.extra["share_histories_replayed"] = n
    ck.extra["share_replay_s"] = round(time.time() - t0, 2)


def replay(ck, rec):
    if rec["case"].get("kind") == "share-history":
        ck.violation(rec["case"], "interleaved histories are replayed by the full check only", rec.get("fingerprint"))
        return
    replay_case(ck, rec)


def _chars(s):
    """'rn' in PLAIN_ALPHABET is two abstract characters."""
    return s
