"""C07 - the loop variable reports correct iteration state for every iterable.

Spec: spec/LoopCtx.tla (abstract layer = documented attribute values, operational
layer = LoopContext/AsyncLoopContext + the code visit_For emits; TLC checks
operational => abstract for every order of queries, items visited once in
order, queries never change the future items, else iff no item, depth).

Binding (spec -> code, the TLA+ spec is the only oracle; every expected value
below is read from an edge label of TLC's dumped state graph):
  * object level: every transition of the graph (flat sources, with and
    without loop filter) is replayed on real jinja2.runtime.LoopContext /
    AsyncLoopContext objects built over list / tuple / str / iterator /
    generator / async generator / filter generator; the returned value of every
    step is compared with the label.
  * template level: walks through the graph (flat, filtered, recursive trees)
    are compiled into real templates and rendered in sync and async
    environments over every iterable form; rendered text is compared with the
    text assembled from the labels of the walk.
"""
from __future__ import annotations

import inspect
import json
import random
import re
from concurrent.futures import ProcessPoolExecutor, ThreadPoolExecutor

from .. import core

PID = "C07"
VALS = ["a", "b", "c"]
CYC = ("c1", "c2", "c3")
NPROC = 12

INVARIANTS = ["TypeOK", "C07_ItemsInOrderOnce", "C07_Attrs", "C07_CachesConsistent",
              "C07_LookaheadAtMostOne", "C07_Depth", "C07_ElseIffNone"]


_POOL = None


def _warm(_):
    import time
    time.sleep(0.3)
    return 0


def pool():
    """One worker pool for the whole run, forked while the parent is still small (before any
    graph is loaded) so that workers do not copy-on-write the parent's graph data."""
    global _POOL
    if _POOL is None:
        _POOL = ProcessPoolExecutor(max_workers=NPROC)
        list(_POOL.map(_warm, range(NPROC)))
    return _POOL


def close_pool():
    global _POOL
    if _POOL is not None:
        _POOL.shutdown()
        _POOL = None


# ---------------------------------------------------------------------------
# TLC configurations
# ---------------------------------------------------------------------------

def mc_module(name, sources, kinds, filters, queries, keys):
    return f"""---- MODULE {name} ----
EXTENDS LoopCtx
MCVals == {{"a", "b", "c"}}
MCKeys == {keys}
MCSources == {sources}
MCKinds == {kinds}
MCFilters == {filters}
MCQueries == {queries}
====
"""


def mc_cfg(maxlen, trees, live):
    s = f"""CONSTANTS
  Vals <- MCVals
  Keys <- MCKeys
  MaxLen = {maxlen}
  Sources <- MCSources
  Kinds <- MCKinds
  Filters <- MCFilters
  Trees = {"TRUE" if trees else "FALSE"}
  Queries <- MCQueries
SPECIFICATION {"Spec" if live else "SpecSafety"}
"""
    for i in INVARIANTS:
        s += f"INVARIANT {i}\n"
    s += "PROPERTY C07_QueriesDoNotChangeItems\n"
    if live:
        s += "PROPERTY C07_Terminates\n"
    return s


def run_model(name, sources, kinds, filters, queries, keys, maxlen, trees, live=False, dump=True,
              coverage=False, workers=1, heap="2g"):
    d = core.workdir(PID, f"src_{name}")
    mod = f"MC{name}"
    (d / f"{mod}.tla").write_text(mc_module(mod, sources, kinds, filters, queries, keys))
    # fixed fingerprint function: state ids in the dump (and so the seeded walk choice) are reproducible
    args = ["-fp", "0"] + (["-dump", "dot,actionlabels", "graph.dot"] if dump else [])
    r = core.run_tlc(PID, mod, mc_cfg(maxlen, trees, live), workers=workers, args=args,
                     extra_modules=[d / f"{mod}.tla"], name=f"tlc_{name}", coverage=coverage, timeout=3000,
                     heap=heap, env={"JAVA_TOOL_OPTIONS": "-XX:ParallelGCThreads=2"})
    return r


# ---------------------------------------------------------------------------
# graph loading (light-weight: only what replay needs)
# ---------------------------------------------------------------------------

_EDGE = re.compile(r'^(-?\d+) -> (-?\d+) \[label="((?:[^"\\]|\\.)*)"')
_NODE = re.compile(r'^(-?\d+) \[label="((?:[^"\\]|\\.)*)"(,style = filled)?')
_PULLED = re.compile(r'pulled \|-> (\d+)')


def _unesc(s):
    return s.replace("\\n", "\n").replace('\\"', '"').replace("\\\\", "\\")


def _py(v):
    """TLA value (as parsed by core) -> plain python used for comparison."""
    if isinstance(v, tuple):
        return tuple(_py(x) for x in v)
    return v


class Graph:
    def __init__(self, dot_path):
        self.inits = {}       # sid -> {"source":..., "kind":..., "filt":{on,pass}}
        self.pulled = {}      # sid -> pulled counter of the top frame
        self.labels = []      # idx -> (act, args)
        self.label_text = []
        lidx = {}
        out = {}
        with open(dot_path) as fh:
            for line in fh:
                m = _EDGE.match(line)
                if m:
                    lab = m.group(3)
                    i = lidx.get(lab)
                    if i is None:
                        i = lidx[lab] = len(self.labels)
                        act, args = core.parse_label(_unesc(lab))
                        self.labels.append((act, _py(args)))
                        self.label_text.append(_unesc(lab))
                    out.setdefault(m.group(1), []).append((m.group(2), i))
                    continue
                m = _NODE.match(line)
                if m:
                    sid = m.group(1)
                    if sid in self.pulled:
                        continue
                    p = _PULLED.findall(m.group(2))
                    self.pulled[sid] = int(p[-1]) if p else 0
                    if m.group(3):
                        st = core.parse_state(_unesc(m.group(2)))
                        self.inits[sid] = {"source": st["source"], "kind": st["kind"],
                                           "on": st["filt"]["on"], "pass": sorted(st["filt"]["pass"])}
        # dedupe parallel edges
        self.out = {s: sorted(set(es)) for s, es in out.items()}
        self.nedges = sum(len(v) for v in self.out.values())

    def components(self):
        """One component per initial state: (init info, {sid: [(dst, label idx)]}, pulled)."""
        comps = []
        for sid, info in self.inits.items():
            seen = {sid}
            frontier = [sid]
            sub = {}
            while frontier:
                nxt = []
                for s in frontier:
                    es = self.out.get(s, [])
                    sub[s] = es
                    for d, _ in es:
                        if d not in seen:
                            seen.add(d)
                            nxt.append(d)
                frontier = nxt
            comps.append((sid, info, sub, {s: self.pulled.get(s, 0) for s in sub}))
        comps.sort(key=lambda c: json.dumps(c[1], sort_keys=True, default=repr))
        return comps


# ---------------------------------------------------------------------------
# object level
# ---------------------------------------------------------------------------

# abstract item values -> concrete python values.  "int" contains a falsy item (0).
SCHEMES = {"str": {"a": "a", "b": "b", "c": "c"}, "int": {"a": 0, "b": 1, "c": 2}}
INVERSE = {k: {v: a for a, v in m.items()} for k, m in SCHEMES.items()}


def split_form(form):
    base, _, scheme = form.partition("/")
    return base, scheme or "str"


class Suspended(Exception):
    pass


def run_coro(c):
    try:
        c.send(None)
    except StopIteration as e:
        return e.value
    raise Suspended("coroutine suspended although nothing awaits")


def build_iterable(form, src, passset, is_async):
    """Concretise a spec source sequence (+ loop filter) to a real iterable.
    Returns (iterable, counter) where counter[0] counts items taken from the source
    (None when the form cannot observe that)."""
    form, scheme = split_form(form)
    m = SCHEMES[scheme]
    src = [m[x] for x in src]
    passset = [m[x] for x in passset]
    cnt = [0]

    def cgen():
        for x in src:
            cnt[0] += 1
            yield x

    async def cagen():
        for x in src:
            cnt[0] += 1
            yield x

    if form == "list":
        return list(src), None
    if form == "tuple":
        return tuple(src), None
    if form == "str":
        return "".join(src), None
    if form == "iter":
        return iter(list(src)), None
    if form == "gen":
        return cgen(), cnt
    if form == "reiter":
        # iterable again and again, but without __len__: the loop must go on with its own iterator, not start over
        class ReIter:
            def __iter__(self_):
                return cgen()
        return ReIter(), cnt
    if form == "agen":
        return cagen(), cnt
    if form == "fgen":
        # what compiler.visit_For emits for `for x in src if x in P`: a generator over the source
        ps = set(passset)
        if is_async:
            from jinja2.async_utils import auto_aiter

            async def t_1(fiter):
                async for x in auto_aiter(fiter):
                    if x in ps:
                        yield x
            return t_1(cgen()), cnt
        return (x for x in cgen() if x in ps), cnt
    if form == "fagen":
        ps = set(passset)

        async def t_1(fiter):
            async for x in fiter:
                if x in ps:
                    yield x
        return t_1(cagen()), cnt
    raise core.MachineryError(form)


def object_forms(kind, on, is_async):
    if on:
        return ["fgen/int", "fagen"] if is_async else ["fgen", "fgen/int"]
    if kind == "sized":
        return ["list", "tuple/int", "str"]
    return ["gen/int", "agen", "iter", "reiter"] if is_async else ["gen", "iter/int", "reiter", "reiter/int"]


def new_ctx(form, src, passset, is_async):
    from jinja2.runtime import AsyncLoopContext, LoopContext, Undefined
    it, cnt = build_iterable(form, src, passset, is_async)
    cls = AsyncLoopContext if is_async else LoopContext
    return cls(it, Undefined), cnt


def apply_step(ctx, is_async, act, args, scheme="str"):
    """Apply one spec action to a real loop context; returns the observable in the
    same shape as the label's value (items mapped back to the spec's values)."""
    from jinja2.runtime import Undefined
    inv = INVERSE[scheme]
    try:
        if act == "Advance":
            try:
                if is_async:
                    rv, c2 = run_coro(ctx.__anext__())
                else:
                    rv, c2 = next(ctx)
            except (StopIteration, StopAsyncIteration):
                return "Stop"
            if c2 is not ctx:
                return ("raise", "loop context not returned")
            return inv.get(rv, ("unknown item", repr(rv)))
        if act == "Query":
            q = args[0]
            name = q[0]
            if name == "cycle":
                v = ctx.cycle(*CYC[: q[1]])
            elif name == "changed":
                v = ctx.changed(SCHEMES[scheme][q[1]])
            else:
                v = getattr(ctx, name)
            if inspect.isawaitable(v):
                if not is_async:
                    return ("raise", "awaitable from sync loop context")
                v = run_coro(v)
            if name in ("previtem", "nextitem"):
                return () if isinstance(v, Undefined) else (inv.get(v, repr(v)),)
            return v
        return None  # EndBody / Finish / Recurse: nothing to do on the object
    except Suspended:
        raise
    except Exception as e:  # noqa
        return ("raise", type(e).__name__)


def expected_of(act, args):
    if act == "Advance":
        return args[0]
    if act == "Query":
        return args[1]
    return None


def same(a, b):
    return type(a) is type(b) and a == b


def replay_components(job):
    """Worker: object-level replay of every transition of a batch of components."""
    core.use_repo()
    comps, labels, label_text, async_too = job
    nrep = nsteps = 0
    bad = []       # violations
    drift = {}     # pulled mismatches
    seen_fp = {}
    for (init_sid, info, sub, pulled) in comps:
        src, kind, on, pas = info["source"], info["kind"], info["on"], info["pass"]
        # BFS shortest paths
        paths = {init_sid: []}
        frontier = [init_sid]
        while frontier:
            nxt = []
            for s in frontier:
                for d, li in sub.get(s, ()):
                    if d not in paths:
                        paths[d] = paths[s] + [li]
                        nxt.append(d)
            frontier = nxt
        for is_async in ((False, True) if async_too else (False,)):
            for form in object_forms(kind, on, is_async):
                for s, es in sub.items():
                    loops = [li for d, li in es if d == s and labels[li][0] == "Query"]
                    moves = [(d, li) for d, li in es if not (d == s and labels[li][0] == "Query")]
                    if not moves:
                        continue
                    for j, (d, li) in enumerate(moves):
                        seq = paths[s] + loops[j::len(moves)] + [li]
                        ctx, cnt = new_ctx(form, src, pas, is_async)
                        nrep += 1
                        for k, l in enumerate(seq):
                            act, args = labels[l]
                            exp = expected_of(act, args)
                            if exp is None:
                                continue
                            got = apply_step(ctx, is_async, act, args, split_form(form)[1])
                            nsteps += 1
                            if not same(got, exp):
                                q = args[0][0] if act == "Query" else "next"
                                fp = {"kind": "loopctx-object", "attr": q, "async": is_async, "form": form}
                                key = json.dumps(fp, sort_keys=True)
                                seen_fp[key] = seen_fp.get(key, 0) + 1
                                if seen_fp[key] <= 2:
                                    bad.append(({"kind": "object", "source": list(src), "pass": pas, "filtered": on,
                                                 "form": form, "async": is_async,
                                                 "steps": [label_text[x] for x in seq[: k + 1]],
                                                 "expected": repr(exp), "actual": repr(got)}, fp))
                                break
                        else:
                            if cnt is not None and cnt[0] != pulled[d]:
                                key = f"{form}/{'async' if is_async else 'sync'}"
                                drift[key] = drift.get(key, 0) + 1
    return nrep, nsteps, bad, drift, seen_fp


def object_level(ck, g, label, async_too=True):
    comps = g.components()
    comps.sort(key=lambda c: -len(c[2]))  # stable: ties keep the canonical order
    nb = max(1, min(len(comps), NPROC * 3))
    batches = [comps[i::nb] for i in range(nb)]
    jobs = [(b, g.labels, g.label_text, async_too) for b in batches if b]
    nrep = nsteps = 0
    drift = {}
    if True:
        for r, s, bad, dr, fps in pool().map(replay_components, jobs):
            nrep += r
            nsteps += s
            for k, v in dr.items():
                drift[k] = drift.get(k, 0) + v
            for case, fp in bad:
                ck.violation(case,
                             f"{'Async' if case['async'] else ''}LoopContext over {case['form']} of {case['source']}"
                             f"{' filtered to ' + str(case['pass']) if case['filtered'] else ''}: after "
                             f"{case['steps'][:-1]} step {case['steps'][-1]} gives {case['actual']}, "
                             f"spec says {case['expected']}", fp)
    ck.traces += nrep
    ck.evaluations += nsteps
    ck.extra.setdefault("object_level", {})[label] = {"replays": nrep, "steps_compared": nsteps,
                                                      "graph_edges": g.nedges, "components": len(comps)}
    if drift:
        ck.extra.setdefault("drift", {})[label + ": source items pulled differs from spec `pulled`"] = drift
    return nrep


# ---------------------------------------------------------------------------
# template level
# ---------------------------------------------------------------------------

class Node:
    __slots__ = ("id", "v", "ch")

    def __init__(self, id, v, ch):
        self.id, self.v, self.ch = id, v, ch

    def __str__(self):
        return self.id


def gen_walk(sub, labels, init, rnd, trees, covered, plain=False):
    """Pick a walk through the dumped graph (list of label indices).  Only chooses
    among edges TLC produced; bodies get 0-4 queries, recursive bodies at most one
    Recurse."""
    ev = []

    def edges(s, act):
        return [(d, li) for d, li in sub[s] if labels[li][0] == act]

    def queries(s, m):
        for _ in range(m):
            qs = edges(s, "Query")
            if not qs:
                break
            fresh = [e for e in qs if (s, e[1]) not in covered]
            d, li = rnd.choice(fresh if fresh and rnd.random() < 0.8 else qs)
            covered.add((s, li))
            ev.append(li)
            s = d
        return s

    def body(s, depth):
        nq = 0 if plain else rnd.choice([0, 1, 1, 2, 2, 3, 4])
        s = queries(s, nq)
        if trees and depth < 4 and rnd.random() < 0.8:
            (d, li), = edges(s, "Recurse")
            ev.append(li)
            s = loop(d, depth + 1)
            s = queries(s, 0 if plain else rnd.choice([0, 0, 1, 2]))
        (d, li), = edges(s, "EndBody")
        ev.append(li)
        return d

    def loop(s, depth):
        while True:
            (d, li), = edges(s, "Advance")
            ev.append(li)
            s = d
            if labels[li][1][0] == "Stop":
                break
            s = body(s, depth)
        (d, li), = edges(s, "Finish")
        ev.append(li)
        return d

    loop(init, 1)
    return ev


def shown(k, scheme):
    """How a template prints the item the spec calls k (node ids print as themselves)."""
    return str(SCHEMES[scheme].get(k, k))


def fmt(v, scheme):
    if v is True:
        return "True"
    if v is False:
        return "False"
    if isinstance(v, tuple):
        return shown(v[0], scheme) if v else "U"
    return str(v)


def expected_text(events, scheme="str"):
    out = []
    depth = 1
    for act, args in events:
        if act == "Advance":
            if args[0] != "Stop":
                out.append("<" + shown(args[0], scheme))
        elif act == "Query":
            out.append("|" + fmt(args[1], scheme))
        elif act == "Recurse":
            out.append("(")
            depth += 1
        elif act == "EndBody":
            out.append(">")
        elif act == "Finish":
            if args[0]:
                out.append("E")
            depth -= 1
            out.append(")" if depth >= 1 else ".")
    return "".join(out)


def qexpr(q, lname="loop", scheme="str"):
    name = q[0]
    if name == "cycle":
        return f"{lname}.cycle({', '.join(repr(c) for c in CYC[:q[1]])})"
    if name == "changed":
        return f"{lname}.changed({SCHEMES[scheme][q[1]]!r})"
    if name in ("previtem", "nextitem"):
        return f"{lname}.{name}|default('U')"
    return f"{lname}.{name}"


WRAPPERS = ["direct", "set", "with", "macro", "inner", "block", "call"]
TREE_WRAPPERS = ["direct", "set", "with", "inner", "call"]


class TplBuilder:
    def __init__(self, rnd, wrappers, uniform, scheme):
        self.rnd = rnd
        self.scheme = scheme
        self.wrappers = wrappers
        self.uniform = rnd.choice(wrappers) if uniform else None
        self.macros = []
        self.nblock = 0
        self.need_w = False
        self.used = set()

    def piece(self, q):
        w = self.uniform or self.rnd.choice(self.wrappers)
        self.used.add(w)
        e = qexpr(q, "loop", self.scheme)
        if w == "direct":
            return "|{{ " + e + " }}"
        if w == "set":
            return "{% set t = " + e + " %}|{{ t }}"
        if w == "with":
            return "{% with t = " + e + " %}|{{ t }}{% endwith %}"
        if w == "macro":
            n = len(self.macros) + 1
            self.macros.append("{% macro g" + str(n) + "(l) %}{{ " + qexpr(q, "l", self.scheme) + " }}{% endmacro %}")
            return "|{{ g" + str(n) + "(loop) }}"
        if w == "inner":
            return "{% for y in [" + e + "] %}|{{ y }}{% endfor %}"
        if w == "block":
            self.nblock += 1
            return "{% block b" + str(self.nblock) + " scoped %}|{{ " + e + " }}{% endblock %}"
        if w == "call":
            self.need_w = True
            return "{% call w() %}|{{ " + e + " }}{% endcall %}"
        raise core.MachineryError(w)

    def prelude(self):
        s = "".join(self.macros)
        if self.need_w:
            s += "{% macro w() %}{{ caller() }}{% endmacro %}"
        return s


def dispatch(cases, var, rnd_quote=repr):
    """cases: [(key, text)] -> if/elif chain on `var == key`."""
    cases = [(k, t) for k, t in cases if t]
    if not cases:
        return ""
    out = []
    for i, (k, t) in enumerate(cases):
        out.append(("{% if " if i == 0 else "{% elif ") + f"{var} == {k!r}" + " %}" + t)
    out.append("{% endif %}")
    return "".join(out)


def flat_template(events, on, rnd, scheme):
    """Compile a flat walk into a template.  Returns (source, style)."""
    per_iter = []
    for act, args in events:
        if act == "Advance" and args[0] != "Stop":
            per_iter.append([])
        elif act == "Query":
            per_iter[-1].append(args[0])
    tb = TplBuilder(rnd, WRAPPERS, rnd.random() < 0.5, scheme)
    disp = rnd.choice(["idx", "ns"])
    cases = [(k, "".join(tb.piece(q) for q in qs)) for k, qs in enumerate(per_iter)]
    fstyle = rnd.choice(["in", "map"]) if on else None
    head = "{% for x in it"
    if fstyle == "in":
        head += " if x in P"
    elif fstyle == "map":
        head += " if M[x]"
    head += " %}"
    if disp == "idx":
        body = "<{{ x }}" + dispatch(cases, "loop.index0") + ">"
        pre = ""
    else:
        body = "<{{ x }}" + dispatch(cases, "ns.i") + "{% set ns.i = ns.i + 1 %}>"
        pre = "{% set ns = namespace(i=0) %}"
    src = tb.prelude() + pre + head + body + "{% else %}E{% endfor %}."
    return src, {"dispatch": disp, "wrappers": sorted(tb.used), "filter": fstyle}


def tree_template(events, on, rnd, scheme):
    pre, post, rec = {}, {}, []
    stack = []
    for act, args in events:
        if act == "Advance" and args[0] != "Stop":
            stack.append(["iter", args[0], False])
        elif act == "Query":
            _, nid, after = stack[-1]
            (post if after else pre).setdefault(nid, []).append(args[0])
        elif act == "Recurse":
            stack[-1][2] = True
            rec.append(stack[-1][1])
            stack.append(["frame"])
        elif act == "EndBody":
            stack.pop()
        elif act == "Finish":
            if stack:
                stack.pop()  # the frame marker
    tb = TplBuilder(rnd, TREE_WRAPPERS, rnd.random() < 0.5, scheme)
    pre_c = [(k, "".join(tb.piece(q) for q in qs)) for k, qs in pre.items()]
    post_c = [(k, "".join(tb.piece(q) for q in qs)) for k, qs in post.items()]
    head = "{% for n in it" + (" if n.v in P" if on else "") + " recursive %}"
    body = ("<{{ n.id }}" + dispatch(pre_c, "n.id") + "{% if n.id in R %}({{ loop(n.ch) }}){% endif %}"
            + dispatch(post_c, "n.id") + ">")
    src = tb.prelude() + head + body + "{% else %}E{% endfor %}."
    return src, {"wrappers": sorted(tb.used), "recurse": rec}


FLAT_FORMS = {False: ["list", "tuple", "str", "iter", "gen", "reiter"], True: ["list", "tuple", "iter", "gen", "agen", "reiter"]}
TREE_FORMS = {False: ["list", "tuple", "gen"], True: ["list", "gen", "agen"]}


def concretise_flat(form, src, scheme):
    it, _ = build_iterable(f"{form}/{scheme}", src, (), False)
    return it


def concretise_tree(form, forest, scheme):
    m = SCHEMES[scheme]

    def conv(seq):
        nodes = [Node(n["id"], m[n["v"]], conv(n["ch"])) for n in seq]
        if form == "list":
            return nodes
        if form == "tuple":
            return tuple(nodes)
        if form == "gen":
            return (x for x in nodes)
        if form == "agen":
            async def ag():
                for x in nodes:
                    yield x
            return ag()
        raise core.MachineryError(form)
    return conv(forest)


_ENVS = {}


def get_env(is_async):
    import jinja2
    if is_async not in _ENVS:
        _ENVS[is_async] = jinja2.Environment(enable_async=is_async, cache_size=0)
    return _ENVS[is_async]


def render_case(src, is_async, form, trees, source, pas, rec, scheme, via_api=False, tpl=None):
    env = get_env(is_async)
    t = tpl or env.from_string(src)
    m = SCHEMES[scheme]
    it = concretise_tree(form, source, scheme) if trees else concretise_flat(form, source, scheme)
    data = {"it": it, "P": "".join(pas) if scheme == "str" else [m[v] for v in pas],
            "M": {m[v]: (v in pas) for v in VALS}, "R": list(rec)}
    if is_async and not via_api:
        return run_coro(t.render_async(**data))
    return t.render(**data)


def render_walks(job):
    """Worker: render a batch of compiled walks; returns mismatches."""
    core.use_repo()
    cases, trees = job
    n = 0
    bad = []
    for c in cases:
        for is_async in (False, True):
            try:
                tpl = get_env(is_async).from_string(c["src"])
            except Exception as e:  # noqa
                bad.append((dict(c, **{"async": is_async, "form": None, "actual": f"compile: {type(e).__name__}: {e}"})))
                continue
            forms = (TREE_FORMS if trees else FLAT_FORMS)[is_async]
            for i, form in enumerate(forms):
                if form == "str" and c["scheme"] != "str":
                    continue
                via_api = (n % 7 == 0)
                try:
                    got = render_case(c["src"], is_async, form, trees, c["source"], c["pass"], c["style"].get("recurse", ()),
                                      c["scheme"], via_api=via_api, tpl=tpl)
                except Suspended:
                    raise
                except Exception as e:  # noqa
                    got = f"raise {type(e).__name__}: {e}"
                n += 1
                if got != c["expected"]:
                    bad.append(dict(c, **{"async": is_async, "form": form, "actual": got}))
    return n, bad


def first_diff_attr(case):
    """Name the walk event at which rendered and expected text first differ (fingerprint only)."""
    exp, act = case["expected"], case["actual"]
    i = 0
    while i < min(len(exp), len(act)) and exp[i] == act[i]:
        i += 1
    events = []
    for lab in case["walk"]:
        a, args = core.parse_label(lab)
        events.append((a, _py(args)))
        if len(expected_text(events, case["scheme"])) > i:
            if a == "Query":
                return args[0][0]
            return {"Advance": "next", "Finish": "else", "Recurse": "recurse", "EndBody": "next"}.get(a, a)
    return "end"


def template_level(ck, g, label, trees, nwalks, rnd):
    comps = g.components()
    cases = []
    covered = set()
    per = max(1, nwalks // max(1, len(comps)))
    for (sid, info, sub, _) in comps:
        for w in range(per):
            ev = gen_walk(sub, g.labels, sid, rnd, trees, covered, plain=(w == 0 and rnd.random() < 0.5))
            events = [g.labels[i] for i in ev]
            scheme = rnd.choice(["str", "int"])
            if trees:
                src, style = tree_template(events, info["on"], rnd, scheme)
            else:
                src, style = flat_template(events, info["on"], rnd, scheme)
            cases.append({"kind": "template", "trees": trees, "src": src, "style": style, "scheme": scheme,
                          "source": forest_of(info["source"]) if trees else list(info["source"]),
                          "pass": info["pass"], "filtered": info["on"],
                          "walk": [g.label_text[i] for i in ev], "expected": expected_text(events, scheme)})
    nb = NPROC * 2
    jobs = [(cases[i::nb], trees) for i in range(nb) if cases[i::nb]]
    total = 0
    if True:
        for n, bad in pool().map(render_walks, jobs):
            total += n
            for c in bad:
                attr = first_diff_attr(c)
                fp = {"kind": "loop-template", "attr": attr, "async": c["async"], "trees": trees,
                      "filtered": c["filtered"]}
                ck.violation(c, f"{'async ' if c['async'] else ''}template {c['src']!r} over {c['form']} of "
                                f"{c['source']} (filter pass={c['pass'] if c['filtered'] else None}): rendered "
                                f"{c['actual']!r}, spec walk says {c['expected']!r}", fp)
    for c in cases[:: max(1, len(cases) // 2)][:2]:
        ck.sample({"template": c["src"], "source": c["source"], "walk": c["walk"], "expected": c["expected"]})
    ck.traces += total
    ck.evaluations += total
    ck.extra.setdefault("template_level", {})[label] = {
        "walks": len(cases), "renders": total,
        "graph_query_edges_covered_by_walks": len(covered)}
    return total


# ---------------------------------------------------------------------------
# random forests for the recursive configuration (inputs only)
# ---------------------------------------------------------------------------

def gen_forests(rnd, n, maxnodes):
    forests = []
    seen = set()
    while len(forests) < n:
        budget = [rnd.randint(0, maxnodes)]
        counter = [0]

        def mk(depth, width):
            seq = []
            k = rnd.randint(0, width)
            for _ in range(k):
                if budget[0] <= 0:
                    break
                budget[0] -= 1
                counter[0] += 1
                node = {"id": f"n{counter[0]}", "v": rnd.choice(VALS), "ch": None}
                node["ch"] = mk(depth + 1, 2) if depth < 3 else []
                seq.append(node)
            return seq
        f = mk(1, 3)
        key = json.dumps(f, sort_keys=True)
        if key in seen and len(seen) < 2000:
            continue
        seen.add(key)
        forests.append(f)
    return forests


def forest_tla(f):
    """Forest (nested dicts) -> the spec's [top |-> ids, tab |-> id -> [v, ch]] record."""
    rows = []

    def walk(seq):
        for n in seq:
            ch = ", ".join(f'"{c["id"]}"' for c in n["ch"])
            rows.append(f'{n["id"]} |-> [v |-> "{n["v"]}", ch |-> <<{ch}>>]')
            walk(n["ch"])
    walk(f)
    top = ", ".join(f'"{n["id"]}"' for n in f)
    return f"[top |-> <<{top}>>, tab |-> " + ("[" + ", ".join(rows) + "]" if rows else "<<>>") + "]"


def forest_of(source):
    """The spec's forest record (as parsed from the dump) -> nested dicts for concretisation."""
    tab = source["tab"] if isinstance(source["tab"], dict) else {}

    def conv(ids):
        return [{"id": i, "v": tab[i]["v"], "ch": conv(tab[i]["ch"])} for i in ids]
    return conv(source["top"])


def max_width(f):
    return max([len(f)] + [max_width(n["ch"]) for n in f])


# ---------------------------------------------------------------------------
# run
# ---------------------------------------------------------------------------

# by symmetry of the item values (sources range over all sequences) one pass set per size suffices
SYM_FILTERS = ('{[on |-> TRUE, pass |-> {}], [on |-> TRUE, pass |-> {"a"}], [on |-> TRUE, pass |-> {"a", "c"}], '
               '[on |-> TRUE, pass |-> {"a", "b", "c"}]}')
TREE_QUERIES = ('{<<"depth">>, <<"depth0">>, <<"index">>, <<"revindex">>, <<"length">>, <<"last">>, '
                '<<"nextitem">>, <<"previtem">>, <<"changed", "a">>}')


def run(ck):
    try:
        _run(ck)
    finally:
        close_pool()


def _run(ck):
    pool()
    quick = ck.tier == "quick"
    rnd = random.Random(ck.seed)
    # flat sources: every sequence over 3 values up to n3, plus longer ones over 2 values up to n2
    n3, n2 = (3, 4) if quick else (4, 6)
    flat_sources = f"FlatSources({n3}) \\cup UNION {{[1..k -> {{\"a\", \"b\"}}] : k \\in {n3 + 1}..{n2}}}"
    forests = gen_forests(rnd, 16 if quick else 100, 5 if quick else 6)
    forests_tla = "{" + ",\n ".join(forest_tla(f) for f in forests) + "}"
    tree_keys = "{" + ", ".join(f'"n{i}"' for i in range(1, 8)) + "}"
    tree_maxlen = max(max_width(f) for f in forests)

    models = {
        # flat loops with and without a loop filter: invariants, liveness (every loop terminates under
        # fair progress), action coverage and the state graph in one TLC run
        "Flat": dict(sources=flat_sources, kinds='{"sized", "unsized"}', filters="{NoFilter} \\cup " + SYM_FILTERS,
                     queries="AllQueries", keys="MCVals", maxlen=n2, trees=False, live=True, coverage=quick),
        "Tree": dict(sources=forests_tla, kinds='{"sized", "unsized"}',
                     filters='{NoFilter, [on |-> TRUE, pass |-> {"a", "b"}]}',
                     queries=TREE_QUERIES, keys=tree_keys, maxlen=tree_maxlen, trees=True),
    }
    results = {}
    import time
    T = ck.extra.setdefault("phase_wall_s", {})
    t0 = time.time()
    with ThreadPoolExecutor(len(models)) as tp:
        futs = {name: tp.submit(run_model, name, **kw) for name, kw in models.items()}
        for name, f in futs.items():
            results[name] = f.result()
    T["tlc"] = round(time.time() - t0, 1)
    for name, r in results.items():
        ck.add_tlc(r, f"LoopCtx {name}")
    if quick:
        ck.require_coverage(results["Flat"], ["Advance", "Query", "EndBody", "Finish"])

    nwalks = {"Flat": 2600, "Tree": 1000} if quick else {"Flat": 20000, "Tree": 8000}
    for name in ("Flat",):
        t0 = time.time()
        g = Graph(results[name].dir / "graph.dot")
        T[f"parse_{name}"] = round(time.time() - t0, 1)
        acts = {a for a, _ in g.labels}
        if not {"Advance", "Query", "EndBody", "Finish"} <= acts:
            raise core.MachineryError(f"vacuous graph {name}: actions {acts}")
        t0 = time.time()
        object_level(ck, g, name)
        T[f"object_{name}"] = round(time.time() - t0, 1)
        t0 = time.time()
        template_level(ck, g, name, False, nwalks[name], rnd)
        T[f"template_{name}"] = round(time.time() - t0, 1)
    t0 = time.time()
    g = Graph(results["Tree"].dir / "graph.dot")
    T["parse_Tree"] = round(time.time() - t0, 1)
    if "Recurse" not in {a for a, _ in g.labels}:
        raise core.MachineryError("vacuous tree graph: no Recurse")
    t0 = time.time()
    template_level(ck, g, "Tree", True, nwalks["Tree"], rnd)
    T["template_Tree"] = round(time.time() - t0, 1)

    ck.exhaustive = False
    ck.extra["exhaustive_note"] = ("object level: every transition of the bounded state graphs replayed (exhaustive); "
                                   "template level: seeded sample of walks through the same graphs")
    ck.extra["bounds"] = {"values": VALS, "flat": f"all sequences over 3 values up to length {n3}, over 2 values up to "
                          f"length {n2}", "filter": "same sources x one pass set per size (0-3)",
                          "forests": len(forests)}
    ck.extra["excluded_shapes"] = [
        "loop attributes read before the first / after the last iteration (not reachable from a template)",
        "loop.cycle() without arguments (TypeError, undocumented)",
        "loop.changed with several arguments (only single values are enumerated)",
        "iterables mutated while the loop runs; iterables whose len() disagrees with their iteration",
        "calling loop(...) on a non-recursive loop",
    ]
    ck.assumptions += [
        "item values are three abstract symbols concretised as the strings a/b/c or the ints 0/1/2 (0 is falsy); "
        "tree nodes are objects with id/v/ch attributes",
        "async iterables never really suspend (coroutines are driven with send(None); 1 in 7 renders goes "
        "through Template.render and a real event loop)",
    ]


def replay(ck, rec):
    c = rec["case"]
    if c["kind"] == "object":
        ctx, _ = new_ctx(c["form"], c["source"], c["pass"], c["async"])
        for lab in c["steps"]:
            act, args = core.parse_label(lab)
            args = _py(args)
            exp = expected_of(act, args)
            if exp is None:
                continue
            got = apply_step(ctx, c["async"], act, args, split_form(c["form"])[1])
            if not same(got, exp):
                ck.violation(c, f"still differs at {lab}: got {got!r}", rec.get("fingerprint"))
                return
    else:
        try:
            got = render_case(c["src"], c["async"], c["form"], c["trees"], c["source"], c["pass"],
                              c["style"].get("recurse", ()), c["scheme"], via_api=True)
        except Exception as e:  # noqa
            got = f"raise {type(e).__name__}: {e}"
        if got != c["expected"]:
            ck.violation(c, f"still differs: rendered {got!r}, expected {c['expected']!r}", rec.get("fingerprint"))
