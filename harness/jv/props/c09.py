"""C09 - async mode renders exactly what sync mode renders.

Spec: spec/Jinja.tla has no notion of async at all: one output / error class per
(program, data).  Every cell of the matrix {Environment, SandboxedEnvironment,
ImmutableSandboxedEnvironment} x {sync env: render, generate; async env: render,
generate, render_async, generate_async} x {plain data, callables as coroutine
functions} must equal the spec's observable (the sync cell is not the oracle).
NativeEnvironment has no text semantics in Jinja.tla; its sync and async cells are
compared with each other on the values they return.
"""
from __future__ import annotations

import asyncio
import json
from concurrent.futures import ProcessPoolExecutor

from .. import core, jgen, jrun
from .. import jast as J


def variants(tier):
    vs = []
    for cls in ("Environment", "SandboxedEnvironment", "ImmutableSandboxedEnvironment"):
        short = {"Environment": "env", "SandboxedEnvironment": "sbx", "ImmutableSandboxedEnvironment": "imm"}[cls]
        vs.append({"label": f"{short}/sync/render", "env_cls": cls})
        vs.append({"label": f"{short}/sync/generate", "env_cls": cls, "how": "generate"})
        for how in ("render", "generate", "render_async", "generate_async"):
            vs.append({"label": f"{short}/async/{how}", "env_cls": cls, "how": how, "opts": {"enable_async": True}})
        vs.append({"label": f"{short}/async/render_async+asyncfns", "env_cls": cls, "how": "render_async",
                   "opts": {"enable_async": True}, "async_fns": True})
        vs.append({"label": f"{short}/async/render+asyncfns", "env_cls": cls, "how": "render",
                   "opts": {"enable_async": True}, "async_fns": True})
    return vs


def fingerprint(m, case):
    return {"kind": "render-mismatch", "variant": m["variant"]}


def _native_work(case):
    """NativeEnvironment: sync vs async-enabled environments must return equal values."""
    core.use_repo()
    from jinja2.nativetypes import NativeEnvironment
    from jinja2 import DictLoader
    srcs = jrun.sources(case)
    out, n = [], 0
    envs = {}
    for label, kw in (("sync", {}), ("async", {"enable_async": True})):
        envs[label] = NativeEnvironment(loader=DictLoader(srcs), extensions=["jinja2.ext.loopcontrols"], **kw)
        for g, v in case["globals"].items():
            if v["t"] != "builtin":
                envs[label].globals[g] = J.to_py(v, case["objs"], [], {})

    def run(env, how, di):
        data = {k: J.to_py(v, case["objs"], [], {}) for k, v in case["datas"][di - 1].items()}
        try:
            t = env.get_template(case["main"])
            if how == "render":
                return ("ok", repr(t.render(**data)))
            return ("ok", repr(asyncio.run(t.render_async(**data))))
        except Exception as e:  # noqa
            return ("err", type(e).__name__)

    for di in range(1, len(case["datas"]) + 1):
        base = run(envs["sync"], "render", di)
        for label, how in (("async", "render"), ("async", "render_async")):
            got = run(envs[label], how, di)
            n += 1
            if got != base and "Probe" not in base[1] and not __import__("re").search(r"(?i) at 0x[0-9a-f]+", str(base[1])):
                out.append({"case": case["id"], "d": di, "how": f"native/{label}/{how}", "sync": base, "got": got,
                            "src": srcs})
    return out, n


# Native environments: a value is converted to text only by the final concat, so what is converted is the value as it is
# when the template (block) has run to its end - in a sync environment as much as in an async one (which collects the
# chunks of the async generator first).  Directed programs in which the conversion order is observable: a list mutated
# after it was written, and an object whose conversion fails before a later error of another class.
NATIVE_ORDER = [
    {"main": "{{ L }}x{% set _ = L.append(1) %}"},
    {"main": "a{{ L }}b{% set _ = L.append(1) %}{{ L }}"},
    {"main": "{{ L }}{% set _ = L.append(1) %}x"},
    {"main": "{{ L }}{{ L }}{{ L }}{% set _ = L.append(1) %}"},
    {"main": "{% block b %}{{ L }}x{% set _ = L.append(1) %}{% endblock %}"},
    {"main": "{% block b %}{{ L }}x{% set _ = L.append(1) %}{% endblock %}|{{ self.b() }}|{{ L }}"},
    {"main": "{% macro m() %}{{ L }}x{% set _ = L.append(1) %}{% endmacro %}{{ m() }}|{{ L }}"},
    {"main": "{% set v %}{{ L }}x{% set _ = L.append(1) %}{% endset %}{{ v }}|{{ L }}"},
    {"main": "{% for i in [1, 2] %}{{ L }};{% set _ = L.append(i) %}{% endfor %}"},
    {"main": "{% extends 'p' %}{% block b %}{{ L }}x{% set _ = L.append(1) %}{{ super() }}{% endblock %}",
     "p": "<{% block b %}{{ L }}y{% set _ = L.append(2) %}{% endblock %}>{{ L }}"},
    {"main": "[{% include 'i' %}]{{ L }}", "i": "{{ L }}x{% set _ = L.append(1) %}"},
    {"main": "{{ bad }}x{{ 1 // 0 }}"},
    {"main": "x{{ bad }}{% include 'nope' %}"},
    {"main": "{{ bad }}{{ 1 // 0 }}"},
    {"main": "{% block b %}x{{ bad }}{{ missing.attr }}{% endblock %}"},
    {"main": "{% block b %}x{{ bad }}{% endblock %}{{ self.b() }}{{ 1 // 0 }}"},
    {"main": "{% import 'lib' as mod %}{{ mod }}x{% include 'nope' %}", "lib": "[{{ 1 }}]"},
]


def _native_order_work(i):
    core.use_repo()
    from jinja2.nativetypes import NativeEnvironment
    from jinja2 import DictLoader

    class Bad:
        def __str__(self):
            raise ValueError("no text")

    srcs = NATIVE_ORDER[i]
    res = []
    for kw, how in (({}, "render"), ({"enable_async": True}, "render"), ({"enable_async": True}, "render_async")):
        env = NativeEnvironment(loader=DictLoader(srcs), **kw)
        try:
            t = env.get_template("main")
            data = {"L": [], "bad": Bad()}
            r = t.render(**data) if how == "render" else asyncio.run(t.render_async(**data))
            res.append(("ok", repr(r)))
        except Exception as e:  # noqa
            res.append(("err", type(e).__name__))
    return i, res


# ---- spec/NativeOrder.tla: when native output values become text ---------------------------------
# TLC enumerates every statement sequence (text / {{ L }} / L.append / {{ bad }} / raising expression / {{ self.b() }} or {{ m() }}),
# runs the sync and the async renderer of the model step by step (Pull / Convert / Finish) and prints the result of both;
# each program is rendered by the real NativeEnvironment in the three cells and compared with the model's result.
ORDER_OPS = {"txt": "x", "ref": "{{ L }}", "push": "{% set _ = L.append(1) %}", "bad": "{{ bad }}", "div": "{{ 1 // z }}",
             "call": "{{ self.b() }}"}
ORDER_CELLS = (("sync", {}, "render"), ("async", {"enable_async": True}, "render"), ("async", {"enable_async": True}, "render_async"))


def order_cfg(max_ops, lazy=False):
    return f"""CONSTANTS
  MaxOps = {max_ops}
  Lazy = {"TRUE" if lazy else "FALSE"}
SPECIFICATION Spec
INVARIANT TypeOK
INVARIANT C09_NativeParity
INVARIANT C09_ConvertedAtTheEnd
INVARIANT C09_ActionsMatchFunction
"""


def order_sources(o):
    via = o.get("via", "block")
    ops = dict(ORDER_OPS, call="{{ m() }}" if via == "macro" else "{{ self.b() }}")
    main = "".join(ops[x] for x in o["main"])
    body = "".join(ops[x] for x in o["body"])
    shapes = []
    if "call" not in o["main"]:
        shapes.append(("top-level", {"main": main}))
        shapes.append(("block", {"main": "{% block main %}" + main + "{% endblock %}"}))
    elif via == "macro":
        mac = "{% macro m() %}" + body + "{% endmacro %}"
        shapes.append(("top-level+macro", {"main": mac + main}))
        shapes.append(("block+macro", {"main": mac + "{% block main %}" + main + "{% endblock %}"}))
        return shapes
    shapes.append(("child", {"main": "{% extends 'base' %}{% block main %}" + main + "{% endblock %}{% block b %}" + body + "{% endblock %}",
                             "base": "{% block main %}{% endblock %}"}))
    return shapes


def order_expected(res):
    k = res["kind"]
    if k == "err":
        return ["err", res["cls"]]
    if k == "none" or (k == "obj" and res["toks"] == ["None"]):
        return ["none"]
    if k == "obj":
        return ["obj", res["toks"][0]]
    return ["text", "".join("x" if t == "x" else "None" if t == "None" else str([1] * int(t[1:])) for t in res["toks"])]


def _order_work(chunk):
    core.use_repo()
    from jinja2.nativetypes import NativeEnvironment
    from jinja2 import DictLoader

    class Bad:
        def __str__(self):
            raise ValueError("no text")

    out, n = [], 0
    for o in chunk:
        for shape, srcs in order_sources(o):
            for label, kw, how in ORDER_CELLS:
                env = NativeEnvironment(loader=DictLoader(srcs), **kw)
                data = {"L": [], "bad": Bad(), "z": 0}
                try:
                    t = env.get_template("main")
                    r = t.render(**data) if how == "render" else asyncio.run(t.render_async(**data))
                    got = (["none"] if r is None else ["obj", "L"] if r is data["L"] else ["obj", "bad"] if r is data["bad"]
                           else ["text", r] if type(r) is str else ["other", repr(r)])
                except Exception as e:  # noqa
                    got = ["err", type(e).__name__]
                n += 1
                want = order_expected(o[label])
                if got != want:
                    out.append({"order": o, "shape": shape, "cell": f"native/{label}/{how}", "want": want, "got": got, "src": srcs})
    return out, n


def start_native_order(quick):
    """The two TLC runs of NativeOrder.tla, started in the background (they take one core each)."""
    from concurrent.futures import ThreadPoolExecutor
    max_ops = 4 if quick else 5
    bg = ThreadPoolExecutor(max_workers=2)
    f = bg.submit(core.run_tlc, "C09", "NativeOrder", order_cfg(max_ops), name="native-order", coverage=True, workers=1, timeout=3000)
    fl = bg.submit(core.run_tlc, "C09", "NativeOrder", order_cfg(3, lazy=True), name="native-order-lazy", workers=1, args=["-continue"])
    bg.shutdown(wait=False)
    return max_ops, f, fl


def check_native_order(ck, started):
    max_ops, f, fl = started
    r, rl = f.result(), fl.result()
    ck.add_tlc(r, f"NativeOrder: every statement sequence <= {max_ops} (when native output values become text)")
    ck.require_coverage(r, ["Pull", "Convert", "Finish", "Report"])
    ck.tlc_runs.append({"spec": "NativeOrder: sync native_concat converts values as they are pulled (shape of the pinned tree; negative control)",
                        "distinct_states": rl.distinct, "states_generated": rl.generated, "depth": rl.depth, "wall_s": round(rl.wall, 2)})
    ck.extra["model_with_lazy_sync_concat_violates"] = sorted(set(rl.invariant_violated))
    if "C09_NativeParity" not in rl.invariant_violated:
        raise core.MachineryError("NativeOrder.tla: the lazily converting sync model should violate C09_NativeParity")
    if not r.ok:
        return
    progs = [json.loads(ln)["order"] for ln in sorted(set(r.printed())) if ln.startswith('{"order"')]
    if len(progs) < 600:
        raise core.MachineryError("NativeOrder.tla printed too few programs")
    if any(p["sync"] != p["async"] for p in progs):
        raise core.MachineryError("NativeOrder.tla printed diverging results although C09_NativeParity holds")
    n = 0
    with ProcessPoolExecutor(max_workers=16) as ex:
        for mism, k in ex.map(_order_work, list(core.chunks(progs, 100))):
            n += k
            for m in mism:
                ck.violation({"kind": "native-order", **m},
                             f"{m['cell']} ({m['shape']}) of {m['src']['main']!r}: NativeOrder.tla gives {m['want']}, jinja2 returns {m['got']}",
                             {"kind": "native-order", "cell": m["cell"]})
    ck.traces += n
    ck.extra["native_order_programs"] = len(progs)
    ck.extra["native_order_renders_compared_with_spec"] = n


def _diff_work(chunk):
    """Filters outside the interpreter spec: the spec has no async notion, so for them the relation itself is
    checked - the same template must give the same text / error class in a sync and in an async environment."""
    core.use_repo()
    import jinja2
    from markupsafe import Markup
    from . import c15_scan as sc

    class O:
        x = sc.S1
        def __str__(self): return sc.S1

    def data():
        rows = [{"k": "b", "n": 2}, {"k": "A", "n": 1}, {"n": 3}, {"k": "a", "n": 1}]
        return dict(s=sc.S1, s2=sc.S2, L=[sc.S1, sc.S2, "q<q"], D={sc.S1: sc.S2, "k": sc.S1}, m=Markup("ok"), n=3, LL=[[sc.S1], [sc.S2, sc.S1]],
                    url="http://a.example/?q=" + sc.S1, O=O(), loopdata=sc.S1, rows=rows, G=(x for x in [3, 1, 2]))
    out = []
    for auto in (False, True):
        es = jinja2.Environment(autoescape=auto, extensions=["jinja2.ext.do", "jinja2.ext.loopcontrols"])
        ea = jinja2.Environment(autoescape=auto, enable_async=True, extensions=["jinja2.ext.do", "jinja2.ext.loopcontrols"])
        for p in chunk:
            res = []
            for env, how in ((es, "render"), (ea, "render"), (ea, "render_async")):
                try:
                    t = env.from_string(p["src"])
                    r = t.render(**data()) if how == "render" else asyncio.run(t.render_async(**data()))
                    res.append(("ok", r))
                except Exception as e:  # noqa
                    res.append(("err", type(e).__name__))
            if "random" in p["src"] or "pprint" in p["src"] or __import__("re").search(r"(?i) at 0x[0-9a-f]+", str(res)):
                continue
            if res[1] != res[0] or res[2] != res[0]:
                out.append({"src": p["src"], "tag": p["tag"], "auto": auto, "sync": res[0], "async_render": res[1], "render_async": res[2]})
    return out, len(chunk) * 6


# filters that return lazy (async) iterators in async mode, and filters documented to accept them
LAZY_ASYNC = {"map", "select", "reject", "selectattr", "rejectattr"}
ASYNC_AWARE = {"first", "groupby", "join", "list", "reject", "rejectattr", "select", "selectattr", "map", "sum", "slice",
               "string", "default", "d", "safe", "e", "escape", "pprint"}

EXTRA_DIFF = [
    "{% for g in rows|groupby('k', default='NY') %}[{{ g.grouper }}:{{ g.list|map(attribute='n')|join(',') }}]{% endfor %}",
    "{% for k, items in rows|groupby('k', default='zz', case_sensitive=true) %}[{{ k }}:{{ items|length }}]{% endfor %}",
    "{{ rows|map(attribute='k', default='-')|unique|join(',') }}{{ rows|selectattr('k')|list|length }}{{ rows|rejectattr('k')|list|length }}",
    "{{ rows|sum(attribute='n') }}{{ rows|map(attribute='n')|max }}{{ rows|sort(attribute='n,k', reverse=true)|map(attribute='n')|join }}",
    "{{ G|list }}{{ L|slice(2, 'f')|list }}{{ L|batch(2, 'f')|list }}{{ L|first }}{{ L|last }}{{ L|map('length')|sum }}",
    "{% for x in G %}{{ loop.last }}{{ loop.length }}{{ loop.revindex }}{{ x }},{% endfor %}",
    "{% for x in L|select('string') %}{{ loop.nextitem }}{{ loop.length }}{{ loop.revindex0 }},{% endfor %}",
]


def run(ck):
    quick = ck.tier == "quick"
    order_tlc = start_native_order(quick)
    cases = jgen.corpus(ck.seed + 9, *((100, 60, 0, 120) if quick else (3000, 1500, 0, 3000)))
    # (include/import sets use template modules: `import` in async mode goes through
    #  make_module_async; they are part of the corpus in the thorough tier and via `mod` below)
    cases += jgen.module_cases(ck.seed * 31 + 77, 60 if quick else 1500, start_id=len(cases) + 1)
    # lazy filters: in async mode they are async generators read by the async variants of list / join / sum / first / for
    lz = jgen.lazy_cases(ck.seed * 31 + 78, 120 if quick else 2500, start_id=len(cases) + 1)
    for c in lz:
        c.pop("emit_values", None)
    cases += lz
    for bi, batch in enumerate(core.chunks(cases, 2500)):
        obs, r = jrun.spec_results("C09", batch, name=f"b{bi}", timeout=3000)
        ck.add_tlc(r, f"Jinja.tla batch {bi} ({len(batch)} programs)")
        jrun.conformance(ck, batch, obs, variants(ck.tier), fingerprint)
    # async iterables as data (only meaningful in async environments)
    ait = jgen.aiter_cases(ck.seed + 909, 150 if quick else 3000, start_id=len(cases) + 1)
    lza = jgen.lazy_cases(ck.seed * 31 + 79, 80 if quick else 1500, start_id=len(cases) + len(ait) + 1, aiter=True)
    ait += lza
    obs, r = jrun.spec_results("C09", ait, name="aiter", timeout=3000)
    ck.add_tlc(r, f"Jinja.tla async-iterable programs ({len(ait)})")
    av = [{"label": f"{s_}/{h}/plain-lists", "env_cls": c_, "how": h, "opts": o_}
          for s_, c_ in (("env", "Environment"), ("imm", "ImmutableSandboxedEnvironment"))
          for h, o_ in (("render", {}), ("render_async", {"enable_async": True}))]
    av += [{"label": f"{s_}/async/{h}/async-generators", "env_cls": c_, "how": h, "opts": {"enable_async": True}, "async_iters": True}
           for s_, c_ in (("env", "Environment"), ("sbx", "SandboxedEnvironment"), ("imm", "ImmutableSandboxedEnvironment"))
           for h in ("render", "render_async", "generate_async")]
    jrun.conformance(ck, ait, obs, av, fingerprint)
    # filters the interpreter spec does not model: sync vs async relation over the full filter matrix
    import random as _r
    import jinja2 as _j
    from . import c15_scan as sc
    progs = sc.programs(_r.Random(ck.seed + 99), _j.Environment().filters, "quick")
    progs += [{"id": 0, "src": s_, "mode": "html", "tag": "extra"} for s_ in EXTRA_DIFF]
    nd = 0
    with ProcessPoolExecutor(max_workers=16) as ex:
        for mism, n in ex.map(_diff_work, list(core.chunks(progs, 150))):
            nd += n
            for m in mism:
                names = __import__("re").findall(r"\|\s*([a-z_]+)", m["src"])
                lazy_into_sync = any(a in LAZY_ASYNC and b not in ASYNC_AWARE for a, b in zip(names, names[1:]))
                ck.violation({"kind": "filter-diff", **{k: str(v) for k, v in m.items()}},
                             f"sync and async environments differ for {m['src']!r} (autoescape={m['auto']}): sync {str(m['sync'])[:120]} / "
                             f"async render {str(m['async_render'])[:120]} / render_async {str(m['render_async'])[:120]}",
                             {"kind": "sync-async-differ", "filter": m["tag"],
                              "shape": "lazy-into-sync-filter" if lazy_into_sync else "other"})
    ck.traces += nd
    ck.extra["filter_matrix_renders_compared_sync_vs_async"] = nd
    # native environments
    # (template sets too: self.b() / super() / imported macros return what the environment's concat makes of the chunks)
    sub = [c for c in cases if len(c["tpls"]) == 1][: 150 if quick else 3000]
    sub += [c for c in cases if len(c["tpls"]) > 1][: 90 if quick else 2000]
    total = 0
    with ProcessPoolExecutor(max_workers=16) as ex:
        for mism, n in ex.map(_native_work, sub, chunksize=8):
            total += n
            for m in mism:
                fp = {"kind": "native-async-differs", "how": m["how"]}
                if m["got"] == ("err", "TypeError") and m["how"] == "native/async/render":
                    fp = {"kind": "native-async-render-typeerror"}
                ck.violation({"kind": "native", **m}, f"{m['how']} case {m['case']} data#{m['d']}: sync native returns "
                             f"{m['sync']}, async returns {m['got']} :: {str(m['src'])[:200]}", fp)
    with ProcessPoolExecutor(max_workers=8) as ex:
        for i, res in ex.map(_native_order_work, range(len(NATIVE_ORDER))):
            total += 2
            for got, how in ((res[1], "native/async/render"), (res[2], "native/async/render_async")):
                if got != res[0]:
                    m = {"case": f"order{i}", "d": 1, "how": how, "sync": res[0], "got": got, "src": NATIVE_ORDER[i]}
                    ck.violation({"kind": "native", **m}, f"{how} directed program {i}: sync native returns {res[0]}, async returns "
                                 f"{got} :: {NATIVE_ORDER[i]}", {"kind": "native-async-differs", "family": "conversion-order", "prog": i})
    ck.extra["native_conversion_order_programs"] = len(NATIVE_ORDER)
    check_native_order(ck, order_tlc)
    ck.traces += total
    ck.extra["native_cells_compared"] = total
    ck.extra["programs"] = len(cases)
    ck.exhaustive = False


def replay(ck, rec):
    c = rec["case"]
    if c.get("kind") == "native-order":
        mism, _ = _order_work([c["order"]])
        for m in mism:
            ck.violation({"kind": "native-order", **m},
                         f"{m['cell']} ({m['shape']}) of {m['src']['main']!r}: NativeOrder.tla gives {m['want']}, jinja2 returns {m['got']}",
                         {"kind": "native-order", "cell": m["cell"]})
        return
    if c.get("kind") == "native" and str(c.get("case", "")).startswith("order"):
        i, res = _native_order_work(int(str(c["case"])[5:]))
        for got, how in ((res[1], "native/async/render"), (res[2], "native/async/render_async")):
            if got != res[0]:
                ck.violation({"kind": "native", "case": c["case"], "d": 1, "how": how, "sync": res[0], "got": got, "src": NATIVE_ORDER[i]},
                             f"{how} directed program {i}: sync native returns {res[0]}, async returns {got} :: {NATIVE_ORDER[i]}",
                             {"kind": "native-async-differs", "family": "conversion-order", "prog": i})
        return
    if c.get("kind") == "native":
        raise core.MachineryError("native replays are re-run by the full check")
    case = c["case"]
    obs, r = jrun.spec_results("C09", [case], name="replay", workers=2)
    v = [x for x in variants("thorough") if x["label"] == c["variant"]]
    jrun.conformance(ck, [case], obs, v, fingerprint, procs=1)
