"""C09 - async mode renders exactly what sync mode renders.

Spec: spec/Jinja.tla has no notion of async at all: one output / error class per
(program, data).  Every cell of the matrix {Environment, SandboxedEnvironment,
ImmutableSandboxedEnvironment} x {sync env: render, generate; async env: render,
generate, render_async, generate_async} x {plain data, callables as coroutine
functions} must equal the spec's observable (the sync cell is not the oracle).
NativeEnvironment has no text semantics in Jinja.tla; its sync and async cells are
compared with each other on the values they return.
"""
from __future__ import annotations

import asyncio
from concurrent.futures import ProcessPoolExecutor

from .. import core, jgen, jrun
from .. import jast as J


def variants(tier):
    vs = []
    for cls in ("Environment", "SandboxedEnvironment", "ImmutableSandboxedEnvironment"):
        short = {"Environment": "env", "SandboxedEnvironment": "sbx", "ImmutableSandboxedEnvironment": "imm"}[cls]
        vs.append({"label": f"{short}/sync/render", "env_cls": cls})
        vs.append({"label": f"{short}/sync/generate", "env_cls": cls, "how": "generate"})
        for how in ("render", "generate", "render_async", "generate_async"):
            vs.append({"label": f"{short}/async/{how}", "env_cls": cls, "how": how, "opts": {"enable_async": True}})
        vs.append({"label": f"{short}/async/render_async+asyncfns", "env_cls": cls, "how": "render_async",
                   "opts": {"enable_async": True}, "async_fns": True})
        vs.append({"label": f"{short}/async/render+asyncfns", "env_cls": cls, "how": "render",
                   "opts": {"enable_async": True}, "async_fns": True})
    return vs


def fingerprint(m, case):
    return {"kind": "render-mismatch", "variant": m["variant"]}


def _native_work(case):
    """NativeEnvironment: sync vs async-enabled environments must return equal values."""
    core.use_repo()
    from jinja2.nativetypes import NativeEnvironment
    from jinja2 import DictLoader
    srcs = jrun.sources(case)
    out, n = [], 0
    envs = {}
    for label, kw in (("sync", {}), ("async", {"enable_async": True})):
        envs[label] = NativeEnvironment(loader=DictLoader(srcs), extensions=["jinja2.ext.loopcontrols"], **kw)
        for g, v in case["globals"].items():
            if v["t"] != "builtin":
                envs[label].globals[g] = J.to_py(v, case["objs"], [], {})

    def run(env, how, di):
        data = {k: J.to_py(v, case["objs"], [], {}) for k, v in case["datas"][di - 1].items()}
        try:
            t = env.get_template(case["main"])
            if how == "render":
                return ("ok", repr(t.render(**data)))
            return ("ok", repr(asyncio.run(t.render_async(**data))))
        except Exception as e:  # noqa
            return ("err", type(e).__name__)

    for di in range(1, len(case["datas"]) + 1):
        base = run(envs["sync"], "render", di)
        for label, how in (("async", "render"), ("async", "render_async")):
            got = run(envs[label], how, di)
            n += 1
            if got != base and "Probe" not in base[1] and " object at 0x" not in base[1]:
                out.append({"case": case["id"], "d": di, "how": f"native/{label}/{how}", "sync": base, "got": got,
                            "src": srcs})
    return out, n


def run(ck):
    quick = ck.tier == "quick"
    cases = jgen.corpus(ck.seed + 9, *((100, 60, 0, 120) if quick else (3000, 1500, 0, 3000)))
    # (include/import sets use template modules: `import` in async mode goes through
    #  make_module_async; they are part of the corpus in the thorough tier and via `mod` below)
    cases += jgen.module_cases(ck.seed * 31 + 77, 60 if quick else 1500, start_id=len(cases) + 1)
    for bi, batch in enumerate(core.chunks(cases, 2500)):
        obs, r = jrun.spec_results("C09", batch, name=f"b{bi}", timeout=3000)
        ck.add_tlc(r, f"Jinja.tla batch {bi} ({len(batch)} programs)")
        jrun.conformance(ck, batch, obs, variants(ck.tier), fingerprint)
    # async iterables as data (only meaningful in async environments)
    ait = jgen.aiter_cases(ck.seed + 909, 150 if quick else 3000, start_id=len(cases) + 1)
    obs, r = jrun.spec_results("C09", ait, name="aiter", timeout=3000)
    ck.add_tlc(r, f"Jinja.tla async-iterable programs ({len(ait)})")
    av = [{"label": f"{s_}/{h}/plain-lists", "env_cls": c_, "how": h, "opts": o_}
          for s_, c_ in (("env", "Environment"), ("imm", "ImmutableSandboxedEnvironment"))
          for h, o_ in (("render", {}), ("render_async", {"enable_async": True}))]
    av += [{"label": f"{s_}/async/{h}/async-generators", "env_cls": c_, "how": h, "opts": {"enable_async": True}, "async_iters": True}
           for s_, c_ in (("env", "Environment"), ("sbx", "SandboxedEnvironment"), ("imm", "ImmutableSandboxedEnvironment"))
           for h in ("render", "render_async", "generate_async")]
    jrun.conformance(ck, ait, obs, av, fingerprint)
    # native environments
    sub = [c for c in cases if len(c["tpls"]) == 1][: 150 if quick else 3000]
    total = 0
    with ProcessPoolExecutor(max_workers=16) as ex:
        for mism, n in ex.map(_native_work, sub, chunksize=8):
            total += n
            for m in mism:
                fp = {"kind": "native-async-differs", "how": m["how"]}
                if m["got"] == ("err", "TypeError") and m["how"] == "native/async/render":
                    fp = {"kind": "native-async-render-typeerror"}
                ck.violation({"kind": "native", **m}, f"{m['how']} case {m['case']} data#{m['d']}: sync native returns "
                             f"{m['sync']}, async returns {m['got']} :: {str(m['src'])[:200]}", fp)
    ck.traces += total
    ck.extra["native_cells_compared"] = total
    ck.extra["programs"] = len(cases)
    ck.exhaustive = False


def replay(ck, rec):
    c = rec["case"]
    if c.get("kind") == "native":
        raise core.MachineryError("native replays are re-run by the full check")
    case = c["case"]
    obs, r = jrun.spec_results("C09", [case], name="replay", workers=2)
    v = [x for x in variants("thorough") if x["label"] == c["variant"]]
    jrun.conformance(ck, [case], obs, v, fingerprint, procs=1)
