"""C29 - rendering is repeatable and does not modify its inputs.

Spec: spec/Jinja.tla.  The render arguments and globals of a case are constants of the
specification (no action can change them: the frame condition is structural), and the
only state the engine keeps between renders is the cache of default modules; the action
`Again` renders the same program a second time in the same engine and TLC checks
C29_Repeatable (second result = first result) for every program x data.

Binding: every program is rendered by real jinja2 several times on one Environment in a
seeded random order interleaved with the other data assignments and with direct renders
of the case's other templates, and concurrently from 8-16 threads with a tiny switch
interval; every output must be the one the spec gives, and deep snapshots of the data,
the environment globals and the template globals must be unchanged afterwards.
"""
from __future__ import annotations

import copy
import random
import sys
import threading
from concurrent.futures import ProcessPoolExecutor

from .. import core, jgen, jrun
from .. import jast as J


def snap(v):
    """Deep, comparison-friendly snapshot of a data value."""
    if isinstance(v, J.Probe):
        return ("probe", v._jv_id, {k: snap(x) for k, x in vars(v).items() if not k.startswith("_jv_")},
                {k: snap(x) for k, x in v._jv_items.items()})
    if isinstance(v, J.RecFn):
        return ("fn", v.fid)
    if isinstance(v, (list, tuple)):
        return (type(v).__name__, [snap(x) for x in v])
    if isinstance(v, dict):
        return ("dict", [(snap(k), snap(x)) for k, x in v.items()])
    return (type(v).__name__, str(v))


def _work(args):
    core.use_repo()
    case, obs_by_d, seed, nthreads = args
    rnd = random.Random(seed)
    out, n = [], 0
    for envlabel, opts, how in (("sync", {}, "render"), ("async", {"enable_async": True}, "render")):
        env, srcs = jrun.make_env(case, **opts)
        g_before = {k: snap(v) for k, v in env.globals.items() if not callable(v) or isinstance(v, J.RecFn)}
        datas = {}
        for di in obs_by_d:
            log = []
            datas[di] = {k: J.to_py(v, case["objs"], log, {}) for k, v in case["datas"][di - 1].items()}
        before = {di: {k: snap(v) for k, v in d.items()} for di, d in datas.items()}
        judged = [di for di, o in obs_by_d.items() if o["err"] != "EXCLUDED"]
        if not judged:
            continue
        seq = judged * 3
        rnd.shuffle(seq)

        def render(di):
            try:
                tpl = (env.get_template(case["main"], globals={k: J.to_py(v, case["objs"], [], {}) for k, v in case["tglobals"].items()})
                       if case.get("tglobals") else env.get_template(case["main"]))
                return tpl.render(**datas[di]), ""
            except Exception as e:  # noqa
                name = type(e).__name__
                for klass in type(e).__mro__:
                    if klass.__name__ in J.ERRCLASS:
                        name = J.ERRCLASS[klass.__name__]
                        break
                return None, name

        def judge(di, res, where):
            text, err = res
            m = jrun.compare(obs_by_d[di], {"out": text, "err": err})
            if m is not None:
                out.append({"case": case["id"], "d": di, "what": f"[{envlabel}/{where}] {m}", "src": srcs})

        # sequential: repeated, interleaved with other data and with the other templates of the case
        others = [t for t in case["tpls"] if t != case["main"]]
        for i, di in enumerate(seq):
            judge(di, render(di), f"sequential#{i}")
            n += 1
            if others and i % 2 == 0:
                try:
                    o = env.get_template(rnd.choice(others))
                    o.render(**datas[di])
                    if envlabel == "sync":
                        str(o.module)          # other users of the template: its default module gets cached
                except Exception:  # noqa
                    pass
        # concurrent threads on the same environment and the same data objects
        if envlabel == "sync" and nthreads:
            results = {}
            old = sys.getswitchinterval()
            sys.setswitchinterval(1e-6)
            try:
                def body(tid):
                    r = []
                    for k in range(3):
                        di = judged[(tid + k) % len(judged)]
                        r.append((di, render(di)))
                    results[tid] = r
                ths = [threading.Thread(target=body, args=(t,)) for t in range(nthreads)]
                for t in ths: t.start()
                for t in ths: t.join(60)
            finally:
                sys.setswitchinterval(old)
            for tid, r in results.items():
                for di, res in r:
                    judge(di, res, f"thread{tid}")
                    n += 1
        after = {di: {k: snap(v) for k, v in d.items()} for di, d in datas.items()}
        if after != before:
            bad = [(di, k) for di in before for k in before[di] if before[di][k] != after[di].get(k)]
            out.append({"case": case["id"], "d": bad[0][0] if bad else 0, "src": srcs,
                        "what": f"[{envlabel}] render modified its data: {bad[:3]} before={before[bad[0][0]][bad[0][1]] if bad else ''} after={after[bad[0][0]][bad[0][1]] if bad else ''}",
                        "mutated": True})
        g_after = {k: snap(v) for k, v in env.globals.items() if not callable(v) or isinstance(v, J.RecFn)}
        if g_after != g_before:
            out.append({"case": case["id"], "d": 0, "src": srcs, "what": f"[{envlabel}] environment globals changed", "mutated": True})
    return out, n


ORDER_EXTRA = [
    "{{ D|tojson }}", "{{ D|tojson(indent=2) }}", "{{ L|tojson(2) }}|{{ L|tojson }}", "{{ D|tojson(indent=none) }}",
    "{% set c = cycler(1, 2) %}{{ c.next() }}{{ c.next() }}{{ c.current }}", "{% set j = joiner(s) %}{{ j() }}{{ j() }}",
    "{% set ns = namespace(a=1) %}{% set ns.a = ns.a + 1 %}{{ ns.a }}", "{{ lipsum(1, false, 2, 3)|length > 0 }}", "{{ dict(a=s)|dictsort }}",
    "{{ s|truncate(3) }}{{ s|truncate(3, leeway=0) }}", "{{ url|urlize }}{{ url|urlize(rel='x') }}{{ url|urlize(target='t') }}",
    "{{ L|sort }}{{ L|sort(reverse=true) }}{{ L }}", "{{ L|reverse|list }}{{ L }}", "{{ D|dictsort(reverse=true) }}{{ D|items|list }}",
    "{{ D|xmlattr }}{{ D|xmlattr(false) }}", "{{ LL|sum(start=[]) }}{{ LL }}", "{{ rows|sort(attribute='n') }}{{ rows }}",
    "{{ rows|groupby('n')|list|length }}{{ rows|map(attribute='n')|list }}", "{{ L|join(s) }}{{ L|join }}{{ L }}",
    "{{ s|indent(2) }}{{ s|indent(s2, true) }}", "{{ s|wordwrap(2) }}{{ s|wordwrap(2, wrapstring=s2) }}", "{{ n|filesizeformat }}{{ n|filesizeformat(true) }}",
]


def _order_work(args):
    """Order independence: every program rendered on a fresh environment, then all of them in a seeded order and again
    in reverse on ONE environment, then on another fresh environment created afterwards: always the same result; the
    library's module-level defaults and the environment's policies / filters / tests / globals are unchanged."""
    core.use_repo()
    import re
    import jinja2
    from jinja2 import defaults
    from markupsafe import Markup
    from . import c15_scan as sc
    progs, auto, seed = args

    class O:
        x = sc.S1
        def __str__(self): return sc.S1

    def data():
        rows = [{"k": "b", "n": 2}, {"k": "A", "n": 1}, {"n": 3}, {"k": "a", "n": 1}]
        return dict(s=sc.S1, s2=sc.S2, L=[sc.S1, sc.S2, "q<q"], D={sc.S1: sc.S2, "k": sc.S1}, m=Markup("ok"), n=3, LL=[[sc.S1], [sc.S2, sc.S1]],
                    url="http://a.example/?q=" + sc.S1, O=O(), loopdata=sc.S1, rows=rows, u=jinja2.Undefined(name="u"))

    def mk():
        return jinja2.Environment(autoescape=auto, extensions=["jinja2.ext.do", "jinja2.ext.loopcontrols"])

    def render(env, p):
        try:
            return ("ok", env.from_string(p["src"]).render(**data()))
        except Exception as e:  # noqa
            return ("err", type(e).__name__)

    def state(env):
        return {"DEFAULT_POLICIES": copy.deepcopy(defaults.DEFAULT_POLICIES), "DEFAULT_NAMESPACE": sorted(defaults.DEFAULT_NAMESPACE),
                "DEFAULT_FILTERS": sorted(defaults.DEFAULT_FILTERS), "DEFAULT_TESTS": sorted(defaults.DEFAULT_TESTS),
                "policies": copy.deepcopy(env.policies), "filters": sorted(env.filters), "tests": sorted(env.tests),
                "globals": sorted(env.globals)}

    skip = lambda p, r: "random" in p["src"] or "pprint" in p["src"] or re.search(r"(?i) at 0x[0-9a-f]+", str(r)) is not None
    fresh = {}
    for p in progs:
        fresh[p["id"]] = render(mk(), p)
    shared = mk()
    before = state(shared)
    out, n = [], 0
    order = list(progs)
    random.Random(seed).shuffle(order)
    for label, seq in (("one environment, seeded order", order), ("one environment, reverse order", order[::-1])):
        for p in seq:
            r = render(shared, p)
            n += 1
            if r != fresh[p["id"]] and not skip(p, (r, fresh[p["id"]])):
                out.append({"src": p["src"], "auto": auto, "where": label, "fresh": fresh[p["id"]], "got": r})
    after = state(shared)
    if after != before:
        bad = [k for k in before if before[k] != after[k]]
        out.append({"src": "(all programs)", "auto": auto, "where": "engine state", "fresh": str({k: before[k] for k in bad})[:300],
                    "got": str({k: after[k] for k in bad})[:300], "mutated": True})
    late = mk()
    for p in progs:
        r = render(late, p)
        n += 1
        if r != fresh[p["id"]] and not skip(p, (r, fresh[p["id"]])):
            out.append({"src": p["src"], "auto": auto, "where": "a fresh environment created after the other renders", "fresh": fresh[p["id"]], "got": r})
    return out, n


def order_independence(ck):
    core.use_repo()
    import jinja2
    from . import c15_scan as sc
    progs = sc.programs(random.Random(ck.seed + 2900), jinja2.Environment().filters, "quick")
    progs += [{"id": len(progs) + i + 1, "src": s_, "mode": "html", "tag": "extra"} for i, s_ in enumerate(ORDER_EXTRA)]
    for i, p in enumerate(progs):
        p["id"] = i + 1
    jobs = [(chunk, auto, ck.seed * 7 + ci) for auto in (False, True) for ci, chunk in enumerate(core.chunks(progs, 400))]
    total = 0
    with ProcessPoolExecutor(max_workers=12) as ex:
        for mism, n in ex.map(_order_work, jobs):
            total += n
            for m in mism:
                ck.violation({"kind": "order", **{k: str(v) for k, v in m.items()}},
                             f"[{m['where']}, autoescape={m['auto']}] {m['src']!r}: a fresh environment gives {str(m['fresh'])[:140]}, "
                             f"here {str(m['got'])[:140]}",
                             {"kind": "input-mutated" if m.get("mutated") else "render-depends-on-earlier-renders"})
    ck.traces += total
    ck.extra["order_independence_renders"] = total
    ck.extra["order_independence_programs"] = len(progs)


def run(ck):
    quick = ck.tier == "quick"
    order_independence(ck)
    cases = jgen.corpus(ck.seed + 29, *((90, 50, 110, 120) if quick else (2500, 1200, 2500, 2500)))
    cases += jgen.aiter_cases(ck.seed + 2929, 40 if quick else 800, start_id=len(cases) + 1)
    for c in cases:
        c["cfg"]["rerender"] = True
    obs, r = jrun.spec_results("C29", cases, name="rerender", timeout=3000)
    ck.add_tlc(r, f"Jinja.tla with the Again action ({len(cases)} programs), invariant C29_Repeatable")
    by_case = {}
    for (cid, di), o in obs.items():
        by_case.setdefault(cid, {})[di] = o
    cmap = {c["id"]: c for c in cases}
    total = 0
    jobs = [(c, by_case[c["id"]], ck.seed * 1000 + c["id"], 8 if quick else 16) for c in cases]
    with ProcessPoolExecutor(max_workers=8) as ex:
        for mism, n in ex.map(_work, jobs, chunksize=4):
            total += n
            for m in mism:
                ck.violation({"kind": "repeat", "case": cmap[m["case"]], "d": m["d"]},
                             f"case {m['case']} data#{m['d']}: {m['what'][:260]} :: {str(m['src'])[:160]}",
                             {"kind": "input-mutated" if m.get("mutated") else "render-not-repeatable"})
    ck.traces += total
    ck.evaluations += total
    ck.extra["renders_compared"] = total
    ck.extra["programs"] = len(cases)
    ck.exhaustive = False
    ck.assumptions += ["thread interleavings are sampled by the OS scheduler with switch interval 1e-6 (best effort)"]


def replay(ck, rec):
    if rec["case"].get("kind") == "order":
        return order_independence(ck)
    case = rec["case"]["case"]
    obs, r = jrun.spec_results("C29", [case], name="replay", workers=2)
    by = {}
    for (cid, di), o in obs.items():
        by.setdefault(cid, {})[di] = o
    mism, n = _work((case, by[case["id"]], 1, 8))
    for m in mism:
        ck.violation(rec["case"], m["what"][:300], {"kind": "input-mutated" if m.get("mutated") else "render-not-repeatable"})
